//! T5 tie at IR level: the structured MIR of the composed model (`c01 t5mir`: resolve →
//! `LowerS.lowerProg`, laid out as a CFG by the driver) against the real MIR of every function
//! (hook `verif_hooks::c08::dump`), canonicalised the same way. The canonicaliser is the one of
//! harness/src/bin/c08.rs (copied: blocks in depth-first order from the entry, renumbered by first
//! visit, each block cut after its first terminator; `drop`s and `x: () = ()` are left out).

use roto::FileTree;
use rotov_harness::Report;
use rotov_harness::driver::{Driver, hex};
use serde_json::{Value, json};
use std::panic::{AssertUnwindSafe, catch_unwind};

#[derive(Clone, Debug, PartialEq)]
enum Raw {
    Assign(String),
    Ret(String),
    Jump(usize),
    Switch(String, Vec<(usize, usize)>, Option<usize>),
    Other(String),
}

/// The real MIR of every function (post-DCE) as raw blocks, by name; `drop`s and `x: () = ()` are left out.
fn real_raw(src: &str) -> Result<Vec<(String, usize, Vec<Vec<Raw>>)>, String> {
    use roto::verif_hooks::c08::Ins;
    let rt: &'static roto::Runtime<roto::NoCtx> = Box::leak(Box::new(roto::Runtime::new()));
    let fns = roto::verif_hooks::c08::dump(FileTree::test_file("c01.roto", src, 0), rt).map_err(|e| format!("{e}"))?;
    Ok(fns
        .iter()
        .map(|f| {
            let blocks = f
                .blocks
                .iter()
                .map(|b| {
                    b.iter()
                        .filter_map(|i| match i {
                            Ins::Assign { unit_const: true, .. } | Ins::Drop { .. } => None,
                            Ins::Assign { to, value, .. } => Some(Raw::Assign(format!("{to} = {}", value.trim_end()))),
                            Ins::SetDiscriminant { to, variant } => Some(Raw::Other(format!("setdisc {to} {variant}"))),
                            Ins::Return { var } => Some(Raw::Ret(var.clone())),
                            Ins::Jump { to } => Some(Raw::Jump(*to)),
                            Ins::Switch { examinee, branches, default } => Some(Raw::Switch(examinee.clone(), branches.clone(), *default)),
                        })
                        .collect()
                })
                .collect();
            (f.name.rsplit('.').next().unwrap_or("").to_string(), f.tmp_idx, blocks)
        })
        .collect())
}

/// The model's answer to `c08 mir`: `ok <tmp_idx> | block | block …`.
fn model_raw(ans: &str) -> Result<(usize, Vec<Vec<Raw>>), String> {
    let mut parts = ans.split(" | ");
    let head = parts.next().unwrap_or("");
    let tmp_idx: usize = head.strip_prefix("ok ").and_then(|s| s.trim().parse().ok()).ok_or(format!("bad head: {head}"))?;
    let mut blocks = vec![];
    for b in parts {
        let mut ins = vec![];
        for i in b.split(';').map(|s| s.trim()).filter(|s| !s.is_empty()) {
            let w: Vec<&str> = i.split(' ').collect();
            ins.push(match w[0] {
                "a" => {
                    let text = w[1..].join(" ");
                    if text.ends_with("= const unit") {
                        continue;
                    }
                    Raw::Assign(text.trim_end().to_string())
                }
                "d" => Raw::Other(format!("setdisc {} {}", w[1], w[2])),
                "r" => Raw::Ret(w[1].to_string()),
                "j" => Raw::Jump(w[1].parse().map_err(|_| "jump")?),
                "s" => Raw::Switch(w[1].to_string(), vec![(w[2].parse().map_err(|_| "switch")?, w[3].parse().map_err(|_| "switch")?)], Some(w[4].parse().map_err(|_| "switch")?)),
                // m <var> <default|-> k:l k:l …   (the n-way switch of a match)
                "m" => {
                    let d = if w[2] == "-" { None } else { Some(w[2].parse().map_err(|_| "match default")?) };
                    let mut br = vec![];
                    for p in &w[3..] {
                        let (k, l) = p.split_once(':').ok_or("match branch")?;
                        br.push((k.parse().map_err(|_| "match branch")?, l.parse().map_err(|_| "match branch")?));
                    }
                    Raw::Switch(w[1].to_string(), br, d)
                }
                _ => return Err(format!("instruction not understood: {i}")),
            });
        }
        blocks.push(ins);
    }
    Ok((tmp_idx, blocks))
}

/// Canonical text of a CFG: blocks in depth-first order from the entry (switch branches in
/// order, then the default), renumbered by first visit; each block cut after its first
/// terminator. Equal CFGs up to label names / block order / unreachable code give equal text.
fn canon_cfg(blocks: &[Vec<Raw>]) -> String {
    let mut order: Vec<usize> = vec![];
    let mut id = std::collections::HashMap::new();
    let mut stack = vec![0usize];
    let cut = |b: &Vec<Raw>| -> Vec<Raw> {
        let mut out = vec![];
        for i in b {
            out.push(i.clone());
            if matches!(i, Raw::Ret(_) | Raw::Jump(_) | Raw::Switch(..)) {
                break;
            }
        }
        out
    };
    // the order in which a `match` lists its discriminants is not fixed (the compiler iterates
    // a hash set): branches are compared in ascending key order
    let blocks: Vec<Vec<Raw>> = blocks
        .iter()
        .map(|b| {
            b.iter()
                .map(|i| match i {
                    Raw::Switch(x, br, d) => {
                        let mut br = br.clone();
                        br.sort();
                        Raw::Switch(x.clone(), br, *d)
                    }
                    other => other.clone(),
                })
                .collect()
        })
        .collect();
    let blocks = &blocks[..];
    while let Some(b) = stack.pop() {
        if b >= blocks.len() || id.contains_key(&b) {
            continue;
        }
        id.insert(b, order.len());
        order.push(b);
        let body = cut(&blocks[b]);
        let mut succ = vec![];
        match body.last() {
            Some(Raw::Jump(l)) => succ.push(*l),
            Some(Raw::Switch(_, br, d)) => {
                succ.extend(br.iter().map(|(_, l)| *l));
                succ.extend(d.iter().copied());
            }
            _ => {}
        }
        for s in succ.into_iter().rev() {
            stack.push(s);
        }
    }
    let name = |l: &usize| id.get(l).map(|i| format!("L{i}")).unwrap_or_else(|| "L?".to_string());
    let mut out = String::new();
    for (n, b) in order.iter().enumerate() {
        out.push_str(&format!("L{n}:\n"));
        for i in cut(&blocks[*b]) {
            let line = match i {
                Raw::Assign(t) => t,
                Raw::Other(t) => t,
                Raw::Ret(v) => format!("return {v}"),
                Raw::Jump(l) => format!("jump {}", name(&l)),
                Raw::Switch(x, br, d) => format!(
                    "switch {x} [{}] else {}",
                    br.iter().map(|(k, l)| format!("{k} => {}", name(l))).collect::<Vec<_>>().join(", "),
                    d.as_ref().map(&name).unwrap_or_else(|| "-".to_string())
                ),
            };
            out.push_str("  ");
            out.push_str(&line);
            out.push('\n');
        }
    }
    out
}

/// Rename temporaries `tN` by order of first occurrence in the canonical text.
fn rename_tmps(text: &str) -> String {
    let mut map: std::collections::HashMap<String, usize> = std::collections::HashMap::new();
    let mut out = String::new();
    let bytes: Vec<char> = text.chars().collect();
    let mut i = 0;
    while i < bytes.len() {
        let c = bytes[i];
        let boundary = i == 0 || !(bytes[i - 1].is_alphanumeric() || bytes[i - 1] == '_');
        if c == 't' && boundary && i + 1 < bytes.len() && bytes[i + 1].is_ascii_digit() {
            let mut j = i + 1;
            while j < bytes.len() && bytes[j].is_ascii_digit() {
                j += 1;
            }
            let name: String = bytes[i..j].iter().collect();
            let n = map.len();
            let id = *map.entry(name).or_insert(n);
            out.push_str(&format!("T{id}"));
            i = j;
        } else {
            out.push(c);
            i += 1;
        }
    }
    out
}


/// Compare the composed model's structured MIR with the real MIR of every function of a program
/// of the fragment whose variables are named by level (`ast::rename_levels`).
/// Returns the number of functions compared and found equal.
pub fn compare_mir(rep: &mut Report, drv: &mut Driver, src: &str, sx: &str, fn_names: &[String], ident: &Value) -> u64 {
    let ans = drv.ask(&format!("c01 t5mir {}", hex(sx)));
    if ans.trim() == "outside" {
        rep.hist("t5-mir-model-vs-real", "outside the fragment");
        return 0;
    }
    let per_fn: Vec<&str> = ans.split(" || ").collect();
    if per_fn.len() != fn_names.len() {
        rep.mismatch("answer of `c01 t5mir` not understood", json!({"case": ident, "src": src, "answer": ans}));
        return 0;
    }
    let real = match catch_unwind(AssertUnwindSafe(|| real_raw(src))) {
        Ok(Ok(r)) => r,
        Ok(Err(e)) => {
            rep.mismatch("MIR dump hook failed on a generated program", json!({"case": ident, "src": src, "error": e}));
            return 0;
        }
        Err(_) => return 0, // the compiler panicked: reported by the behavioural part
    };
    let mut same = 0;
    for (i, a) in per_fn.iter().enumerate() {
        let name = &fn_names[i];
        if a.trim() == "outside" {
            rep.mismatch("the lowering model is undefined on a function of a resolved program (contradicts resolve_lowers)", json!({"case": ident, "src": src, "function": name}));
            continue;
        }
        // the model names script functions by index
        let mut text = a.trim().to_string();
        for (j, n) in fn_names.iter().enumerate() {
            text = text.replace(&format!("call f{j} "), &format!("call {n} "));
            text = text.replace(&format!("call f{j};"), &format!("call {n};"));
        }
        let model = match model_raw(&text) {
            Ok(m) => m,
            Err(e) => {
                rep.mismatch("answer of `c01 t5mir` not understood", json!({"case": ident, "src": src, "error": e, "answer": a}));
                continue;
            }
        };
        let Some((_, rtmp, rblocks)) = real.iter().find(|(n, _, _)| n == name) else {
            rep.mismatch("the MIR dump has no item for a function of the program", json!({"case": ident, "src": src, "function": name}));
            continue;
        };
        // temporaries are compared up to a renaming by first occurrence in the canonical text: the
        // number a temporary gets has no meaning, the order in which values are computed has
        let (mc, rc) = (rename_tmps(&canon_cfg(&model.1)), rename_tmps(&canon_cfg(rblocks)));
        if mc != rc {
            rep.mismatch(
                "T5 tie: the structured MIR of the composed model (resolve, then LowerS.lowerFn) and the real MIR of a function differ (instructions, their order, operands or control flow; drops, unit constants and the numbering of temporaries ignored)",
                json!({"case": ident, "src": src, "function": name, "model_tmp_idx": model.0, "real_tmp_idx": rtmp, "model": mc, "real": rc}),
            );
            rep.hist("t5-mir-model-vs-real", "DIFFERENT");
        } else {
            rep.hist("t5-mir-model-vs-real", "same");
            same += 1;
        }
    }
    same
}
