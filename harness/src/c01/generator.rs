//! Type-directed program generator for C01. Every random choice comes from the
//! one `Prng` handed in, so `(seed, index)` replays a program.
//!
//! Shape of a program: up to three helper functions `h0..` (a DAG: `hi` may
//! call `hj` only for `j > i`; no calls inside helper loops, so the running
//! time stays bounded), optionally a recursive group (`r0` alone, or the
//! mutually recursive pair `r0`/`r1`) whose first parameter is a depth counter
//! called with values ≤ 20, and `main(a, b, c : A) -> R`.
//!
//! Literals: the generator knows every type. A literal is printed without a
//! suffix only where the context fixes its type (annotated `let`, assignment,
//! argument, `return`/tail position, or a sibling operand whose type is
//! pinned), or where the type is the default anyway (i32 / f64).

use super::ast::*;
use rotov_harness::Prng;
use rotov_harness::scalar::{FLOATS, INTS, STy};

#[derive(Clone, Debug)]
pub struct Sig {
    pub name: String,
    pub params: Vec<(String, STy)>,
    pub ret: STy,
    /// recursive function: first parameter is the depth counter
    pub rec: bool,
    /// parameters of enum types (name, enum name); they come first
    pub xparams: Vec<(String, String)>,
}

/// a function that builds a value of an enum type: `mkN(k: u8, p…) -> Enum` returns variant
/// `k` (the last one for a larger `k`), its fields taken from the parameters
#[derive(Clone, Debug)]
pub struct Maker {
    pub name: String,
    pub params: Vec<(String, STy)>,
    pub en: String,
}

#[derive(Clone, Debug)]
struct VarInfo {
    name: String,
    ty: STy,
    assignable: bool,
}

pub struct Gen<'p> {
    p: &'p mut Prng,
    scopes: Vec<Vec<VarInfo>>,
    callable: Vec<Sig>,
    ret_ty: STy,
    loop_depth: u32,
    calls_in_loops: bool,
    fresh: usize,
    budget: i32,
    /// stay inside the common fragment of T5 (`Model/C01Resolve`): types `i32` / `bool`, no `/` `%`
    frag: bool,
    /// the program's enum types (empty: no enum values, no `match`)
    enums: Vec<EnumDef>,
    makers: Vec<Maker>,
    /// visible variables of enum types (name, enum name), one list per entry of `scopes`
    xscopes: Vec<Vec<(String, String)>>,
    /// variables bound by a pattern: the arm's block is their scope, so a `let` in it must not
    /// reuse the name (`item … is declared multiple times`)
    noshadow: Vec<String>,
}

/// the types of the T5 fragment (`i32` twice: most values are integers)
pub const FRAG_TYS: [STy; 3] = [STy::I32, STy::I32, STy::Bool];

pub fn all_tys() -> Vec<STy> {
    let mut v = INTS.to_vec();
    v.extend(FLOATS);
    v.push(STy::Bool);
    v
}

fn numeric_tys() -> Vec<STy> {
    let mut v = INTS.to_vec();
    v.extend(FLOATS);
    v
}

/// Largest literal the parser accepts at this type (non-negative, ≤ i64::MAX).
fn lit_max(t: STy) -> u64 {
    let m = if t.signed() { t.mask() >> 1 } else { t.mask() };
    m.min(i64::MAX as u64)
}

/// Does the expression determine its own type (independently of the context)?
pub fn pins(e: &E) -> bool {
    match e {
        E::Lit { ty, suffixed, .. } => *suffixed || *ty == STy::Bool,
        E::Var(..) | E::Call(..) | E::Not(_) => true,
        E::Neg(x) => pins(x),
        E::Bin(op, l, r) => !op.is_arith() || pins(l) || pins(r),
        E::If(_, t, Some(_)) => t.last.as_ref().map(|x| pins(x)).unwrap_or(false),
        E::Block(b) => b.last.as_ref().map(|x| pins(x)).unwrap_or(false),
        E::Match(_, arms) => arms.first().and_then(|a| a.body.last.as_ref()).map(|x| pins(x)).unwrap_or(false),
        _ => true,
    }
}

impl<'p> Gen<'p> {
    fn any_ty(&mut self) -> STy { if self.frag { *self.p.pick(&FRAG_TYS) } else { *self.p.pick(&all_tys()) } }
    fn int_ty(&mut self) -> STy { if self.frag { STy::I32 } else { *self.p.pick(&INTS) } }

    fn visible(&self) -> Vec<VarInfo> {
        let mut out: Vec<VarInfo> = vec![];
        for sc in self.scopes.iter().rev() {
            for v in sc.iter().rev() {
                if !out.iter().any(|o| o.name == v.name) { out.push(v.clone()); }
            }
        }
        out
    }

    fn push_scope(&mut self) { self.scopes.push(vec![]); self.xscopes.push(vec![]); }
    fn pop_scope(&mut self) { self.scopes.pop(); self.xscopes.pop(); }

    /// visible variables of the enum type `en`
    fn xvisible(&self, en: &str) -> Vec<String> {
        self.xscopes.iter().flatten().filter(|(_, e)| e == en).map(|(x, _)| x.clone()).collect()
    }

    fn declare(&mut self, name: &str, ty: STy, assignable: bool) {
        self.scopes.last_mut().unwrap().push(VarInfo { name: name.into(), ty, assignable });
    }

    fn fresh_name(&mut self, prefix: &str) -> String {
        self.fresh += 1;
        format!("{prefix}{}", self.fresh)
    }

    fn suffix_choice(&mut self, ty: STy, fixed: bool) -> bool {
        if ty == STy::Bool { return false; }
        if fixed || ty == STy::I32 || ty == STy::F64 { self.p.chance(1, 2) } else { true }
    }

    pub fn lit(&mut self, ty: STy, fixed: bool) -> E {
        let bits = match ty {
            STy::Bool => self.p.below(2),
            STy::F32 | STy::F64 => {
                let v: f64 = if self.p.chance(1, 2) {
                    self.p.below(17) as f64 * 0.25
                } else {
                    *self.p.pick(&[0.0, 1.0, 0.5, 2.0, 3.0, 0.1, 16777216.0, 1e-45, 3.4028234663852886e38, 100.0, 7.0, 1e10])
                };
                if ty == STy::F32 { (v as f32).to_bits() as u64 } else { v.to_bits() }
            }
            _ => {
                if self.p.chance(3, 5) {
                    self.p.below(13).min(lit_max(ty))
                } else {
                    let cands: Vec<u64> = ty.boundary().into_iter().filter(|b| *b <= lit_max(ty)).collect();
                    *self.p.pick(&cands)
                }
            }
        };
        let suffixed = self.suffix_choice(ty, fixed);
        E::Lit { ty, bits, suffixed }
    }

    fn nonzero_lit(&mut self, ty: STy, fixed: bool) -> E {
        loop {
            let e = self.lit(ty, fixed);
            if let E::Lit { bits, ty, .. } = &e {
                let zero = match ty {
                    STy::F32 => f32::from_bits(*bits as u32) == 0.0,
                    STy::F64 => f64::from_bits(*bits) == 0.0,
                    _ => *bits == 0,
                };
                if zero { continue; }
            }
            if (ty.signed() || ty.is_float()) && self.p.chance(1, 4) {
                return E::Neg(Box::new(e));
            }
            return e;
        }
    }

    fn leaf(&mut self, ty: STy, fixed: bool) -> E {
        let vars: Vec<VarInfo> = self.visible().into_iter().filter(|v| v.ty == ty).collect();
        if !vars.is_empty() && self.p.chance(13, 20) {
            let v = self.p.pick(&vars).clone();
            return E::Var(v.name, v.ty);
        }
        let l = self.lit(ty, fixed);
        if (ty.signed() || ty.is_float()) && self.p.chance(1, 4) {
            return E::Neg(Box::new(l));
        }
        l
    }

    fn can_call(&self) -> bool {
        !self.callable.is_empty() && (self.loop_depth == 0 || self.calls_in_loops)
    }

    fn call(&mut self, sig: &Sig, depth: u32) -> E {
        let mut args = vec![];
        for (_, en) in &sig.xparams {
            let def = self.enums.iter().find(|d| &d.name == en).expect("enum").clone();
            args.push(self.enum_expr(&def, depth.min(2)));
        }
        for (i, (_, t)) in sig.params.iter().enumerate() {
            if sig.rec && i == 0 {
                // depth counter: a small literal, or a visible unsigned variable reduced mod 21
                let uvars: Vec<VarInfo> = self.visible().into_iter().filter(|v| v.ty == *t && !t.signed()).collect();
                if !uvars.is_empty() && self.p.chance(1, 3) {
                    let v = self.p.pick(&uvars).clone();
                    let m = E::Lit { ty: *t, bits: 21, suffixed: self.p.chance(1, 2) };
                    args.push(E::Bin(Op::Mod, Box::new(E::Var(v.name, v.ty)), Box::new(m)));
                } else {
                    let bits = self.p.below(21);
                    let suffixed = self.p.chance(1, 2);
                    args.push(E::Lit { ty: *t, bits, suffixed });
                }
            } else {
                args.push(self.expr(*t, depth.min(2), true));
            }
        }
        E::Call(sig.name.clone(), args, sig.ret)
    }

    pub fn expr(&mut self, ty: STy, depth: u32, fixed: bool) -> E {
        self.budget -= 1;
        if depth == 0 || self.budget <= 0 || self.p.chance(1, 6) {
            return self.leaf(ty, fixed);
        }
        let d = depth - 1;
        if self.p.chance(1, 12) {
            if let Some(e) = self.order_probe(ty, d) { return e; }
        }
        if !self.enums.is_empty() && self.p.chance(1, 6) {
            return self.match_expr(Some(ty), d, fixed);
        }
        let roll = self.p.below(100);
        if ty == STy::Bool {
            return match roll {
                0..=39 => {
                    // comparison at a random operand type (biased to types that have variables)
                    let vis = self.visible();
                    let t = if !vis.is_empty() && self.p.chance(3, 5) { self.p.pick(&vis).ty } else { self.any_ty() };
                    let ops: &[Op] = if t == STy::Bool { &[Op::Eq, Op::Ne] } else { &CMP };
                    let op = *self.p.pick(ops);
                    let l = self.expr(t, d, false);
                    let r = self.expr(t, d, pins(&l));
                    E::Bin(op, Box::new(l), Box::new(r))
                }
                40..=59 => {
                    let op = if self.p.chance(1, 2) { Op::And } else { Op::Or };
                    let l = self.expr(STy::Bool, d, true);
                    let r = self.expr(STy::Bool, d, true);
                    E::Bin(op, Box::new(l), Box::new(r))
                }
                60..=69 => E::Not(Box::new(self.expr(STy::Bool, d, true))),
                70..=79 => self.if_value(ty, d, fixed),
                80..=84 => E::Block(self.vblock(ty, d, fixed)),
                85..=94 if self.can_call() => self.call_of(ty, d, fixed),
                _ => self.leaf(ty, fixed),
            };
        }
        match roll {
            0..=44 => {
                let ops: &[Op] = if self.frag { &ARITH[..3] } else if ty.is_float() { &ARITH[..4] } else { &ARITH };
                let op = *self.p.pick(ops);
                let l = self.expr(ty, d, fixed);
                let rf = fixed || pins(&l);
                let r = if matches!(op, Op::Div | Op::Mod) && self.p.chance(3, 5) {
                    self.nonzero_lit(ty, rf)
                } else {
                    self.expr(ty, d, rf)
                };
                E::Bin(op, Box::new(l), Box::new(r))
            }
            45..=52 if ty.signed() || ty.is_float() => E::Neg(Box::new(self.expr(ty, d, fixed))),
            53..=67 => self.if_value(ty, d, fixed),
            68..=75 => E::Block(self.vblock(ty, d, fixed)),
            76..=89 if self.can_call() => self.call_of(ty, d, fixed),
            _ => self.leaf(ty, fixed),
        }
    }

    /// `v op { v = e; e' }`: the left operand is a plain variable that the right
    /// operand overwrites before producing its value, so the result depends on
    /// the left operand being read first (evaluation order of operands).
    fn order_probe(&mut self, ty: STy, d: u32) -> Option<E> {
        let vars: Vec<VarInfo> = self.visible().into_iter()
            .filter(|v| v.assignable && (v.ty.is_int() || v.ty.is_float()) && (ty == STy::Bool || v.ty == ty))
            .collect();
        if vars.is_empty() { return None; }
        let v = self.p.pick(&vars).clone();
        let op = if ty == STy::Bool { *self.p.pick(&CMP) } else { *self.p.pick(&ARITH[..3]) };
        self.push_scope();
        let newv = self.expr(v.ty, d.min(1), true);
        let last = self.expr(v.ty, d.min(1), true);
        self.pop_scope();
        let blk = Blk { stmts: vec![S::Do(E::Set(v.name.clone(), Box::new(newv)))], last: Some(Box::new(last)) };
        Some(E::Bin(op, Box::new(E::Var(v.name, v.ty)), Box::new(E::Block(blk))))
    }

    /// an expression of the enum type `def`: a visible variable, `if`/`else`, a call of the
    /// maker, a `match` that yields the enum, or a constructor
    pub fn enum_expr(&mut self, def: &EnumDef, depth: u32) -> E {
        self.budget -= 1;
        let roll = self.p.below(100);
        let vars = self.xvisible(&def.name);
        if !vars.is_empty() && roll < 40 {
            return E::XVar(self.p.pick(&vars).clone(), def.name.clone());
        }
        if depth > 0 && self.budget > 0 && (40..52).contains(&roll) {
            let c = self.expr(STy::Bool, depth - 1, true);
            let a = self.enum_expr(def, depth - 1);
            let b = self.enum_expr(def, depth - 1);
            return E::If(Box::new(c), Blk { stmts: vec![], last: Some(Box::new(a)) }, Some(Blk { stmts: vec![], last: Some(Box::new(b)) }));
        }
        if depth > 0 && self.budget > 0 && (52..58).contains(&roll) {
            return self.match_expr_of(None, Some(def), depth - 1, true);
        }
        if let Some(mk) = self.makers.iter().find(|m| m.en == def.name).cloned() {
            if (58..80).contains(&roll) {
                let n = def.variants.len() as u64;
                let k = if self.p.chance(1, 2) {
                    E::Lit { ty: STy::U8, bits: self.p.below(n + 1), suffixed: self.p.chance(1, 2) }
                } else {
                    let x = self.expr(STy::U8, depth.min(1), true);
                    E::Bin(Op::Mod, Box::new(x), Box::new(E::Lit { ty: STy::U8, bits: n, suffixed: self.p.chance(1, 2) }))
                };
                let mut args = vec![k];
                for (_, t) in mk.params.iter().skip(1) { args.push(self.expr(*t, depth.min(1), true)); }
                return E::XCall(mk.name.clone(), args, def.name.clone());
            }
        }
        let k = self.p.below(def.variants.len() as u64) as usize;
        let (vname, fields) = def.variants[k].clone();
        let args = fields.iter().map(|t| self.expr(*t, depth.min(1), true)).collect();
        E::Ctor(def.name.clone(), vname, args)
    }

    /// `match` on a value of a random enum type, every arm of type `ty` (`None`: unit)
    fn match_expr(&mut self, ty: Option<STy>, depth: u32, fixed: bool) -> E {
        self.match_expr_of(ty, None, depth, fixed)
    }

    /// the arms of a well-typed `match`: patterns in a random order, a variant may come again
    /// after a guarded arm of its own, nothing follows an unguarded `_`, and either every
    /// variant has an unguarded arm or an unguarded `_` closes the list. The arms' blocks have
    /// type `ty`, or the enum type `xty` when that is given.
    fn match_expr_of(&mut self, ty: Option<STy>, xty: Option<&EnumDef>, depth: u32, fixed: bool) -> E {
        let def = self.p.pick(&self.enums.clone()).clone();
        let scrut = self.enum_expr(&def, depth.min(2));
        let n = def.variants.len();
        let mut closed = vec![false; n];
        let mut pats: Vec<(Option<usize>, bool)> = vec![]; // (variant or `_`, guarded)
        // the shape: now and then exactly one variant (any position) + `_`, or all variants
        match self.p.below(5) {
            0 => { let k = self.p.below(n as u64) as usize; pats.push((Some(k), false)); pats.push((None, false)); }
            1 => {
                let mut order: Vec<usize> = (0..n).collect();
                for i in (1..n).rev() { let j = self.p.below(i as u64 + 1) as usize; order.swap(i, j); }
                for k in order { pats.push((Some(k), false)); }
            }
            _ => loop {
                if closed.iter().all(|c| *c) { break; }
                if pats.len() >= 6 { pats.push((None, false)); break; }
                let guarded = self.p.chance(3, 10);
                if self.p.chance(1, 5) {
                    pats.push((None, guarded));
                    if !guarded { break; }
                } else {
                    let open: Vec<usize> = (0..n).filter(|k| !closed[*k]).collect();
                    let k = *self.p.pick(&open);
                    pats.push((Some(k), guarded));
                    if !guarded { closed[k] = true; }
                }
            },
        }
        let mut arms = vec![];
        let mut pinned = fixed;
        for (pat, guarded) in pats {
            self.push_scope();
            let mut binds = vec![];
            if let Some(k) = pat {
                for t in &def.variants[k].1 {
                    // not `f`: `f32` / `f64` would shadow the type names
                    let x = self.fresh_name("q");
                    self.declare(&x, *t, true);
                    self.noshadow.push(x.clone());
                    binds.push((x, *t));
                }
            }
            let guard = if guarded {
                // biased to a test of a field of the matched value
                let num: Vec<&(String, STy)> = binds.iter().filter(|(_, t)| t.is_int() || t.is_float()).collect();
                if !num.is_empty() && self.p.chance(2, 3) {
                    let (x, t) = (*self.p.pick(&num)).clone();
                    let rhs = self.lit(t, true);
                    Some(E::Bin(*self.p.pick(&CMP), Box::new(E::Var(x, t)), Box::new(rhs)))
                } else {
                    Some(self.expr(STy::Bool, depth.min(1), true))
                }
            } else { None };
            let body = match (xty, ty) {
                (Some(d), _) => {
                    let e = self.enum_expr(d, depth.min(1));
                    Blk { stmts: vec![], last: Some(Box::new(e)) }
                }
                (None, Some(t)) => {
                    let b = self.vblock(t, depth, pinned);
                    pinned = pinned || b.last.as_ref().map(|x| pins(x)).unwrap_or(false);
                    b
                }
                (None, None) => self.ublock(depth, 0, 2),
            };
            self.pop_scope();
            arms.push(Arm { pat: pat.map(|k| def.variants[k].0.clone()), binds, guard, body });
        }
        E::Match(Box::new(scrut), arms)
    }

    fn letx_stmt(&mut self, depth: u32) -> Vec<S> {
        let def = self.p.pick(&self.enums.clone()).clone();
        let init = self.enum_expr(&def, depth);
        let name = self.fresh_name("e");
        let ann = self.p.chance(3, 10);
        self.xscopes.last_mut().unwrap().push((name.clone(), def.name.clone()));
        vec![S::LetX(name, def.name.clone(), ann, init)]
    }

    fn call_of(&mut self, ty: STy, d: u32, fixed: bool) -> E {
        let sigs: Vec<Sig> = self.callable.iter().filter(|s| s.ret == ty).cloned().collect();
        if sigs.is_empty() { return self.leaf(ty, fixed); }
        let s = self.p.pick(&sigs).clone();
        self.call(&s, d)
    }

    fn if_value(&mut self, ty: STy, d: u32, fixed: bool) -> E {
        let c = self.expr(STy::Bool, d, true);
        let t = self.vblock(ty, d, fixed);
        let ef = fixed || t.last.as_ref().map(|x| pins(x)).unwrap_or(false);
        let e = self.vblock(ty, d, ef);
        E::If(Box::new(c), t, Some(e))
    }

    /// a block that ends in a value of type `ty`
    pub fn vblock(&mut self, ty: STy, depth: u32, fixed: bool) -> Blk {
        self.push_scope();
        let mut stmts = vec![];
        if depth >= 1 {
            for _ in 0..self.p.below(3) { stmts.extend(self.stmt(depth - 1)); }
        }
        let last = self.expr(ty, depth, fixed);
        self.pop_scope();
        Blk { stmts, last: Some(Box::new(last)) }
    }

    /// a block of statements only (type unit)
    fn ublock(&mut self, depth: u32, min: u64, max: u64) -> Blk {
        self.push_scope();
        let mut stmts = vec![];
        for _ in 0..(min + self.p.below(max - min + 1)) { stmts.extend(self.stmt(depth)); }
        self.pop_scope();
        Blk { stmts, last: None }
    }

    fn let_stmt(&mut self, depth: u32) -> Vec<S> {
        let ty = self.any_ty();
        // shadow an outer (assignable) name now and then — only possible in a nested scope
        let cur: Vec<String> = self.scopes.last().unwrap().iter().map(|v| v.name.clone()).collect();
        let outer: Vec<VarInfo> = self.visible().into_iter().filter(|v| v.assignable && !cur.contains(&v.name) && !self.noshadow.contains(&v.name)).collect();
        let name = if self.scopes.len() > 1 && !outer.is_empty() && self.p.chance(1, 4) {
            self.p.pick(&outer).name.clone()
        } else {
            self.fresh_name("v")
        };
        let ann = self.p.chance(3, 10);
        let init = self.expr(ty, depth, ann);
        self.declare(&name, ty, true);
        vec![S::Let(name, ty, ann, init)]
    }

    fn assign_stmt(&mut self, depth: u32) -> Vec<S> {
        let vars: Vec<VarInfo> = self.visible().into_iter().filter(|v| v.assignable).collect();
        if vars.is_empty() { return self.let_stmt(depth); }
        let v = self.p.pick(&vars).clone();
        if (v.ty.is_int() || v.ty.is_float()) && self.p.chance(3, 5) {
            let ops: &[Op] = if self.frag { &ARITH[..3] } else if v.ty.is_float() { &ARITH[..4] } else { &ARITH };
            let op = *self.p.pick(ops);
            let rhs = if matches!(op, Op::Div | Op::Mod) && self.p.chance(7, 10) {
                self.nonzero_lit(v.ty, true)
            } else {
                self.expr(v.ty, depth, true)
            };
            vec![S::Do(E::CSet(op, v.name, Box::new(rhs)))]
        } else {
            let rhs = self.expr(v.ty, depth, true);
            vec![S::Do(E::Set(v.name, Box::new(rhs)))]
        }
    }

    fn while_stmt(&mut self, depth: u32) -> Vec<S> {
        let k = self.fresh_name("k");
        let cty = self.int_ty();
        let trips = if self.p.chance(3, 20) { 0 } else { self.p.below(9) };
        let up = self.p.chance(2, 3);
        let ann = self.p.chance(1, 2);
        let start = if up { 0 } else { trips };
        let init = E::Lit { ty: cty, bits: start, suffixed: if ann || cty == STy::I32 { self.p.chance(1, 2) } else { true } };
        let decl = S::Let(k.clone(), cty, ann, init);
        self.declare(&k, cty, false);
        let kv = || E::Var(k.clone(), cty);
        let one = E::Lit { ty: cty, bits: 1, suffixed: self.p.chance(1, 2) };
        let bound = E::Lit { ty: cty, bits: if up { trips } else { 0 }, suffixed: self.p.chance(1, 2) };
        let mut cond = if up {
            if self.p.chance(1, 2) { E::Bin(Op::Lt, Box::new(kv()), Box::new(bound)) }
            else { E::Bin(Op::Gt, Box::new(bound), Box::new(kv())) }
        } else if self.p.chance(1, 2) {
            E::Bin(Op::Gt, Box::new(kv()), Box::new(bound))
        } else {
            E::Bin(Op::Ne, Box::new(kv()), Box::new(bound))
        };
        if self.p.chance(1, 4) {
            let extra = self.expr(STy::Bool, 1, true);
            cond = E::Bin(Op::And, Box::new(cond), Box::new(extra));
        }
        let step_op = if up { Op::Add } else { Op::Sub };
        let step = if self.p.chance(1, 2) {
            S::Do(E::CSet(step_op, k.clone(), Box::new(one)))
        } else {
            S::Do(E::Set(k.clone(), Box::new(E::Bin(step_op, Box::new(kv()), Box::new(one)))))
        };
        self.loop_depth += 1;
        let mut body = self.ublock(depth, 0, 2);
        self.loop_depth -= 1;
        if up { body.stmts.push(step); } else { body.stmts.insert(0, step); }
        vec![decl, S::Do(E::While(Box::new(cond), body))]
    }

    pub fn stmt(&mut self, depth: u32) -> Vec<S> {
        self.budget -= 1;
        if !self.enums.is_empty() && self.p.chance(1, 4) {
            return match self.p.below(4) {
                0 | 1 => self.letx_stmt(depth.min(2)),
                2 if depth >= 1 => vec![S::Do(self.match_expr(None, depth - 1, true))],
                _ => {
                    // assignment to a variable of an enum type
                    let all: Vec<(String, String)> = self.xscopes.iter().flatten().cloned().collect();
                    if all.is_empty() { return self.letx_stmt(depth.min(2)); }
                    let (x, en) = self.p.pick(&all).clone();
                    let def = self.enums.iter().find(|d| d.name == en).expect("enum").clone();
                    let rhs = self.enum_expr(&def, depth.min(2));
                    vec![S::Do(E::Set(x, Box::new(rhs)))]
                }
            };
        }
        let roll = self.p.below(100);
        match roll {
            0..=34 => self.let_stmt(depth),
            35..=54 => self.assign_stmt(depth),
            55..=69 if depth >= 1 => {
                let c = self.expr(STy::Bool, depth.min(2), true);
                let t = self.ublock(depth - 1, 1, 2);
                let e = if self.p.chance(1, 2) { Some(self.ublock(depth - 1, 1, 2)) } else { None };
                vec![S::Do(E::If(Box::new(c), t, e))]
            }
            70..=81 if depth >= 1 && self.loop_depth < 2 && self.budget > 0 => self.while_stmt(depth - 1),
            82..=91 => {
                let ret_ty = self.ret_ty;
                if self.p.chance(7, 10) {
                    let c = self.expr(STy::Bool, depth.min(2), true);
                    self.push_scope();
                    let v = self.expr(ret_ty, depth.min(2), true);
                    self.pop_scope();
                    vec![S::Do(E::If(Box::new(c), Blk { stmts: vec![S::Do(E::Ret(Box::new(v)))], last: None }, None))]
                } else {
                    // a bare `return`: whatever follows in this block is dead code
                    let v = self.expr(ret_ty, depth.min(2), true);
                    vec![S::Do(E::Ret(Box::new(v)))]
                }
            }
            92..=96 if self.can_call() => {
                let s = self.p.pick(&self.callable.clone()).clone();
                vec![S::Do(self.call(&s, depth))]
            }
            _ => self.let_stmt(depth),
        }
    }
}

fn body_of(g: &mut Gen, ret: STy, depth: u32, max_stmts: u64) -> Blk {
    let mut stmts = vec![];
    for _ in 0..g.p.below(max_stmts + 1) { stmts.extend(g.stmt(depth)); }
    let last = g.expr(ret, depth, true);
    Blk { stmts, last: Some(Box::new(last)) }
}

pub struct Generated {
    pub prog: Prog,
    pub arg_ty: STy,
    pub arity: usize,
    pub ret: STy,
}

#[allow(dead_code)]
pub fn gen_program(p: &mut Prng) -> Generated { gen_program_in(p, false, false) }

pub const VARIANT_NAMES: [&str; 5] = ["Dot", "Line", "Square", "Cube", "Tess"];

/// One or two enum types with 2..=5 variants of 0..=2 scalar fields, and for each (mostly) a
/// maker function `mkN(k: u8, p…) -> Enum`.
fn gen_enums(p: &mut Prng) -> (Vec<EnumDef>, Vec<Maker>, Vec<Func>) {
    let tys = all_tys();
    let mut enums = vec![];
    let mut makers = vec![];
    let mut fns = vec![];
    for i in 0..(1 + p.below(2)) {
        let n = 2 + p.below(4) as usize;
        let prefix = ["A", "B"][i as usize];
        let variants: Vec<(String, Vec<STy>)> = (0..n)
            .map(|k| (format!("{prefix}{}", VARIANT_NAMES[k]), (0..p.below(3)).map(|_| *p.pick(&tys)).collect()))
            .collect();
        let def = EnumDef { name: format!("En{prefix}"), variants };
        if p.chance(3, 4) {
            // one parameter per field type that occurs (at most three), the rest are literals
            let mut ptys: Vec<STy> = vec![];
            for (_, fs) in &def.variants { for t in fs { if !ptys.contains(t) && ptys.len() < 3 { ptys.push(*t); } } }
            let mut params = vec![("k".to_string(), STy::U8)];
            params.extend(ptys.iter().enumerate().map(|(j, t)| (format!("p{j}"), *t)));
            let ctor = |k: usize| {
                let args = def.variants[k].1.iter().map(|t| match ptys.iter().position(|u| u == t) {
                    Some(j) => E::Var(format!("p{j}"), *t),
                    None => E::Lit { ty: *t, bits: if *t == STy::Bool { 1 } else if t.is_float() { 0 } else { 3 }, suffixed: true },
                }).collect();
                E::Ctor(def.name.clone(), def.variants[k].0.clone(), args)
            };
            let mut e = ctor(n - 1);
            for k in (0..n - 1).rev() {
                let c = E::Bin(Op::Eq, Box::new(E::Var("k".into(), STy::U8)), Box::new(E::Lit { ty: STy::U8, bits: k as u64, suffixed: false }));
                e = E::If(Box::new(c), Blk { stmts: vec![], last: Some(Box::new(ctor(k))) }, Some(Blk { stmts: vec![], last: Some(Box::new(e)) }));
            }
            let name = format!("mk{i}");
            fns.push(Func { name: name.clone(), xparams: vec![], params: params.clone(), ret: STy::Bool, xret: Some(def.name.clone()),
                            body: Blk { stmts: vec![], last: Some(Box::new(e)) } });
            makers.push(Maker { name, params, en: def.name.clone() });
        }
        enums.push(def);
    }
    (enums, makers, fns)
}

/// `frag`: a program of the common fragment of T5 (types `i32` / `bool`, no `/` `%`);
/// `with_enums`: the program declares enum types and matches on their values
pub fn gen_program_in(p: &mut Prng, frag: bool, with_enums: bool) -> Generated {
    let tys = if frag { FRAG_TYS.to_vec() } else { all_tys() };
    let (enums, makers, maker_fns) = if with_enums && !frag { gen_enums(p) } else { (vec![], vec![], vec![]) };
    let arg_ty = *p.pick(&tys);
    let arity = 1 + p.below(3) as usize;
    let ret = *p.pick(&tys);
    let nh = p.below(4) as usize;
    let mut helpers: Vec<Sig> = vec![];
    for i in 0..nh {
        let np = 1 + p.below(3) as usize;
        let params = (0..np).map(|j| (format!("p{j}"), *p.pick(&tys))).collect();
        // a helper may take a value of an enum type
        let xparams = if !enums.is_empty() && p.chance(1, 2) { vec![("s".to_string(), p.pick(&enums).name.clone())] } else { vec![] };
        helpers.push(Sig { name: format!("h{i}"), params, ret: *p.pick(&tys), rec: false, xparams });
    }
    let mut recs: Vec<Sig> = vec![];
    if p.chance(2, 5) {
        let n = if p.chance(1, 2) { 1 } else { 2 };
        let nt = if frag { STy::I32 } else { *p.pick(&INTS) };
        let t = *p.pick(&tys);
        for i in 0..n {
            let mut params = vec![("n".to_string(), nt), ("acc".to_string(), t)];
            if p.chance(1, 3) { params.push(("x".to_string(), *p.pick(&tys))); }
            recs.push(Sig { name: format!("r{i}"), params, ret: t, rec: true, xparams: vec![] });
        }
    }
    let mut fns: Vec<Func> = maker_fns;
    // helpers: hi may call hj for j > i, outside loops only
    for i in 0..nh {
        let sig = helpers[i].clone();
        let mut g = Gen {
            p, scopes: vec![sig.params.iter().map(|(x, t)| VarInfo { name: x.clone(), ty: *t, assignable: true }).collect()],
            callable: helpers[i + 1..].to_vec(), ret_ty: sig.ret, loop_depth: 0, calls_in_loops: false,
            fresh: 100 * (i + 1), budget: 40, frag,
            enums: enums.clone(), makers: makers.clone(), xscopes: vec![sig.xparams.clone()], noshadow: vec![],
        };
        let depth = 1 + g.p.below(3) as u32;
        let body = body_of(&mut g, sig.ret, depth, 3);
        fns.push(Func { name: sig.name, xparams: sig.xparams, params: sig.params, ret: sig.ret, xret: None, body });
    }
    // recursive group: one recursive call per activation, depth counter first
    for i in 0..recs.len() {
        let sig = recs[i].clone();
        let callee = recs[(i + 1) % recs.len()].clone();
        let nt = sig.params[0].1;
        let t = sig.ret;
        let mut g = Gen {
            p, scopes: vec![sig.params.iter().enumerate().map(|(j, (x, t))| VarInfo { name: x.clone(), ty: *t, assignable: j > 0 }).collect()],
            callable: helpers.clone(), ret_ty: t, loop_depth: 0, calls_in_loops: false,
            fresh: 500 + 100 * i, budget: 30, frag,
            enums: enums.clone(), makers: makers.clone(), xscopes: vec![vec![]], noshadow: vec![],
        };
        let nvar = || E::Var("n".into(), nt);
        let zero = E::Lit { ty: nt, bits: 0, suffixed: g.p.chance(1, 2) };
        let base = g.expr(t, 2, true);
        let mut stmts = vec![S::Do(E::If(
            Box::new(E::Bin(Op::Eq, Box::new(nvar()), Box::new(zero))),
            Blk { stmts: vec![S::Do(E::Ret(Box::new(base)))], last: None },
            None,
        ))];
        for _ in 0..g.p.below(3) { stmts.extend(g.stmt(1)); }
        let one = E::Lit { ty: nt, bits: 1, suffixed: g.p.chance(1, 2) };
        let mut args = vec![E::Bin(Op::Sub, Box::new(nvar()), Box::new(one))];
        for (_, pt) in callee.params.iter().skip(1) { args.push(g.expr(*pt, 2, true)); }
        let rc = E::Call(callee.name.clone(), args, t);
        let last = match g.p.below(3) {
            0 => rc,
            1 if t != STy::Bool => {
                let op = *g.p.pick(&[Op::Add, Op::Sub, Op::Mul]);
                if g.p.chance(1, 2) { E::Bin(op, Box::new(E::Var("acc".into(), t)), Box::new(rc)) }
                else { E::Bin(op, Box::new(rc), Box::new(E::Var("acc".into(), t))) }
            }
            _ => {
                let tn = g.fresh_name("t");
                stmts.push(S::Let(tn.clone(), t, false, rc));
                g.declare(&tn, t, true);
                g.expr(t, 2, true)
            }
        };
        fns.push(Func { name: sig.name, xparams: vec![], params: sig.params, ret: t, xret: None, body: Blk { stmts, last: Some(Box::new(last)) } });
    }
    // main
    let params: Vec<(String, STy)> = ["a", "b", "c"][..arity].iter().map(|x| (x.to_string(), arg_ty)).collect();
    let mut callable = helpers.clone();
    callable.extend(recs.clone());
    let mut g = Gen {
        p, scopes: vec![params.iter().map(|(x, t)| VarInfo { name: x.clone(), ty: *t, assignable: true }).collect()],
        callable, ret_ty: ret, loop_depth: 0, calls_in_loops: true, fresh: 0, budget: 70, frag,
        enums: enums.clone(), makers, xscopes: vec![vec![]], noshadow: vec![],
    };
    let depth = 2 + g.p.below(3) as u32;
    let body = body_of(&mut g, ret, depth, 4);
    fns.push(Func { name: "main".into(), xparams: vec![], params, ret, xret: None, body });
    let _ = numeric_tys;
    Generated { prog: Prog { enums, fns }, arg_ty, arity, ret }
}

/// ~30 argument tuples: boundary values, random values, small values.
pub fn gen_args(p: &mut Prng, ty: STy, arity: usize, n_each: usize) -> Vec<Vec<u64>> {
    let bd = ty.boundary();
    let mut out = vec![];
    for _ in 0..n_each { out.push((0..arity).map(|_| *p.pick(&bd)).collect()); }
    for _ in 0..n_each { out.push((0..arity).map(|_| ty.random(p)).collect()); }
    for _ in 0..n_each {
        out.push((0..arity).map(|_| match ty {
            STy::Bool => p.below(2),
            STy::F32 | STy::F64 => *p.pick(&bd[..7]),
            _ => if ty.signed() && p.chance(1, 4) { (p.below(6) as i64).wrapping_neg() as u64 & ty.mask() } else { p.below(7) },
        }).collect());
    }
    out
}
