//! LIR layer of C01: the Lean model of the LIR lowering of scalar MIR (`RotoV.C01Lir.lowerProg`,
//! `c01 lir` in the driver) against the real lowerer. The hook `verif_hooks::c01::stage_pairs` gives
//! every function of a program as the MIR the pipeline hands to `lir::lower` and as the LIR that
//! comes out, in one vocabulary; the model is run on that MIR and its LIR is compared with the real
//! LIR block by block, instruction by instruction, and the temporaries it allocates (with their
//! types) with the real variable table.

use roto::FileTree;
use rotov_harness::Report;
use rotov_harness::driver::{Driver, hex};
use serde_json::{Value, json};
use std::panic::{AssertUnwindSafe, catch_unwind};

fn short(name: &str) -> &str { name.rsplit('.').next().unwrap_or(name) }

/// Returns the number of functions whose model LIR equals the real LIR.
/// With `run` (argument type name, argument tuples, the spec's answers): the semantics of
/// `Props/C01Lir` — `mRun` on the real MIR of the program, `lRun` on the LIR the model makes of it —
/// must give the spec's value on every tuple where the spec yields one.
pub fn compare_lir(rep: &mut Report, drv: &mut Driver, src: &str, ident: &Value, run: Option<(&str, &[Vec<u64>], &[String])>) -> u64 {
    let rt: &'static roto::Runtime<roto::NoCtx> = Box::leak(Box::new(roto::Runtime::new()));
    let pairs = match catch_unwind(AssertUnwindSafe(|| roto::verif_hooks::c01::stage_pairs(FileTree::test_file("c01.roto", src, 0), rt))) {
        Ok(Ok(p)) => p,
        Ok(Err(e)) => {
            rep.mismatch("stage-pair hook failed on a generated program", json!({"case": ident, "error": format!("{e}").chars().take(600).collect::<String>()}));
            return 0;
        }
        Err(_) => return 0, // the compiler panicked: reported by the behavioural part
    };
    let mut text = String::new();
    for p in &pairs {
        text.push_str(&format!("fn {} {} {}\n", short(&p.name), p.mir_tmp_idx, if p.lir_returns_value { 1 } else { 0 }));
        text.push_str(&format!("params {}\n", p.mir_params.join(" ")));
        // the variable table of the MIR function: the LIR variables that are not temporaries the lowerer allocated
        let tys: Vec<String> = p.lir_vars.iter()
            .filter(|(v, t)| t != "slot" && !(v.starts_with('t') && v[1..].parse::<usize>().map(|i| i >= p.mir_tmp_idx).unwrap_or(false)))
            .map(|(v, t)| format!("{v}:{t}")).collect();
        text.push_str(&format!("types {}\n", tys.join(" ")));
        for (l, ins) in &p.mir {
            text.push_str(&format!("block {l}\n"));
            for i in ins { text.push_str(i); text.push('\n'); }
        }
        text.push_str("end\n");
    }
    if let Some((ty, args, spec)) = run {
        let tuples: Vec<String> = args.iter().map(|t| t.iter().map(|b| format!("{ty}:{b}")).collect::<Vec<_>>().join(" ")).collect();
        let ans = drv.ask(&format!("c01 lirrun {} {}", hex(&text), tuples.join(" | ")));
        let parts: Vec<&str> = ans.split(" | ").collect();
        if parts.len() == args.len() {
            for ((a, s), m) in args.iter().zip(spec).zip(&parts) {
                let w: Vec<&str> = s.split(' ').collect();
                if w.len() != 3 || w[0] != "ok" { continue; }
                let want = format!("ok_{}_{}", w[1], w[2]);
                let got: Vec<&str> = m.split(' ').collect();
                let ok = got.len() == 3 && got[0] == format!("m={want}") && got[1] == format!("l={want}") && got[2] == format!("c={want}");
                rep.evaluations += 1;
                if ok {
                    rep.hist("lir-semantics-on-real-mir", "mRun = lRun = cRun (emitted code of the cg model) = spec value");
                } else {
                    rep.mismatch(
                        "LIR / code-generation layer: the MIR / LIR semantics of Props/C01Lir and the emitted-code semantics of Props/C01Cg, run on the real MIR of the program (on the LIR the model makes of it, on the code the cg model emits for that), do not give the value of the Lean Spec",
                        json!({"case": ident, "args": a, "spec": s, "stages": m}),
                    );
                    rep.hist("lir-semantics-on-real-mir", "DIFFERENT");
                    break;
                }
            }
        } else if ans.trim() != "outside" {
            rep.mismatch("answer of `c01 lirrun` not understood", json!({"case": ident, "answer": ans.chars().take(300).collect::<String>()}));
        }
    }
    let ans = drv.ask(&format!("c01 lir {}", hex(&text)));
    let per_fn: Vec<&str> = ans.split(" || ").collect();
    if per_fn.len() != pairs.len() {
        rep.mismatch("answer of `c01 lir` not understood", json!({"case": ident, "answer": ans.chars().take(400).collect::<String>()}));
        return 0;
    }
    let mut same = 0;
    for (p, a) in pairs.iter().zip(&per_fn) {
        if a.starts_with("outside") {
            rep.mismatch("LIR layer: the lowering model is undefined on a function of a program of the scalar fragment",
                json!({"case": ident, "function": p.name, "mir": p.mir}));
            rep.hist("lir-model-vs-real", "outside the model");
            continue;
        }
        // real LIR in the model's answer format
        let mut real: Vec<String> = vec![];
        for (l, ins) in &p.lir {
            real.push(format!("block {l}"));
            for i in ins {
                // `call to ctx ret pkg.f args…`: functions by their short name
                let w: Vec<&str> = i.split(' ').collect();
                if w[0] == "call" && w.len() >= 5 {
                    let mut w2: Vec<String> = w.iter().map(|s| s.to_string()).collect();
                    w2[4] = short(w[4]).to_string();
                    real.push(w2.join(" "));
                } else {
                    real.push(i.clone());
                }
            }
        }
        let parts: Vec<&str> = a.split(" ; ").map(|s| s.trim()).collect();
        let model: Vec<String> = parts.iter().skip(3).map(|s| s.to_string()).collect();
        // temporaries the model allocated must be in the real variable table with the same type
        let tmps: Vec<&str> = parts.get(2).map(|s| s.trim_start_matches("tmps").split(' ').filter(|x| !x.is_empty()).collect()).unwrap_or_default();
        let real_vars: Vec<String> = p.lir_vars.iter().map(|(v, t)| format!("{v}:{t}")).collect();
        let real_new: usize = p.lir_vars.iter().filter(|(v, _)| v.starts_with('t') && v[1..].parse::<usize>().map(|i| i >= p.mir_tmp_idx).unwrap_or(false)).count();
        let tmps_ok = tmps.iter().all(|t| real_vars.iter().any(|r| r == t)) && tmps.len() == real_new;
        if model != real || !tmps_ok {
            rep.mismatch(
                "LIR layer: the Lean model of the LIR lowering (C01Lir.lowerFn on the real MIR) and the real LIR of a function differ",
                json!({"case": ident, "function": p.name, "model": model, "real": real, "model_tmps": tmps, "real_vars": real_vars}),
            );
            rep.hist("lir-model-vs-real", "DIFFERENT");
        } else {
            rep.hist("lir-model-vs-real", "same");
            same += 1;
        }
    }
    same
}
