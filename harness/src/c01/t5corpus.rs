//! Class representatives of the T5 tie: one small program per construct of the common fragment
//! of `Spec` and the lowering model (`Model/C01Resolve`), run first on every run, independent of
//! the seed. Variables are named by level (`x0`, `x1`, …: what `ast::rename_levels` produces), so
//! the structured MIR of the model can be compared with the real MIR dump — except in the
//! representatives that shadow a name on purpose (`ir = false`: values only).

use super::ast::*;
use rotov_harness::scalar::STy;

const I: STy = STy::I32;
const B: STy = STy::Bool;

fn n(v: u64) -> E { E::Lit { ty: I, bits: v, suffixed: false } }
fn ns(v: u64) -> E { E::Lit { ty: I, bits: v, suffixed: true } }
fn t() -> E { E::Lit { ty: B, bits: 1, suffixed: false } }
fn f() -> E { E::Lit { ty: B, bits: 0, suffixed: false } }
fn v(x: &str) -> E { E::Var(x.into(), I) }
fn vb(x: &str) -> E { E::Var(x.into(), B) }
fn bin(op: Op, l: E, r: E) -> E { E::Bin(op, Box::new(l), Box::new(r)) }
fn neg(e: E) -> E { E::Neg(Box::new(e)) }
fn not(e: E) -> E { E::Not(Box::new(e)) }
fn blk(stmts: Vec<S>, last: Option<E>) -> Blk { Blk { stmts, last: last.map(Box::new) } }
fn let_(x: &str, ty: STy, e: E) -> S { S::Let(x.into(), ty, false, e) }
fn set(x: &str, e: E) -> E { E::Set(x.into(), Box::new(e)) }
fn cset(op: Op, x: &str, e: E) -> E { E::CSet(op, x.into(), Box::new(e)) }
fn ret(e: E) -> E { E::Ret(Box::new(e)) }
fn ite(c: E, a: Blk, b: Blk) -> E { E::If(Box::new(c), a, Some(b)) }
fn if1(c: E, a: Blk) -> E { E::If(Box::new(c), a, None) }
fn whl(c: E, b: Blk) -> E { E::While(Box::new(c), b) }
fn call(g: &str, args: Vec<E>, ty: STy) -> E { E::Call(g.into(), args, ty) }
fn func(name: &str, params: &[(&str, STy)], ret: STy, body: Blk) -> Func {
    Func { name: name.into(), xparams: vec![], params: params.iter().map(|(x, t)| (x.to_string(), *t)).collect(), ret, xret: None, body }
}
fn main2(ty: STy, ret: STy, body: Blk) -> Func { func("main", &[("x0", ty), ("x1", ty)], ret, body) }

/// (name, program, argument type of main, return type, compare the MIR too)
pub fn corpus() -> Vec<(&'static str, Prog, STy, STy, bool)> {
    let mut out: Vec<(&'static str, Prog, STy, STy, bool)> = vec![];
    let mut add = |name: &'static str, fns: Vec<Func>, ty: STy, ret: STy, ir: bool| out.push((name, Prog { enums: vec![], fns }, ty, ret, ir));

    add("literal-variable-negate", vec![main2(I, I, blk(vec![], Some(bin(Op::Add, neg(v("x0")), bin(Op::Sub, n(3), neg(ns(7)))))))], I, I, true);
    add("add-sub-mul-wrap", vec![main2(I, I, blk(vec![], Some(bin(Op::Sub, bin(Op::Mul, v("x0"), v("x1")), bin(Op::Add, v("x0"), n(2147483647))))))], I, I, true);
    add("comparisons", vec![main2(I, B, blk(vec![], Some(
        bin(Op::Or,
            bin(Op::And, bin(Op::Lt, v("x0"), v("x1")), bin(Op::Le, v("x1"), n(5))),
            bin(Op::And, bin(Op::Gt, v("x0"), n(0)), bin(Op::Or, bin(Op::Ge, v("x1"), v("x0")), bin(Op::Ne, v("x0"), n(1))))))))], I, B, true);
    add("bool-eq-ne-not", vec![main2(B, B, blk(vec![], Some(
        bin(Op::Ne, bin(Op::Eq, vb("x0"), not(vb("x1"))), bin(Op::And, vb("x0"), not(f()))))))], B, B, true);
    add("short-circuit-effect", vec![main2(I, I, blk(
        vec![let_("x2", I, n(0)),
             let_("x3", B, bin(Op::And, bin(Op::Gt, v("x0"), n(0)), E::Block(blk(vec![S::Do(set("x2", n(1)))], Some(t()))))),
             let_("x4", B, bin(Op::Or, bin(Op::Gt, v("x1"), n(0)), E::Block(blk(vec![S::Do(cset(Op::Add, "x2", n(2)))], Some(f())))))],
        Some(v("x2"))))], I, I, true);
    add("if-else-value", vec![main2(I, I, blk(vec![], Some(
        ite(bin(Op::Lt, v("x0"), v("x1")), blk(vec![], Some(bin(Op::Sub, v("x1"), v("x0")))), blk(vec![let_("x2", I, bin(Op::Mul, v("x0"), n(2)))], Some(v("x2")))))))], I, I, true);
    add("if-without-else-early-return", vec![main2(I, I, blk(
        vec![S::Do(if1(bin(Op::Eq, v("x0"), n(0)), blk(vec![S::Do(ret(v("x1")))], None))),
             S::Do(if1(bin(Op::Lt, v("x1"), n(0)), blk(vec![S::Do(set("x0", neg(v("x0"))))], None)))],
        Some(v("x0"))))], I, I, true);
    add("while-compound-assignment", vec![main2(I, I, blk(
        vec![let_("x2", I, n(0)), let_("x3", I, n(1)),
             S::Do(whl(bin(Op::Lt, v("x2"), n(5)), blk(vec![S::Do(cset(Op::Mul, "x3", v("x0"))), S::Do(cset(Op::Sub, "x3", v("x1"))), S::Do(cset(Op::Add, "x2", n(1)))], None)))],
        Some(v("x3"))))], I, I, true);
    add("while-zero-trips-and-return-inside", vec![main2(I, I, blk(
        vec![let_("x2", I, n(3)),
             S::Do(whl(f(), blk(vec![S::Do(set("x2", n(9)))], None))),
             S::Do(whl(bin(Op::Gt, v("x2"), n(0)), blk(vec![S::Do(if1(bin(Op::Eq, v("x2"), v("x0")), blk(vec![S::Do(ret(bin(Op::Mul, v("x2"), n(100))))], None))), S::Do(cset(Op::Sub, "x2", n(1)))], None)))],
        Some(v("x1"))))], I, I, true);
    add("operand-order", vec![main2(I, I, blk(vec![], Some(
        bin(Op::Sub, v("x0"), E::Block(blk(vec![S::Do(set("x0", n(5)))], Some(bin(Op::Mul, v("x0"), v("x1")))))))))], I, I, true);
    add("block-scopes", vec![main2(I, I, blk(
        vec![let_("x2", I, E::Block(blk(vec![let_("x2", I, bin(Op::Add, v("x0"), n(1))), let_("x3", I, bin(Op::Mul, v("x2"), v("x2")))], Some(v("x3"))))),
             let_("x3", I, E::Block(blk(vec![S::Do(cset(Op::Add, "x2", v("x1")))], Some(v("x2")))))],
        Some(bin(Op::Add, v("x2"), v("x3")))))], I, I, true);
    add("shadowing", vec![func("main", &[("a", I), ("b", I)], I, blk(
        vec![let_("c", I, E::Block(blk(vec![let_("a", I, bin(Op::Add, v("a"), n(1))), let_("b", I, bin(Op::Mul, v("a"), v("b")))], Some(bin(Op::Sub, v("b"), v("a")))))),
             S::Do(if1(bin(Op::Gt, v("c"), n(0)), blk(vec![let_("a", I, n(7)), S::Do(cset(Op::Add, "c", v("a")))], None)))],
        Some(bin(Op::Add, v("a"), v("c")))))], I, I, false);
    add("helper-called-twice", vec![
        func("h0", &[("x0", I), ("x1", I)], I, blk(vec![S::Do(if1(bin(Op::Lt, v("x0"), v("x1")), blk(vec![S::Do(ret(v("x1")))], None)))], Some(bin(Op::Sub, v("x0"), v("x1"))))),
        main2(I, I, blk(vec![], Some(bin(Op::Add, call("h0", vec![v("x0"), v("x1")], I), call("h0", vec![v("x1"), bin(Op::Add, v("x0"), n(1))], I))))),
    ], I, I, true);
    add("recursion", vec![
        func("r0", &[("x0", I), ("x1", I)], I, blk(
            vec![S::Do(if1(bin(Op::Le, v("x0"), n(0)), blk(vec![S::Do(ret(v("x1")))], None)))],
            Some(call("r0", vec![bin(Op::Sub, v("x0"), n(1)), bin(Op::Add, bin(Op::Mul, v("x1"), n(3)), v("x0"))], I)))),
        main2(I, I, blk(vec![], Some(call("r0", vec![n(9), v("x0")], I)))),
    ], I, I, true);
    add("mutual-recursion", vec![
        func("r0", &[("x0", I), ("x1", B)], B, blk(
            vec![S::Do(if1(bin(Op::Eq, v("x0"), n(0)), blk(vec![S::Do(ret(vb("x1")))], None)))],
            Some(call("r1", vec![bin(Op::Sub, v("x0"), n(1)), not(vb("x1"))], B)))),
        func("r1", &[("x0", I), ("x1", B)], B, blk(
            vec![S::Do(if1(bin(Op::Eq, v("x0"), n(0)), blk(vec![S::Do(ret(not(vb("x1"))))], None)))],
            Some(call("r0", vec![bin(Op::Sub, v("x0"), n(1)), vb("x1")], B)))),
        main2(B, B, blk(vec![], Some(bin(Op::Eq, call("r0", vec![n(7), vb("x0")], B), call("r1", vec![n(4), vb("x1")], B))))),
    ], B, B, true);
    add("dead-code-after-return", vec![main2(I, I, blk(
        vec![let_("x2", I, bin(Op::Add, v("x0"), v("x1"))), S::Do(ret(v("x2"))), S::Do(set("x2", n(0)))],
        Some(v("x2"))))], I, I, true);
    // functions that return nothing (`Return(None)`, a call without a `to`): called as statements, before / inside a loop,
    // from a function that returns a value, recursively; arguments are passed by value, so the caller's variables keep theirs
    let ucall = |g: &str, args: Vec<E>| S::Do(E::XCall(g.into(), args, "unit".into()));
    let ufunc = |name: &str, params: &[(&str, STy)], body: Blk| { let mut f = func(name, params, I, body); f.xret = Some("unit".into()); f };
    add("unit-function-called", vec![
        ufunc("u0", &[("x0", I), ("x1", I)], blk(vec![S::Do(set("x0", bin(Op::Add, v("x0"), v("x1")))), S::Do(cset(Op::Mul, "x1", n(2)))], None)),
        main2(I, I, blk(
            vec![ucall("u0", vec![v("x0"), v("x1")]),
                 let_("x2", I, n(0)),
                 S::Do(whl(bin(Op::Lt, v("x2"), n(3)), blk(vec![ucall("u0", vec![v("x2"), v("x0")]), S::Do(cset(Op::Add, "x2", n(1)))], None)))],
            Some(bin(Op::Sub, bin(Op::Mul, v("x0"), n(3)), bin(Op::Add, v("x1"), v("x2")))))),
    ], I, I, true);
    add("unit-function-between-value-calls", vec![
        ufunc("u0", &[("x0", I)], blk(vec![S::Do(if1(bin(Op::Gt, v("x0"), n(0)), blk(vec![ucall("u0", vec![bin(Op::Sub, v("x0"), n(1))])], None)))], None)),
        func("h0", &[("x0", I), ("x1", I)], I, blk(vec![ucall("u0", vec![n(2)])], Some(bin(Op::Sub, v("x0"), v("x1"))))),
        main2(I, I, blk(
            vec![let_("x2", I, call("h0", vec![v("x0"), v("x1")], I)), ucall("u0", vec![n(3)])],
            Some(bin(Op::Add, v("x2"), call("h0", vec![v("x1"), v("x2")], I))))),
    ], I, I, true);
    out
}
