//! The typed core-language AST of the C01 generator, printed twice (Roto source
//! for the real compiler, s-expression for the Lean spec), a small Rust
//! interpreter (used only for *statistics* — branch outcomes, trip counts — and
//! as a third voice; the oracle is the Lean `Spec`), and the shrinker's edits.

use rotov_harness::scalar::STy;
use std::collections::BTreeMap;
use std::fmt::Write;

#[derive(Clone, Copy, PartialEq, Eq, Debug, Hash, PartialOrd, Ord)]
pub enum Op { Add, Sub, Mul, Div, Mod, Eq, Ne, Lt, Le, Gt, Ge, And, Or }

pub const ARITH: [Op; 5] = [Op::Add, Op::Sub, Op::Mul, Op::Div, Op::Mod];
pub const CMP: [Op; 6] = [Op::Eq, Op::Ne, Op::Lt, Op::Le, Op::Gt, Op::Ge];
pub const ALL_OPS: [Op; 13] = [
    Op::Add, Op::Sub, Op::Mul, Op::Div, Op::Mod, Op::Eq, Op::Ne, Op::Lt, Op::Le, Op::Gt, Op::Ge, Op::And, Op::Or,
];

impl Op {
    pub fn sym(self) -> &'static str {
        match self {
            Op::Add => "+", Op::Sub => "-", Op::Mul => "*", Op::Div => "/", Op::Mod => "%",
            Op::Eq => "==", Op::Ne => "!=", Op::Lt => "<", Op::Le => "<=", Op::Gt => ">", Op::Ge => ">=",
            Op::And => "&&", Op::Or => "||",
        }
    }
    pub fn name(self) -> &'static str {
        match self {
            Op::Add => "add", Op::Sub => "sub", Op::Mul => "mul", Op::Div => "div", Op::Mod => "mod",
            Op::Eq => "eq", Op::Ne => "ne", Op::Lt => "lt", Op::Le => "le", Op::Gt => "gt", Op::Ge => "ge",
            Op::And => "and", Op::Or => "or",
        }
    }
    pub fn is_arith(self) -> bool { ARITH.contains(&self) }
    /// is `a op b` well-typed at operand type `t`?
    pub fn applies(self, t: STy) -> bool {
        match self {
            Op::And | Op::Or => t == STy::Bool,
            Op::Eq | Op::Ne => true,
            Op::Mod => t.is_int(),
            _ => t.is_int() || t.is_float(),
        }
    }
}

#[derive(Clone, Debug)]
pub enum E {
    /// ints: `bits` is a non-negative in-range value (also ≤ i64::MAX, the parser's limit)
    Lit { ty: STy, bits: u64, suffixed: bool },
    Var(String, STy),
    Neg(Box<E>),
    Not(Box<E>),
    Bin(Op, Box<E>, Box<E>),
    /// value `if` (both blocks end in an expression) or statement `if` (unit blocks)
    If(Box<E>, Blk, Option<Blk>),
    While(Box<E>, Blk),
    Block(Blk),
    Call(String, Vec<E>, STy),
    Set(String, Box<E>),
    CSet(Op, String, Box<E>),
    Ret(Box<E>),
    /// `Enum.Variant(args…)`: a value of a user-defined enum type (enum name, variant name, arguments)
    Ctor(String, String, Vec<E>),
    /// a variable of an enum type (name, enum name)
    XVar(String, String),
    /// a call of a function that returns a value of an enum type (function, arguments, enum name)
    XCall(String, Vec<E>, String),
    /// `match examinee { arm… }`: the examinee has an enum type; the arms' blocks all have the
    /// type of the match (a scalar, unit, or an enum)
    Match(Box<E>, Vec<Arm>),
}

/// `pattern [if guard] => body`; `pat = None` is `_`, otherwise the variant name and one
/// variable (with the type of the field) per field of the variant
#[derive(Clone, Debug)]
pub struct Arm {
    pub pat: Option<String>,
    pub binds: Vec<(String, STy)>,
    pub guard: Option<E>,
    pub body: Blk,
}

#[derive(Clone, Debug)]
pub enum S {
    Let(String, STy, bool, E), // name, type, annotated?, init
    /// `let x[: Enum] = e;` for a value of an enum type (name, enum name, annotated?, init)
    LetX(String, String, bool, E),
    Do(E),
}

/// `enum Name { Variant, Variant(ty, …), … }`; the fields are scalars
#[derive(Clone, Debug, Default, PartialEq)]
pub struct EnumDef {
    pub name: String,
    pub variants: Vec<(String, Vec<STy>)>,
}

#[derive(Clone, Debug, Default)]
pub struct Blk {
    pub stmts: Vec<S>,
    pub last: Option<Box<E>>,
}

#[derive(Clone, Debug)]
pub struct Func {
    pub name: String,
    /// parameters of enum types (name, enum name); they come first in the parameter list
    pub xparams: Vec<(String, String)>,
    pub params: Vec<(String, STy)>,
    pub ret: STy,
    /// `Some(enum name)`: the function returns a value of that enum type (`ret` is ignored)
    pub xret: Option<String>,
    pub body: Blk,
}

#[derive(Clone, Debug, Default)]
pub struct Prog {
    pub enums: Vec<EnumDef>,
    pub fns: Vec<Func>,
}

impl Prog {
    pub fn main(&self) -> &Func {
        self.fns.iter().find(|f| f.name == "main").expect("main")
    }
}

/// `None` = unit (statement-like expressions)
pub fn type_of(e: &E) -> Option<STy> {
    match e {
        E::Lit { ty, .. } => Some(*ty),
        E::Var(_, t) => Some(*t),
        E::Neg(x) => type_of(x),
        E::Not(_) => Some(STy::Bool),
        E::Bin(op, l, _) => if op.is_arith() { type_of(l) } else { Some(STy::Bool) },
        E::If(_, t, Some(_)) => t.last.as_ref().and_then(|x| type_of(x)),
        E::If(_, _, None) | E::While(..) | E::Set(..) | E::CSet(..) | E::Ret(_) => None,
        E::Block(b) => b.last.as_ref().and_then(|x| type_of(x)),
        E::Call(_, _, t) => Some(*t),
        E::Ctor(..) | E::XVar(..) | E::XCall(..) => None,
        E::Match(_, arms) => arms.first().and_then(|a| a.body.last.as_ref()).and_then(|x| type_of(x)),
    }
}

/// the enum type of an expression, if it has one
pub fn xtype_of(e: &E) -> Option<String> {
    match e {
        E::Ctor(en, _, _) | E::XVar(_, en) | E::XCall(_, _, en) => Some(en.clone()),
        E::If(_, t, Some(_)) => t.last.as_ref().and_then(|x| xtype_of(x)),
        E::Block(b) => b.last.as_ref().and_then(|x| xtype_of(x)),
        E::Match(_, arms) => arms.first().and_then(|a| a.body.last.as_ref()).and_then(|x| xtype_of(x)),
        _ => None,
    }
}

// ---------------------------------------------------------------- printing

pub fn float_text(ty: STy, bits: u64) -> String {
    let f = if ty == STy::F32 { f32::from_bits(bits as u32) as f64 } else { f64::from_bits(bits) };
    format!("{f:?}")
}

pub fn src_expr(e: &E, o: &mut String) {
    match e {
        E::Lit { ty, bits, suffixed } => {
            match ty {
                STy::Bool => { o.push_str(if *bits != 0 { "true" } else { "false" }); return; }
                STy::F32 | STy::F64 => o.push_str(&float_text(*ty, *bits)),
                _ => { let _ = write!(o, "{bits}"); }
            }
            if *suffixed { o.push_str(ty.name()); }
        }
        E::Var(x, _) => o.push_str(x),
        E::Neg(x) => { o.push_str("(-"); src_expr(x, o); o.push(')'); }
        E::Not(x) => { o.push_str("(!"); src_expr(x, o); o.push(')'); }
        E::Bin(op, l, r) => {
            o.push('('); src_expr(l, o); let _ = write!(o, " {} ", op.sym()); src_expr(r, o); o.push(')');
        }
        E::If(c, t, e) => {
            o.push_str("(if "); src_expr(c, o); o.push(' '); src_blk(t, o);
            if let Some(e) = e { o.push_str(" else "); src_blk(e, o); }
            o.push(')');
        }
        E::While(c, b) => { o.push_str("(while "); src_expr(c, o); o.push(' '); src_blk(b, o); o.push(')'); }
        E::Block(b) => { o.push('('); src_blk(b, o); o.push(')'); }
        E::Call(f, args, _) => {
            o.push_str(f); o.push('(');
            for (i, a) in args.iter().enumerate() { if i > 0 { o.push_str(", "); } src_expr(a, o); }
            o.push(')');
        }
        E::Set(x, v) => { let _ = write!(o, "{x} = "); src_expr(v, o); }
        E::CSet(op, x, v) => { let _ = write!(o, "{x} {}= ", op.sym()); src_expr(v, o); }
        E::Ret(v) => { o.push_str("return "); src_expr(v, o); }
        E::Ctor(en, k, args) => {
            let _ = write!(o, "{en}.{k}");
            if !args.is_empty() {
                o.push('(');
                for (i, a) in args.iter().enumerate() { if i > 0 { o.push_str(", "); } src_expr(a, o); }
                o.push(')');
            }
        }
        E::XVar(x, _) => o.push_str(x),
        E::XCall(f, args, _) => {
            o.push_str(f); o.push('(');
            for (i, a) in args.iter().enumerate() { if i > 0 { o.push_str(", "); } src_expr(a, o); }
            o.push(')');
        }
        E::Match(..) => { o.push('('); src_match(e, o); o.push(')'); }
    }
}

/// `match e { P => { … } P if g => { … } … }` (every arm body is printed as a block)
fn src_match(e: &E, o: &mut String) {
    let E::Match(x, arms) = e else { return };
    o.push_str("match "); src_expr(x, o); o.push_str(" { ");
    for a in arms {
        match &a.pat {
            None => o.push('_'),
            Some(k) => {
                o.push_str(k);
                if !a.binds.is_empty() {
                    let names: Vec<&str> = a.binds.iter().map(|(x, _)| x.as_str()).collect();
                    let _ = write!(o, "({})", names.join(", "));
                }
            }
        }
        if let Some(g) = &a.guard { o.push_str(" if "); src_expr(g, o); }
        o.push_str(" => ");
        src_blk(&a.body, o);
        o.push(' ');
    }
    o.push('}');
}

fn src_stmt(s: &S, o: &mut String) {
    match s {
        S::Let(x, ty, ann, e) => {
            if *ann { let _ = write!(o, "let {x}: {} = ", ty.name()); } else { let _ = write!(o, "let {x} = "); }
            src_expr(e, o);
            o.push_str("; ");
        }
        S::LetX(x, en, ann, e) => {
            if *ann { let _ = write!(o, "let {x}: {en} = "); } else { let _ = write!(o, "let {x} = "); }
            src_expr(e, o);
            o.push_str("; ");
        }
        S::Do(m @ E::Match(..)) => { src_match(m, o); o.push_str("; "); }
        // statement-level if / while are printed bare (the parser's statement forms)
        S::Do(E::If(c, t, e)) => {
            o.push_str("if "); src_expr(c, o); o.push(' '); src_blk(t, o);
            if let Some(e) = e { o.push_str(" else "); src_blk(e, o); }
            o.push_str("; ");
        }
        S::Do(E::While(c, b)) => { o.push_str("while "); src_expr(c, o); o.push(' '); src_blk(b, o); o.push_str("; "); }
        S::Do(e) => { src_expr(e, o); o.push_str("; "); }
    }
}

pub fn src_blk(b: &Blk, o: &mut String) {
    o.push_str("{ ");
    for s in &b.stmts { src_stmt(s, o); }
    if let Some(e) = &b.last { src_expr(e, o); o.push(' '); }
    o.push('}');
}

pub fn source(p: &Prog) -> String {
    let mut o = String::new();
    // the built-in `Option[T]` is not declared; its type is spelled `T?`
    let ty_name = |en: &str| -> String {
        if en == "Option" {
            if let Some(d) = p.enums.iter().find(|d| d.name == "Option") { return format!("{}?", d.variants[1].1[0].name()); }
        }
        en.to_string()
    };
    for en in &p.enums {
        if en.name == "Option" { continue; }
        let vs: Vec<String> = en.variants.iter().map(|(k, fs)| {
            if fs.is_empty() { k.clone() } else { format!("{k}({})", fs.iter().map(|t| t.name()).collect::<Vec<_>>().join(", ")) }
        }).collect();
        let _ = writeln!(o, "enum {} {{ {} }}", en.name, vs.join(", "));
    }
    for f in &p.fns {
        let mut ps: Vec<String> = f.xparams.iter().map(|(x, en)| format!("{x}: {}", ty_name(en))).collect();
        ps.extend(f.params.iter().map(|(x, t)| format!("{x}: {}", t.name())));
        let ret = f.xret.as_ref().map(|en| ty_name(en)).unwrap_or_else(|| f.ret.name().to_string());
        // a function that returns nothing (`xret` = "unit"): no return type in the source
        if f.xret.as_deref() == Some("unit") {
            let _ = write!(o, "fn {}({}) ", f.name, ps.join(", "));
        } else {
            let _ = write!(o, "fn {}({}) -> {} ", f.name, ps.join(", "), ret);
        }
        src_blk(&f.body, &mut o);
        o.push('\n');
    }
    o
}

fn sx_expr(e: &E, o: &mut String) {
    match e {
        E::Lit { ty, bits, .. } => { let _ = write!(o, "(lit {} {bits})", ty.name()); }
        E::Var(x, _) => { let _ = write!(o, "(var {x})"); }
        E::Neg(x) => { o.push_str("(neg "); sx_expr(x, o); o.push(')'); }
        E::Not(x) => { o.push_str("(not "); sx_expr(x, o); o.push(')'); }
        E::Bin(op, l, r) => {
            let _ = write!(o, "(bin {} ", op.name()); sx_expr(l, o); o.push(' '); sx_expr(r, o); o.push(')');
        }
        E::If(c, t, e) => {
            o.push_str("(if "); sx_expr(c, o); o.push(' '); sx_blk(t, o);
            if let Some(e) = e { o.push(' '); sx_blk(e, o); }
            o.push(')');
        }
        E::While(c, b) => { o.push_str("(while "); sx_expr(c, o); o.push(' '); sx_blk(b, o); o.push(')'); }
        E::Block(b) => { o.push_str("(block "); sx_blk(b, o); o.push(')'); }
        E::Call(f, args, _) => {
            let _ = write!(o, "(call {f}");
            for a in args { o.push(' '); sx_expr(a, o); }
            o.push(')');
        }
        E::Set(x, v) => { let _ = write!(o, "(set {x} "); sx_expr(v, o); o.push(')'); }
        E::CSet(op, x, v) => { let _ = write!(o, "(cset {} {x} ", op.name()); sx_expr(v, o); o.push(')'); }
        E::Ret(v) => { o.push_str("(ret "); sx_expr(v, o); o.push(')'); }
        E::Ctor(en, k, args) => {
            let _ = write!(o, "(ctor {en} {k}");
            for a in args { o.push(' '); sx_expr(a, o); }
            o.push(')');
        }
        E::XVar(x, _) => { let _ = write!(o, "(var {x})"); }
        E::XCall(f, args, _) => {
            let _ = write!(o, "(call {f}");
            for a in args { o.push(' '); sx_expr(a, o); }
            o.push(')');
        }
        E::Match(x, arms) => {
            o.push_str("(match "); sx_expr(x, o);
            for a in arms {
                o.push_str(" (arm ");
                match &a.pat {
                    None => o.push_str("(wild)"),
                    Some(k) => {
                        let _ = write!(o, "(pat {k}");
                        for (x, _) in &a.binds { let _ = write!(o, " {x}"); }
                        o.push(')');
                    }
                }
                if let Some(g) = &a.guard { o.push(' '); sx_expr(g, o); }
                o.push(' '); sx_blk(&a.body, o);
                o.push(')');
            }
            o.push(')');
        }
    }
}

fn sx_blk(b: &Blk, o: &mut String) {
    o.push_str("(blk (");
    for (i, s) in b.stmts.iter().enumerate() {
        if i > 0 { o.push(' '); }
        match s {
            S::Let(x, _, _, e) | S::LetX(x, _, _, e) => { let _ = write!(o, "(let {x} "); sx_expr(e, o); o.push(')'); }
            S::Do(e) => { o.push_str("(do "); sx_expr(e, o); o.push(')'); }
        }
    }
    o.push(')');
    if let Some(e) = &b.last { o.push(' '); sx_expr(e, o); }
    o.push(')');
}

pub fn sexp(p: &Prog) -> String {
    let mut o = String::from("(prog");
    for f in &p.fns {
        let _ = write!(o, " (fn {} (", f.name);
        let mut first = true;
        for (x, en) in &f.xparams {
            if !first { o.push(' '); }
            first = false;
            let _ = write!(o, "({x} {en})");
        }
        for (x, t) in &f.params {
            if !first { o.push(' '); }
            first = false;
            let _ = write!(o, "({x} {})", t.name());
        }
        let _ = write!(o, ") {} ", f.xret.clone().unwrap_or_else(|| f.ret.name().to_string()));
        sx_blk(&f.body, &mut o);
        o.push(')');
    }
    o.push(')');
    o
}

// ------------------------------------------------------- static statistics

/// constructs used by a program and its maximal nesting depth
pub fn constructs(p: &Prog) -> (BTreeMap<String, u64>, u32) {
    fn ex(e: &E, d: u32, m: &mut BTreeMap<String, u64>, mx: &mut u32) {
        *mx = (*mx).max(d);
        let mut hit = |k: String| *m.entry(k).or_insert(0) += 1;
        match e {
            E::Lit { suffixed, ty, .. } => {
                if *ty != STy::Bool { hit(if *suffixed { "lit-suffixed".into() } else { "lit-unsuffixed".into() }) }
            }
            E::Var(..) => hit("var".into()),
            E::Neg(x) => { hit("neg".into()); ex(x, d + 1, m, mx) }
            E::Not(x) => { hit("not".into()); ex(x, d + 1, m, mx) }
            E::Bin(op, l, r) => { hit(format!("bin{}", op.sym())); ex(l, d + 1, m, mx); ex(r, d + 1, m, mx) }
            E::If(c, t, e) => {
                hit(if e.is_some() { if t.last.is_some() { "if-else-value".into() } else { "if-else-stmt".into() } } else { "if".into() });
                ex(c, d + 1, m, mx); bl(t, d + 1, m, mx);
                if let Some(e) = e { bl(e, d + 1, m, mx) }
            }
            E::While(c, b) => { hit("while".into()); ex(c, d + 1, m, mx); bl(b, d + 1, m, mx) }
            E::Block(b) => { hit("block-expr".into()); bl(b, d + 1, m, mx) }
            E::Call(_, a, _) => { hit("call".into()); for x in a { ex(x, d + 1, m, mx) } }
            E::Set(_, v) => { hit("assign".into()); ex(v, d + 1, m, mx) }
            E::CSet(op, _, v) => { hit(format!("compound{}=", op.sym())); ex(v, d + 1, m, mx) }
            E::Ret(v) => { hit("return".into()); ex(v, d + 1, m, mx) }
            E::Ctor(_, _, a) => { hit("enum-ctor".into()); for x in a { ex(x, d + 1, m, mx) } }
            E::XVar(..) => hit("enum-var".into()),
            E::XCall(_, a, _) => { hit("call".into()); for x in a { ex(x, d + 1, m, mx) } }
            E::Match(x, arms) => {
                hit("match".into());
                if arms.iter().any(|a| a.pat.is_none()) { hit("match-wildcard".into()); }
                if arms.iter().any(|a| a.guard.is_some()) { hit("match-guard".into()); }
                if matches!(**x, E::Match(..)) || arms.iter().any(|a| blk_has_match(&a.body)) { hit("match-nested".into()); }
                ex(x, d + 1, m, mx);
                for a in arms {
                    if let Some(g) = &a.guard { ex(g, d + 1, m, mx) }
                    bl(&a.body, d + 1, m, mx);
                }
            }
        }
    }
    fn bl(b: &Blk, d: u32, m: &mut BTreeMap<String, u64>, mx: &mut u32) {
        let mut after_ret = false;
        for s in &b.stmts {
            if after_ret { *m.entry("dead-code-after-return".into()).or_insert(0) += 1; after_ret = false; }
            match s {
                S::Let(_, _, ann, e) | S::LetX(_, _, ann, e) => {
                    *m.entry(if *ann { "let-annotated".into() } else { "let".into() }).or_insert(0) += 1;
                    ex(e, d, m, mx)
                }
                S::Do(e) => { if matches!(e, E::Ret(_)) { after_ret = true; } ex(e, d, m, mx) }
            }
        }
        if let Some(e) = &b.last {
            if after_ret { *m.entry("dead-code-after-return".into()).or_insert(0) += 1; }
            ex(e, d, m, mx)
        }
    }
    let mut m = BTreeMap::new();
    let mut mx = 0;
    for f in &p.fns { bl(&f.body, 1, &mut m, &mut mx); }
    (m, mx)
}

/// does a block contain a `match` (at any depth)?
pub fn blk_has_match(b: &Blk) -> bool {
    fn ex(e: &E) -> bool {
        match e {
            E::Match(..) => true,
            E::Lit { .. } | E::Var(..) | E::XVar(..) => false,
            E::Neg(x) | E::Not(x) | E::Set(_, x) | E::CSet(_, _, x) | E::Ret(x) => ex(x),
            E::Bin(_, l, r) => ex(l) || ex(r),
            E::If(c, t, e) => ex(c) || blk_has_match(t) || e.as_ref().map(blk_has_match).unwrap_or(false),
            E::While(c, b) => ex(c) || blk_has_match(b),
            E::Block(b) => blk_has_match(b),
            E::Call(_, a, _) | E::XCall(_, a, _) | E::Ctor(_, _, a) => a.iter().any(ex),
        }
    }
    b.stmts.iter().any(|s| match s { S::Let(_, _, _, e) | S::LetX(_, _, _, e) | S::Do(e) => ex(e) })
        || b.last.as_ref().map(|e| ex(e)).unwrap_or(false)
}

// ------------------------------------------------------------- interpreter

#[derive(Clone, Debug, PartialEq)]
pub enum V { I(STy, i128), F32(u32), F64(u64), B(bool), U, En(String, Vec<V>) }

#[derive(Debug)]
pub enum Stop { Ret(V), Trap, Fuel, Stuck(String) }

#[derive(Default, Debug)]
pub struct RunStats {
    pub if_true: u64,
    pub if_false: u64,
    pub and_short: u64,
    pub and_full: u64,
    pub or_short: u64,
    pub or_full: u64,
    pub trips: Vec<u64>,
    pub early_returns: u64,
    pub max_call_depth: u64,
    pub calls: u64,
    pub wraps: u64,
    /// how each executed `match` ended: `variant-arm`, `wildcard-arm`; and every guard outcome
    pub match_outcomes: Vec<&'static str>,
}

pub fn wrap(t: STy, x: i128) -> i128 {
    let m: i128 = 1i128 << t.bits();
    let r = x.rem_euclid(m);
    if t.signed() && r >= m / 2 { r - m } else { r }
}

pub fn v_of_bits(t: STy, bits: u64) -> V {
    match t {
        STy::Bool => V::B(bits != 0),
        STy::F32 => V::F32(bits as u32),
        STy::F64 => V::F64(bits),
        _ => V::I(t, wrap(t, bits as i128)),
    }
}

pub fn v_bits(v: &V) -> (&'static str, u64) {
    match v {
        V::I(t, x) => (t.name(), (x.rem_euclid(1i128 << t.bits())) as u64),
        V::F32(b) => ("f32", *b as u64),
        V::F64(b) => ("f64", *b),
        V::B(b) => ("bool", *b as u64),
        V::U => ("unit", 0),
        V::En(..) => ("enum", 0),
    }
}

pub struct Interp<'a> {
    pub prog: &'a Prog,
    pub steps: u64,
    pub depth: u64,
    pub st: RunStats,
}

type Env = Vec<(String, V)>;

impl<'a> Interp<'a> {
    pub fn new(prog: &'a Prog) -> Self { Interp { prog, steps: 0, depth: 0, st: RunStats::default() } }

    pub fn run_main(&mut self, args: &[u64]) -> Result<V, Stop> {
        let f = self.prog.main();
        let mut env: Env = f.params.iter().zip(args).map(|((x, t), b)| (x.clone(), v_of_bits(*t, *b))).collect();
        match self.blk(&mut env, &f.body) {
            Ok(v) | Err(Stop::Ret(v)) => Ok(v),
            Err(e) => Err(e),
        }
    }

    fn bin(&mut self, op: Op, a: V, b: V) -> Result<V, Stop> {
        use Op::*;
        Ok(match (a, b) {
            (V::I(t, x), V::I(t2, y)) if t == t2 => match op {
                Add | Sub | Mul => {
                    // |x|,|y| < 2^64: only the product can leave i128; 2^128 ≡ 0 (mod 2^w), so wrapping is exact mod 2^w
                    let exact = match op { Add => x + y, Sub => x - y, _ => x.wrapping_mul(y) };
                    let w = wrap(t, exact);
                    if w != exact || (op == Mul && x.checked_mul(y).is_none()) { self.st.wraps += 1; }
                    V::I(t, w)
                }
                Div => {
                    if y == 0 { return Err(Stop::Trap); }
                    let q = x / y;
                    if wrap(t, q) != q { return Err(Stop::Trap); }
                    V::I(t, q)
                }
                Mod => { if y == 0 { return Err(Stop::Trap); } V::I(t, x % y) }
                Eq => V::B(x == y), Ne => V::B(x != y), Lt => V::B(x < y), Le => V::B(x <= y),
                Gt => V::B(x > y), Ge => V::B(x >= y),
                And | Or => return Err(Stop::Stuck("logic on ints".into())),
            },
            (V::F32(x), V::F32(y)) => {
                let (x, y) = (f32::from_bits(x), f32::from_bits(y));
                match op {
                    Add => V::F32((x + y).to_bits()), Sub => V::F32((x - y).to_bits()),
                    Mul => V::F32((x * y).to_bits()), Div => V::F32((x / y).to_bits()),
                    Eq => V::B(x == y), Ne => V::B(x != y), Lt => V::B(x < y), Le => V::B(x <= y),
                    Gt => V::B(x > y), Ge => V::B(x >= y),
                    _ => return Err(Stop::Stuck("op on f32".into())),
                }
            }
            (V::F64(x), V::F64(y)) => {
                let (x, y) = (f64::from_bits(x), f64::from_bits(y));
                match op {
                    Add => V::F64((x + y).to_bits()), Sub => V::F64((x - y).to_bits()),
                    Mul => V::F64((x * y).to_bits()), Div => V::F64((x / y).to_bits()),
                    Eq => V::B(x == y), Ne => V::B(x != y), Lt => V::B(x < y), Le => V::B(x <= y),
                    Gt => V::B(x > y), Ge => V::B(x >= y),
                    _ => return Err(Stop::Stuck("op on f64".into())),
                }
            }
            (V::B(x), V::B(y)) => match op {
                Eq => V::B(x == y), Ne => V::B(x != y),
                _ => return Err(Stop::Stuck("op on bool".into())),
            },
            _ => return Err(Stop::Stuck("operand types differ".into())),
        })
    }

    fn expr(&mut self, env: &mut Env, e: &E) -> Result<V, Stop> {
        self.steps += 1;
        if self.steps > 2_000_000 { return Err(Stop::Fuel); }
        match e {
            E::Lit { ty, bits, .. } => Ok(v_of_bits(*ty, *bits)),
            E::Var(x, _) => env.iter().rev().find(|(n, _)| n == x).map(|(_, v)| v.clone())
                .ok_or_else(|| Stop::Stuck(format!("unbound {x}"))),
            E::Neg(x) => match self.expr(env, x)? {
                V::I(t, v) if t.signed() => Ok(V::I(t, wrap(t, -v))),
                V::F32(b) => Ok(V::F32((-f32::from_bits(b)).to_bits())),
                V::F64(b) => Ok(V::F64((-f64::from_bits(b)).to_bits())),
                _ => Err(Stop::Stuck("neg".into())),
            },
            E::Not(x) => match self.expr(env, x)? {
                V::B(b) => Ok(V::B(!b)),
                _ => Err(Stop::Stuck("not".into())),
            },
            E::Bin(Op::And, l, r) => match self.expr(env, l)? {
                V::B(false) => { self.st.and_short += 1; Ok(V::B(false)) }
                V::B(true) => { self.st.and_full += 1; self.expr(env, r) }
                _ => Err(Stop::Stuck("and".into())),
            },
            E::Bin(Op::Or, l, r) => match self.expr(env, l)? {
                V::B(true) => { self.st.or_short += 1; Ok(V::B(true)) }
                V::B(false) => { self.st.or_full += 1; self.expr(env, r) }
                _ => Err(Stop::Stuck("or".into())),
            },
            E::Bin(op, l, r) => {
                let a = self.expr(env, l)?;
                let b = self.expr(env, r)?;
                self.bin(*op, a, b)
            }
            E::If(c, t, e) => match self.expr(env, c)? {
                V::B(true) => { self.st.if_true += 1; let v = self.blk(env, t)?; Ok(if e.is_some() { v } else { V::U }) }
                V::B(false) => {
                    self.st.if_false += 1;
                    match e { Some(e) => self.blk(env, e), None => Ok(V::U) }
                }
                _ => Err(Stop::Stuck("if".into())),
            },
            E::While(c, b) => {
                let mut n = 0u64;
                loop {
                    match self.expr(env, c) {
                        Ok(V::B(true)) => {}
                        Ok(V::B(false)) => break,
                        Ok(_) => return Err(Stop::Stuck("while".into())),
                        Err(s) => { self.st.trips.push(n); return Err(s); }
                    }
                    if let Err(s) = self.blk(env, b) { self.st.trips.push(n); return Err(s); }
                    n += 1;
                    if n > 100_000 { return Err(Stop::Fuel); }
                }
                self.st.trips.push(n);
                Ok(V::U)
            }
            E::Block(b) => self.blk(env, b),
            E::Call(f, args, _) => {
                let mut vs = vec![];
                for a in args { vs.push(self.expr(env, a)?); }
                let fd = self.prog.fns.iter().find(|x| &x.name == f).ok_or_else(|| Stop::Stuck(format!("no fn {f}")))?;
                let names = fd.xparams.iter().map(|(x, _)| x).chain(fd.params.iter().map(|(x, _)| x));
                let mut cenv: Env = names.zip(vs).map(|(x, v)| (x.clone(), v)).collect();
                self.depth += 1;
                self.st.calls += 1;
                self.st.max_call_depth = self.st.max_call_depth.max(self.depth);
                if self.depth > 200 { return Err(Stop::Fuel); }
                let r = self.blk(&mut cenv, &fd.body);
                self.depth -= 1;
                match r { Ok(v) | Err(Stop::Ret(v)) => Ok(v), Err(e) => Err(e) }
            }
            E::Set(x, v) => {
                let val = self.expr(env, v)?;
                let slot = env.iter_mut().rev().find(|(n, _)| n == x).ok_or_else(|| Stop::Stuck(format!("unbound {x}")))?;
                slot.1 = val;
                Ok(V::U)
            }
            E::CSet(op, x, v) => {
                let old = env.iter().rev().find(|(n, _)| n == x).map(|(_, v)| v.clone())
                    .ok_or_else(|| Stop::Stuck(format!("unbound {x}")))?;
                let rhs = self.expr(env, v)?;
                let val = self.bin(*op, old, rhs)?;
                let slot = env.iter_mut().rev().find(|(n, _)| n == x).unwrap();
                slot.1 = val;
                Ok(V::U)
            }
            E::Ret(v) => { let val = self.expr(env, v)?; self.st.early_returns += 1; Err(Stop::Ret(val)) }
            E::Ctor(_, k, args) => {
                let mut vs = vec![];
                for a in args { vs.push(self.expr(env, a)?); }
                Ok(V::En(k.clone(), vs))
            }
            E::XVar(x, _) => env.iter().rev().find(|(n, _)| n == x).map(|(_, v)| v.clone())
                .ok_or_else(|| Stop::Stuck(format!("unbound {x}"))),
            E::XCall(f, args, _) => self.expr(env, &E::Call(f.clone(), args.clone(), STy::Bool)),
            E::Match(x, arms) => {
                let V::En(k, fields) = self.expr(env, x)? else { return Err(Stop::Stuck("match on a non-enum".into())) };
                for a in arms {
                    if let Some(p) = &a.pat { if *p != k { continue; } }
                    let depth = env.len();
                    if a.pat.is_some() {
                        if a.binds.len() != fields.len() { return Err(Stop::Stuck("pattern arity".into())); }
                        for ((x, _), v) in a.binds.iter().zip(&fields) { env.push((x.clone(), v.clone())); }
                    }
                    if let Some(g) = &a.guard {
                        match self.expr(env, g) {
                            Ok(V::B(true)) => self.st.match_outcomes.push("guard-true"),
                            Ok(V::B(false)) => { self.st.match_outcomes.push("guard-false"); env.truncate(depth); continue; }
                            Ok(_) => return Err(Stop::Stuck("guard".into())),
                            Err(s) => { env.truncate(depth); return Err(s); }
                        }
                    }
                    self.st.match_outcomes.push(if a.pat.is_some() { "variant-arm" } else { "wildcard-arm" });
                    let r = self.blk(env, &a.body);
                    env.truncate(depth);
                    return r;
                }
                Err(Stop::Stuck("no arm of the match applies".into()))
            }
        }
    }

    fn blk(&mut self, env: &mut Env, b: &Blk) -> Result<V, Stop> {
        let depth = env.len();
        let r = (|| {
            for s in &b.stmts {
                match s {
                    S::Let(x, _, _, e) | S::LetX(x, _, _, e) => { let v = self.expr(env, e)?; env.push((x.clone(), v)); }
                    S::Do(e) => { self.expr(env, e)?; }
                }
            }
            match &b.last { Some(e) => self.expr(env, e), None => Ok(V::U) }
        })();
        env.truncate(depth);
        r
    }
}

// ---------------------------------------------------------------- shrinking

/// Apply the `k`-th possible simplifying edit; `None` when there is none.
pub fn edit(p: &Prog, k: usize) -> Option<Prog> {
    let mut q = p.clone();
    let mut n = k as isize;
    // 0: drop a function that is never called
    let whole = sexp(p);
    for i in 0..q.fns.len() {
        let name = q.fns[i].name.clone();
        if name == "main" || whole.contains(&format!("(call {name} ")) || whole.contains(&format!("(call {name})")) {
            continue;
        }
        if n == 0 {
            q.fns.remove(i);
            return Some(q);
        }
        n -= 1;
    }
    // drop an enum type that is not mentioned any more
    let text = source(&Prog { enums: vec![], fns: p.fns.clone() });
    for i in 0..q.enums.len() {
        let name = &q.enums[i].name;
        if text.contains(&format!("{name}.")) || text.contains(&format!(": {name}")) || text.contains(&format!("-> {name} ")) { continue; }
        if n == 0 {
            q.enums.remove(i);
            return Some(q);
        }
        n -= 1;
    }
    for f in q.fns.iter_mut() {
        if edit_blk(&mut f.body, &mut n) { return Some(q); }
    }
    None
}

fn zero_lit(t: STy, v: u64) -> E {
    let bits = match t {
        STy::F32 => (v as f32).to_bits() as u64,
        STy::F64 => (v as f64).to_bits(),
        _ => v,
    };
    E::Lit { ty: t, bits, suffixed: true }
}

fn is_lit(e: &E) -> bool { matches!(e, E::Lit { .. }) }

fn edit_blk(b: &mut Blk, n: &mut isize) -> bool {
    // drop one statement
    for i in 0..b.stmts.len() {
        if *n == 0 { b.stmts.remove(i); return true; }
        *n -= 1;
    }
    for s in b.stmts.iter_mut() {
        let e = match s { S::Let(_, _, _, e) | S::LetX(_, _, _, e) => e, S::Do(e) => e };
        if edit_expr(e, n) { return true; }
    }
    if let Some(e) = b.last.as_mut() { if edit_expr(e, n) { return true; } }
    false
}

fn edit_expr(e: &mut E, n: &mut isize) -> bool {
    // replace a value expression by a literal (1, then 0) or by a same-typed child
    if let Some(t) = type_of(e) {
        if !is_lit(e) {
            for v in [1u64, 0] {
                if *n == 0 { *e = zero_lit(t, v); return true; }
                *n -= 1;
            }
            let kids: Vec<E> = match e {
                E::Neg(x) | E::Not(x) => vec![(**x).clone()],
                E::Bin(_, l, r) => vec![(**l).clone(), (**r).clone()],
                E::If(_, a, Some(b)) => vec![E::Block(a.clone()), E::Block(b.clone())],
                E::Block(b) if b.stmts.is_empty() => b.last.iter().map(|x| (**x).clone()).collect(),
                E::Match(_, arms) => arms.iter().map(|a| E::Block(a.body.clone())).collect(),
                _ => vec![],
            };
            for kid in kids {
                if type_of(&kid) == Some(t) {
                    if *n == 0 { *e = kid; return true; }
                    *n -= 1;
                }
            }
        } else if let E::Lit { suffixed, .. } = e {
            if !*suffixed { /* keep unsuffixed literals: they may be the point */ }
        }
    }
    match e {
        E::Lit { .. } | E::Var(..) => false,
        E::Neg(x) | E::Not(x) | E::Set(_, x) | E::CSet(_, _, x) | E::Ret(x) => edit_expr(x, n),
        E::Bin(_, l, r) => edit_expr(l, n) || edit_expr(r, n),
        E::If(c, t, el) => edit_expr(c, n) || edit_blk(t, n) || el.as_mut().map(|b| edit_blk(b, n)).unwrap_or(false),
        E::While(c, b) => edit_expr(c, n) || edit_blk(b, n),
        E::Block(b) => edit_blk(b, n),
        E::Call(_, args, _) | E::XCall(_, args, _) | E::Ctor(_, _, args) => args.iter_mut().any(|a| edit_expr(a, n)),
        E::XVar(..) => false,
        E::Match(x, arms) => {
            // drop an arm (the result may not type-check: the caller's predicate then rejects it),
            // drop a guard, then edit the pieces
            if arms.len() > 1 {
                for i in 0..arms.len() {
                    if *n == 0 { arms.remove(i); return true; }
                    *n -= 1;
                }
            }
            for a in arms.iter_mut() {
                if a.guard.is_some() {
                    if *n == 0 { a.guard = None; return true; }
                    *n -= 1;
                }
            }
            if edit_expr(x, n) { return true; }
            for a in arms.iter_mut() {
                if let Some(g) = a.guard.as_mut() { if edit_expr(g, n) { return true; } }
                if edit_blk(&mut a.body, n) { return true; }
            }
            false
        }
    }
}

// ------------------------------------------------ resolved names (T5 tie)

/// Every variable renamed to `x<level>`, where the level of a declaration is the number of
/// variables visible at that point (parameters are 0, 1, …): the number
/// `Model/C01Resolve.resolve` gives the variable, and the name the lowering model prints.
/// The result is the same program up to the names of its variables.
pub fn rename_levels(p: &Prog) -> Prog {
    fn var(scope: &[String], x: &str) -> String {
        match scope.iter().rposition(|y| y == x) {
            Some(i) => format!("x{i}"),
            None => x.to_string(),
        }
    }
    fn blk(b: &Blk, scope: &mut Vec<String>) -> Blk {
        let depth = scope.len();
        let mut stmts = vec![];
        for s in &b.stmts {
            match s {
                S::Let(x, t, ann, e) => {
                    let e2 = expr(e, scope);
                    let name = format!("x{}", scope.len());
                    scope.push(x.clone());
                    stmts.push(S::Let(name, *t, *ann, e2));
                }
                S::LetX(x, en, ann, e) => {
                    let e2 = expr(e, scope);
                    let name = format!("x{}", scope.len());
                    scope.push(x.clone());
                    stmts.push(S::LetX(name, en.clone(), *ann, e2));
                }
                S::Do(e) => stmts.push(S::Do(expr(e, scope))),
            }
        }
        let last = b.last.as_ref().map(|e| Box::new(expr(e, scope)));
        scope.truncate(depth);
        Blk { stmts, last }
    }
    fn expr(e: &E, scope: &mut Vec<String>) -> E {
        match e {
            E::Lit { .. } => e.clone(),
            E::Var(x, t) => E::Var(var(scope, x), *t),
            E::Neg(a) => E::Neg(Box::new(expr(a, scope))),
            E::Not(a) => E::Not(Box::new(expr(a, scope))),
            E::Bin(op, l, r) => {
                let l2 = expr(l, scope);
                let r2 = expr(r, scope);
                E::Bin(*op, Box::new(l2), Box::new(r2))
            }
            E::If(c, t, el) => {
                let c2 = expr(c, scope);
                let t2 = blk(t, scope);
                let e2 = el.as_ref().map(|b| blk(b, scope));
                E::If(Box::new(c2), t2, e2)
            }
            E::While(c, b) => {
                let c2 = expr(c, scope);
                E::While(Box::new(c2), blk(b, scope))
            }
            E::Block(b) => E::Block(blk(b, scope)),
            E::Call(f, args, t) => E::Call(f.clone(), args.iter().map(|a| expr(a, scope)).collect(), *t),
            E::Set(x, v) => {
                let v2 = expr(v, scope);
                E::Set(var(scope, x), Box::new(v2))
            }
            E::CSet(op, x, v) => {
                let v2 = expr(v, scope);
                E::CSet(*op, var(scope, x), Box::new(v2))
            }
            E::Ret(v) => E::Ret(Box::new(expr(v, scope))),
            E::Ctor(en, k, args) => E::Ctor(en.clone(), k.clone(), args.iter().map(|a| expr(a, scope)).collect()),
            E::XVar(x, en) => E::XVar(var(scope, x), en.clone()),
            E::XCall(f, args, en) => E::XCall(f.clone(), args.iter().map(|a| expr(a, scope)).collect(), en.clone()),
            E::Match(x, arms) => {
                let x2 = expr(x, scope);
                let arms2 = arms.iter().map(|a| {
                    let depth = scope.len();
                    let mut binds = vec![];
                    for (b, t) in &a.binds { binds.push((format!("x{}", scope.len()), *t)); scope.push(b.clone()); }
                    let guard = a.guard.as_ref().map(|g| expr(g, scope));
                    let body = blk(&a.body, scope);
                    scope.truncate(depth);
                    Arm { pat: a.pat.clone(), binds, guard, body }
                }).collect();
                E::Match(Box::new(x2), arms2)
            }
        }
    }
    Prog {
        enums: p.enums.clone(),
        fns: p
            .fns
            .iter()
            .map(|f| {
                let nx = f.xparams.len();
                let mut scope: Vec<String> = f.xparams.iter().map(|(x, _)| x.clone()).chain(f.params.iter().map(|(x, _)| x.clone())).collect();
                let xparams = f.xparams.iter().enumerate().map(|(i, (_, en))| (format!("x{i}"), en.clone())).collect();
                let params = f.params.iter().enumerate().map(|(i, (_, t))| (format!("x{}", nx + i), *t)).collect();
                let body = blk(&f.body, &mut scope);
                Func { name: f.name.clone(), xparams, params, ret: f.ret, xret: f.xret.clone(), body }
            })
            .collect(),
    }
}
