//! Class representatives of the differential run (JIT against the Lean `Spec`): small programs
//! built systematically — not drawn from the PRNG — that run first on every run, independent of
//! the seed.
//!
//! * `match_corpus`: `match` on user-defined enums. For enum sizes 2, 3, 4 and 5, with and without
//!   payloads, every shape of the set of variants that have an arm of their own (every non-empty
//!   subset: a single variant `k` for each `k`, every pair, …, all variants; the rest goes to
//!   `_`), `_` alone, all variants in reverse order, all variants followed by `_`; guarded arms
//!   (several guarded arms of one variant + `_`, guarded + unguarded arm of one variant, a guarded
//!   `_` between variant arms, guards with effects); nested matches, a match as the examinee of a
//!   match, matches inside arithmetic, in a loop, on a variable / a parameter / a constructor /
//!   an `if`-`else`, a unit match with assignments and an early return. Every program is run with
//!   the examinee being EACH variant of the enum (`k` = 0 ‥ N).
//! * `order_corpus`: `match` arms in every order — all well-typed sequences of up to four arms
//!   over two or three variants and `_`, each guarded or not (a guarded or unguarded `_` before,
//!   between and after variant arms, several arms per variant), on the built-in `Option`, a
//!   user-defined two-variant enum and enums of three and four variants; every combination of
//!   guard outcomes × every variant as examinee.
//! * `float_corpus`: nested unary / binary operator shapes on `f32` / `f64` (`-(a - b)`,
//!   `a - (b - c)`, `-a * b`, `0.0 - a`, `a + 0.0`, `a * 1.0`, `a - a`, …) on every pair of
//!   boundary operands (±0, ±1, ±inf, NaN, ±subnormal, ±MAX, 2^24, …; equal operands included),
//!   compared by bit pattern (NaNs canonicalised): the sign of a zero, NaN-ness and rounding.

use super::ast::*;
use super::generator::VARIANT_NAMES;
use rotov_harness::scalar::STy;

pub struct Rep {
    pub name: String,
    /// the key of a violation found with this representative
    pub key: String,
    pub prog: Prog,
    pub ty: STy,
    pub ret: STy,
    pub args: Vec<Vec<u64>>,
    /// the Roto source when it is not `source(&prog)`: the `char` family prints the `u32` of `prog`
    /// (what the Spec and the harness interpreter run: a `char` is its code point, `==` / `!=` only) as `char`
    pub src: Option<String>,
}

impl Rep {
    pub fn source(&self) -> String { self.src.clone().unwrap_or_else(|| source(&self.prog)) }
}

fn lit(t: STy, v: u64) -> E {
    let bits = match t {
        STy::F32 => (v as f32).to_bits() as u64,
        STy::F64 => (v as f64).to_bits(),
        _ => v,
    };
    E::Lit { ty: t, bits, suffixed: t != STy::I32 && t != STy::Bool }
}
fn var(x: &str, t: STy) -> E { E::Var(x.into(), t) }
fn bin(op: Op, l: E, r: E) -> E { E::Bin(op, Box::new(l), Box::new(r)) }
fn neg(e: E) -> E { E::Neg(Box::new(e)) }
fn val(e: E) -> Blk { Blk { stmts: vec![], last: Some(Box::new(e)) } }
fn blk(stmts: Vec<S>, last: Option<E>) -> Blk { Blk { stmts, last: last.map(Box::new) } }
fn ite(c: E, a: E, b: E) -> E { E::If(Box::new(c), val(a), Some(val(b))) }
fn set(x: &str, e: E) -> E { E::Set(x.into(), Box::new(e)) }
fn func(name: &str, params: &[(&str, STy)], ret: STy, body: Blk) -> Func {
    Func { name: name.into(), xparams: vec![], params: params.iter().map(|(x, t)| (x.to_string(), *t)).collect(), ret, xret: None, body }
}

/// `enum S<n><p|u> { Dot, Line(T), Square(T), Cube(T, T), Tess(T) }` cut to `n` variants;
/// without payloads every variant is a bare name
fn enum_def(n: usize, payload: bool, t: STy) -> EnumDef {
    let fields = |k: usize| -> Vec<STy> {
        if !payload { return vec![]; }
        match k { 0 => vec![], 3 => vec![t, t], _ => vec![t] }
    };
    EnumDef {
        name: format!("S{n}{}", if payload { "p" } else { "u" }),
        variants: (0..n).map(|k| (VARIANT_NAMES[k].to_string(), fields(k))).collect(),
    }
}

/// two-variant enums shaped like `Option`, `Result` and `Verdict`, user-defined
fn two_variant_defs(t: STy) -> Vec<EnumDef> {
    vec![
        EnumDef { name: "Maybe".into(), variants: vec![("Nothing".into(), vec![]), ("Just".into(), vec![t])] },
        EnumDef { name: "Outcome".into(), variants: vec![("Good".into(), vec![t]), ("Bad".into(), vec![t])] },
        EnumDef { name: "Decision".into(), variants: vec![("Accept".into(), vec![]), ("Reject".into(), vec![])] },
    ]
}

/// `Enum.Variant_k(n [, k])`
fn ctor(def: &EnumDef, k: usize, n: E, kk: E) -> E {
    let args = match def.variants[k].1.len() { 0 => vec![], 1 => vec![n], _ => vec![n, kk] };
    E::Ctor(def.name.clone(), def.variants[k].0.clone(), args)
}

/// `fn mk(k: T, n: T) -> Enum`: variant `k`, the last one for every larger `k`
fn maker(def: &EnumDef, t: STy) -> Func {
    let n = def.variants.len();
    let mut e = ctor(def, n - 1, var("n", t), var("k", t));
    for k in (0..n - 1).rev() {
        e = ite(bin(Op::Eq, var("k", t), lit(t, k as u64)), ctor(def, k, var("n", t), var("k", t)), e);
    }
    Func { name: "mk".into(), xparams: vec![], params: vec![("k".into(), t), ("n".into(), t)], ret: t, xret: Some(def.name.clone()), body: val(e) }
}

fn mk(def: &EnumDef, k: E, n: E) -> E { E::XCall("mk".into(), vec![k, n], def.name.clone()) }

/// the pattern of variant `k`, its fields bound to `<prefix>0`, `<prefix>1`
fn pat(def: &EnumDef, k: usize, prefix: &str, t: STy) -> (Option<String>, Vec<(String, STy)>) {
    let binds = (0..def.variants[k].1.len()).map(|i| (format!("{prefix}{i}"), t)).collect();
    (Some(def.variants[k].0.clone()), binds)
}

/// an arm for variant `k` whose value tells the arm and the payload apart: `f0 [+ f1] + (c)`
fn value_arm(def: &EnumDef, k: usize, t: STy, c: u64, guard: Option<E>) -> Arm {
    let (p, binds) = pat(def, k, "f", t);
    let v = match binds.len() {
        0 => lit(t, c),
        1 => bin(Op::Add, var("f0", t), lit(t, c)),
        _ => bin(Op::Add, bin(Op::Add, var("f0", t), var("f1", t)), lit(t, c)),
    };
    Arm { pat: p, binds, guard, body: val(v) }
}
fn wild(t: STy, c: u64, guard: Option<E>) -> Arm { Arm { pat: None, binds: vec![], guard, body: val(lit(t, c)) } }
fn arm(def: &EnumDef, k: usize, prefix: &str, t: STy, guard: Option<E>, body: Blk) -> Arm {
    let (p, binds) = pat(def, k, prefix, t);
    Arm { pat: p, binds, guard, body }
}

/// `k` = every variant (and one past the last) × a few payloads
fn match_args(n: usize, t: STy) -> Vec<Vec<u64>> {
    let max = if t.signed() { t.mask() >> 1 } else { t.mask() };
    let mut out = vec![];
    for k in 0..=n as u64 { for v in [0u64, 7, 5, 1, max] { out.push(vec![k, v]); } }
    out
}

pub fn match_corpus() -> Vec<Rep> {
    let mut out: Vec<Rep> = vec![];
    let mut add = |out: &mut Vec<Rep>, name: String, key: String, def: &[&EnumDef], fns: Vec<Func>, t: STy, ret: STy, n: usize| {
        let mut all = vec![];
        if !fns.iter().any(|f| f.name == "mk") { all.push(maker(def[0], t)); }
        all.extend(fns);
        out.push(Rep { name, key, prog: Prog { enums: def.iter().map(|d| (*d).clone()).collect(), fns: all }, ty: t, ret, args: match_args(n, t), src: None });
    };
    let main = |t: STy, ret: STy, body: Blk| func("main", &[("k", t), ("n", t)], ret, body);

    // ---- every set of covered variants, sizes 2..=5, with and without payloads
    for (n, t) in [(2usize, STy::I32), (3, STy::I32), (4, STy::I64), (5, STy::U8)] {
        for payload in [true, false] {
            let def = enum_def(n, payload, t);
            let examinee = || mk(&def, var("k", t), var("n", t));
            for mask in 1u32..(1 << n) {
                let ks: Vec<usize> = (0..n).filter(|k| mask & (1 << k) != 0).collect();
                let mut arms: Vec<Arm> = ks.iter().map(|k| value_arm(&def, *k, t, 10 * (*k as u64 + 1), None)).collect();
                if ks.len() < n { arms.push(wild(t, 77, None)); }
                let shape = format!("{}{}", ks.iter().map(|k| k.to_string()).collect::<Vec<_>>().join(","), if ks.len() < n { "+_" } else { "" });
                add(&mut out, format!("match/{}/arms={shape}", def.name), format!("match enum{n}{} arms={shape}", if payload { "" } else { "-unit" }),
                    &[&def], vec![main(t, t, val(E::Match(Box::new(examinee()), arms)))], t, t, n);
            }
            // `_` alone; all variants in reverse order; all variants and a trailing `_`
            add(&mut out, format!("match/{}/arms=_", def.name), format!("match enum{n} arms=_"), &[&def],
                vec![main(t, t, val(E::Match(Box::new(examinee()), vec![wild(t, 77, None)])))], t, t, n);
            let rev: Vec<Arm> = (0..n).rev().map(|k| value_arm(&def, k, t, 10 * (k as u64 + 1), None)).collect();
            add(&mut out, format!("match/{}/arms=reversed", def.name), format!("match enum{n} arms=all-reversed"), &[&def],
                vec![main(t, t, val(E::Match(Box::new(examinee()), rev)))], t, t, n);
            let mut all_: Vec<Arm> = (0..n).map(|k| value_arm(&def, k, t, 10 * (k as u64 + 1), None)).collect();
            all_.push(wild(t, 77, None));
            add(&mut out, format!("match/{}/arms=all+_", def.name), format!("match enum{n} arms=all+_"), &[&def],
                vec![main(t, t, val(E::Match(Box::new(examinee()), all_)))], t, t, n);
        }
        // ---- guards (payload flavour)
        let def = enum_def(n, true, t);
        let examinee = || mk(&def, var("k", t), var("n", t));
        let big = |x: &str| bin(Op::Gt, var(x, t), lit(t, 4));
        for k in 1..n {
            // several guarded arms of ONE variant, everything else to `_`
            let arms = vec![
                value_arm(&def, k, t, 100, Some(big("f0"))),
                value_arm(&def, k, t, 200, Some(bin(Op::Gt, var("f0", t), lit(t, 0)))),
                wild(t, 33, None),
            ];
            add(&mut out, format!("match/{}/guards-of-{k}+_", def.name), format!("match enum{n} guarded-arms-of={k}+_"), &[&def],
                vec![main(t, t, val(E::Match(Box::new(examinee()), arms)))], t, t, n);
            // a guarded and an unguarded arm of one variant, everything else to `_`
            let arms = vec![
                value_arm(&def, k, t, 100, Some(bin(Op::Eq, var("f0", t), lit(t, 0)))),
                value_arm(&def, k, t, 200, None),
                wild(t, 33, None),
            ];
            add(&mut out, format!("match/{}/guard-then-plain-of-{k}+_", def.name), format!("match enum{n} guarded+plain-arm-of={k}+_"), &[&def],
                vec![main(t, t, val(E::Match(Box::new(examinee()), arms)))], t, t, n);
        }
        if n >= 3 {
            // a guarded `_` between the variant arms (the example of match_expr.rs)
            let arms = vec![
                value_arm(&def, 1, t, 100, Some(big("f0"))),
                wild(t, 2, Some(bin(Op::Eq, var("n", t), lit(t, 0)))),
                value_arm(&def, 2, t, 200, Some(big("f0"))),
                wild(t, 4, None),
            ];
            add(&mut out, format!("match/{}/guarded-wildcard-between", def.name), format!("match enum{n} guarded-wildcard"), &[&def],
                vec![main(t, t, val(E::Match(Box::new(examinee()), arms)))], t, t, n);
            // guards with effects: how often, and in which order, are they evaluated?
            let count = |by: u64, v: E| E::Block(blk(vec![S::Do(set("t", bin(Op::Add, var("t", t), lit(t, by))))], Some(v)));
            let arms = vec![
                arm(&def, 1, "f", t, Some(count(1, big("f0"))), val(lit(t, 100))),
                Arm { pat: None, binds: vec![], guard: Some(count(2, lit(STy::Bool, 0))), body: val(lit(t, 50)) },
                arm(&def, 1, "g", t, None, val(lit(t, 60))),
                arm(&def, 2, "h", t, Some(count(4, lit(STy::Bool, 0))), val(lit(t, 70))),
                wild(t, 80, None),
            ];
            let body = blk(
                vec![S::Let("t".into(), t, true, lit(t, 0)), S::Let("r".into(), t, true, E::Match(Box::new(examinee()), arms))],
                Some(bin(Op::Add, var("r", t), var("t", t))));
            add(&mut out, format!("match/{}/guards-with-effects", def.name), format!("match enum{n} guards-with-effects"), &[&def],
                vec![main(t, t, body)], t, t, n);
        }
        // every variant: a guarded arm, then its unguarded arm; no `_`
        let mut arms = vec![];
        for k in 0..n {
            arms.push(value_arm(&def, k, t, 100 + k as u64, Some(bin(Op::Gt, var("n", t), lit(t, 4)))));
            arms.push(value_arm(&def, k, t, 200 + k as u64, None));
        }
        add(&mut out, format!("match/{}/guarded+plain-all", def.name), format!("match enum{n} guarded+plain-all"), &[&def],
            vec![main(t, t, val(E::Match(Box::new(examinee()), arms)))], t, t, n);
    }

    // ---- two-variant enums shaped like Option / Result / Verdict
    let t = STy::I32;
    for def in two_variant_defs(t) {
        let examinee = || mk(&def, var("k", t), var("n", t));
        for (shape, ks, w) in [("0+_", vec![0usize], true), ("1+_", vec![1], true), ("0,1", vec![0, 1], false), ("1,0", vec![1, 0], false), ("_", vec![], true)] {
            let mut arms: Vec<Arm> = ks.iter().map(|k| value_arm(&def, *k, t, 10 * (*k as u64 + 1), None)).collect();
            if w { arms.push(wild(t, 77, None)); }
            add(&mut out, format!("match/{}/arms={shape}", def.name), format!("match enum2 {} arms={shape}", def.name), &[&def],
                vec![main(t, t, val(E::Match(Box::new(examinee()), arms)))], t, t, 2);
        }
        if !def.variants[1].1.is_empty() {
            let arms = vec![value_arm(&def, 1, t, 100, Some(bin(Op::Gt, var("f0", t), lit(t, 4)))), wild(t, 33, None)];
            add(&mut out, format!("match/{}/guard-of-1+_", def.name), format!("match enum2 {} guarded-arm+_", def.name), &[&def],
                vec![main(t, t, val(E::Match(Box::new(examinee()), arms)))], t, t, 2);
        }
    }

    // ---- nesting, matches inside expressions, where the examinee comes from (4 variants, payloads)
    let n = 4;
    let def = enum_def(n, true, t);
    let (kv, nv) = (|| var("k", t), || var("n", t));
    let m = |x: E, arms: Vec<Arm>| E::Match(Box::new(x), arms);
    let one = |k: usize, pfx: &str, v: E, d: E| vec![arm(&def, k, pfx, t, None, val(v)), Arm { pat: None, binds: vec![], guard: None, body: val(d) }];
    let minus1 = || bin(Op::Sub, lit(t, 0), lit(t, 1));
    let mut addx = |name: &str, fns: Vec<Func>, ret: STy| {
        add(&mut out, format!("match/{}/{name}", def.name), format!("match enum4 {name}"), &[&def], fns, t, ret, n);
    };
    // 1 + (match …) * 2 - (match …)
    addx("inside-arithmetic", vec![main(t, t, val(bin(Op::Sub,
        bin(Op::Add, lit(t, 1), bin(Op::Mul, m(mk(&def, kv(), nv()), one(1, "f", var("f0", t), minus1())), lit(t, 2))),
        m(mk(&def, kv(), nv()), one(2, "g", var("g0", t), lit(t, 3))))))], t);
    // a match in the arms of a match
    addx("nested-in-arms", vec![main(t, t, val(m(mk(&def, kv(), nv()), vec![
        arm(&def, 1, "f", t, None, val(m(mk(&def, nv(), var("f0", t)), one(2, "g", bin(Op::Add, var("g0", t), lit(t, 1)), lit(t, 50))))),
        arm(&def, 3, "a", t, None, val(m(mk(&def, var("a1", t), var("a0", t)), vec![
            arm(&def, 0, "z", t, None, val(lit(t, 60))),
            arm(&def, 3, "c", t, None, val(bin(Op::Add, var("c0", t), var("c1", t)))),
            Arm { pat: None, binds: vec![], guard: None, body: val(lit(t, 70)) }]))),
        Arm { pat: None, binds: vec![], guard: None, body: val(lit(t, 80)) },
    ])))], t);
    // the examinee is itself a match that yields a value of the enum
    addx("match-as-examinee", vec![main(t, t, val(m(
        m(mk(&def, kv(), nv()), vec![
            arm(&def, 0, "z", t, None, val(mk(&def, lit(t, 2), nv()))),
            arm(&def, 2, "y", t, None, val(mk(&def, lit(t, 1), var("y0", t)))),
            Arm { pat: None, binds: vec![], guard: None, body: val(mk(&def, lit(t, 0), nv())) }]),
        vec![value_arm(&def, 1, t, 1, None), value_arm(&def, 2, t, 2, None), wild(t, 9, None)])))], t);
    // in a loop over every variant (the demo's count_lines)
    addx("in-a-loop", vec![main(t, t, blk(vec![
        S::Let("total".into(), t, false, lit(t, 0)),
        S::Let("i".into(), t, false, lit(t, 0)),
        S::Do(E::While(Box::new(bin(Op::Lt, var("i", t), lit(t, 5))), blk(vec![
            S::Do(set("total", bin(Op::Add, bin(Op::Mul, var("total", t), lit(t, 3)), m(mk(&def, var("i", t), nv()), one(1, "l", lit(t, 1), lit(t, 0)))))),
            S::Do(set("i", bin(Op::Add, var("i", t), lit(t, 1))))], None)))],
        Some(bin(Op::Add, var("total", t), m(mk(&def, kv(), nv()), one(2, "s", lit(t, 1000), lit(t, 2000)))))))], t);
    // on a variable and on a parameter of another function
    let see = Func { name: "see".into(), xparams: vec![("s".into(), def.name.clone())], params: vec![("d".into(), t)], ret: t, xret: None,
        body: val(m(E::XVar("s".into(), def.name.clone()), one(2, "y", bin(Op::Add, var("y0", t), var("d", t)), var("d", t)))) };
    addx("on-variable-and-parameter", vec![see, main(t, t, blk(
        vec![S::LetX("s".into(), def.name.clone(), false, mk(&def, kv(), nv()))],
        Some(bin(Op::Add,
            bin(Op::Mul, E::Call("see".into(), vec![E::XVar("s".into(), def.name.clone()), lit(t, 1)], t), lit(t, 100)),
            bin(Op::Add, E::Call("see".into(), vec![mk(&def, nv(), kv()), lit(t, 2)], t),
                m(E::XVar("s".into(), def.name.clone()), one(3, "c", var("c1", t), lit(t, 9))))))))], t);
    // on a constructor and on an if-else
    addx("on-constructor-and-if-else", vec![main(t, t, val(bin(Op::Add,
        m(ctor(&def, 2, nv(), kv()), one(1, "f", var("f0", t), lit(t, 40))),
        m(E::If(Box::new(bin(Op::Eq, kv(), lit(t, 2))), val(ctor(&def, 2, nv(), kv())), Some(val(ctor(&def, 3, nv(), kv())))),
          one(2, "y", var("y0", t), minus1())))))], t);
    // a unit match: assignments in the arms, an early return
    addx("unit-match-assign-return", vec![main(t, t, blk(vec![
        S::Let("r".into(), t, false, lit(t, 0)),
        S::Do(m(mk(&def, kv(), nv()), vec![
            arm(&def, 1, "x", t, None, blk(vec![S::Do(set("r", var("x0", t)))], None)),
            arm(&def, 2, "y", t, None, blk(vec![S::Do(E::Ret(Box::new(bin(Op::Add, var("y0", t), lit(t, 1000)))))], None)),
            Arm { pat: None, binds: vec![], guard: None, body: blk(vec![S::Do(set("r", bin(Op::Sub, var("r", t), lit(t, 1))))], None) }]))],
        Some(var("r", t))))], t);
    // a bool-valued match as a condition (the demo's is_square)
    addx("as-condition", vec![main(t, STy::Bool, val(m(mk(&def, kv(), nv()), one(2, "s", bin(Op::Eq, var("s0", t), lit(t, 7)), lit(STy::Bool, 0)))))], STy::Bool);
    addx("as-if-condition", vec![main(t, t, val(ite(
        m(mk(&def, kv(), nv()), one(3, "c", bin(Op::Gt, var("c0", t), var("c1", t)), lit(STy::Bool, 0))), lit(t, 1), lit(t, 2))))], t);
    // an assignment to a pattern variable stays in the arm
    addx("assign-to-pattern-variable", vec![main(t, t, blk(
        vec![S::LetX("s".into(), def.name.clone(), false, mk(&def, kv(), nv()))],
        Some(bin(Op::Add,
            m(E::XVar("s".into(), def.name.clone()), vec![
                arm(&def, 1, "f", t, None, blk(vec![S::Do(set("f0", bin(Op::Add, var("f0", t), lit(t, 100))))], Some(var("f0", t)))),
                Arm { pat: None, binds: vec![], guard: None, body: val(lit(t, 0)) }]),
            m(E::XVar("s".into(), def.name.clone()), one(1, "g", var("g0", t), lit(t, 0)))))))], t);
    out
}

// ------------------------------------------------------------------ arm orders

/// Every well-typed sequence of at most `maxlen` arms over the patterns `own` (variants that
/// get arms) and `_`, each guarded or not: nothing follows an unguarded `_`, no arm of a variant
/// follows its unguarded arm, and at the end an unguarded `_` is present or every one of the
/// `nvariants` variants has an unguarded arm.
fn arm_sequences(own: &[usize], nvariants: usize, maxlen: usize) -> Vec<Vec<(Option<usize>, bool)>> {
    fn go(own: &[usize], nvariants: usize, maxlen: usize, cur: &mut Vec<(Option<usize>, bool)>, out: &mut Vec<Vec<(Option<usize>, bool)>>) {
        let done = cur.iter().any(|(p, g)| p.is_none() && !*g);
        let closed = |v: usize| cur.iter().any(|(p, g)| *p == Some(v) && !*g);
        if !cur.is_empty() && (done || (0..nvariants).all(closed)) { out.push(cur.clone()); }
        if done || cur.len() >= maxlen { return; }
        let mut next: Vec<(Option<usize>, bool)> = vec![];
        for v in own { if !closed(*v) { next.push((Some(*v), true)); next.push((Some(*v), false)); } }
        next.push((None, true));
        next.push((None, false));
        for s in next { cur.push(s); go(own, nvariants, maxlen, cur, out); cur.pop(); }
    }
    let mut out = vec![];
    go(own, nvariants, maxlen, &mut vec![], &mut out);
    out
}

/// `match` arms in every ORDER: guarded and unguarded `_` arms before, between and after the
/// variant arms, several arms per variant. The i-th guard of a program is bit i of `n`, so every
/// combination of guard outcomes is run, on every variant. First-match semantics is what the
/// Spec (`evalArms`) says; the compiler builds one guard chain per discriminant.
pub fn order_corpus() -> Vec<Rep> {
    let t = STy::I32;
    let mut out = vec![];
    let option = EnumDef { name: "Option".into(), variants: vec![("None".into(), vec![]), ("Some".into(), vec![t])] };
    let maybe = two_variant_defs(t).remove(0);
    let s3 = enum_def(3, true, t);
    let s4 = enum_def(4, true, t);
    // (enum, variants that get arms of their own, longest sequence)
    let contexts: Vec<(&EnumDef, Vec<usize>, usize)> = vec![
        (&option, vec![0, 1], 4), (&maybe, vec![0, 1], 3), (&s3, vec![1, 2], 4), (&s3, vec![0, 1, 2], 3), (&s4, vec![1, 3], 3),
    ];
    for (def, own, maxlen) in contexts {
        let n = def.variants.len();
        for seq in arm_sequences(&own, n, maxlen) {
            let mut g = 0u32;
            let mut arms = vec![];
            let mut shape = vec![];
            for (i, (p, guarded)) in seq.iter().enumerate() {
                let guard = if *guarded {
                    let bit = bin(Op::Eq, bin(Op::Mod, bin(Op::Div, var("n", t), lit(t, 1 << g)), lit(t, 2)), lit(t, 1));
                    g += 1;
                    Some(bit)
                } else { None };
                let c = 100 * (i as u64 + 1);
                arms.push(match p { Some(k) => value_arm(def, *k, t, c, guard), None => wild(t, c, guard) });
                shape.push(format!("{}{}", p.map(|k| def.variants[k].0.clone()).unwrap_or_else(|| "_".into()), if *guarded { "?" } else { "" }));
            }
            let shape = shape.join(" ");
            let body = val(E::Match(Box::new(mk(def, var("k", t), var("n", t))), arms));
            let mut args = vec![];
            for k in 0..n as u64 { for bits in 0..(1u64 << g) { args.push(vec![k, bits]); } }
            out.push(Rep {
                name: format!("match-order/{}/{shape}", def.name), key: format!("match-order {} [{shape}]", def.name),
                prog: Prog { enums: vec![def.clone()], fns: vec![maker(def, t), func("main", &[("k", t), ("n", t)], t, body)] },
                ty: t, ret: t, args, src: None,
            });
        }
    }
    out
}

// ------------------------------------------------------------------ floats

fn fbits(t: STy, v: f64) -> u64 { if t == STy::F32 { (v as f32).to_bits() as u64 } else { v.to_bits() } }

/// boundary operands: zeros, ones, infinities, NaN, subnormals, MAX, MIN_POSITIVE, 2^24, 0.1, …
pub fn float_boundary(t: STy) -> Vec<u64> {
    let (sub, max, minpos) = if t == STy::F32 {
        (1u64, f32::MAX.to_bits() as u64, f32::MIN_POSITIVE.to_bits() as u64)
    } else {
        (1u64, f64::MAX.to_bits(), f64::MIN_POSITIVE.to_bits())
    };
    let sign = 1u64 << (t.bits() - 1);
    let mut v = vec![
        fbits(t, 0.0), fbits(t, 0.0) | sign, fbits(t, 1.0), fbits(t, -1.0),
        fbits(t, f64::INFINITY), fbits(t, f64::NEG_INFINITY), fbits(t, f64::NAN),
        sub, sub | sign, max, max | sign, minpos, fbits(t, 0.1), fbits(t, 16777216.0), fbits(t, 1.5), fbits(t, -2.5),
        fbits(t, 3.0), fbits(t, 1e10),
    ];
    v.dedup();
    v
}

pub fn float_corpus() -> Vec<Rep> {
    let mut out = vec![];
    for t in [STy::F64, STy::F32] {
        let (a, b, c) = (|| var("a", t), || var("b", t), || var("c", t));
        let z = || lit(t, 0);
        let o = || lit(t, 1);
        use Op::*;
        let shapes: Vec<(&str, E)> = vec![
            ("-(a - b)", neg(bin(Sub, a(), b()))),
            ("-(b - a)", neg(bin(Sub, b(), a()))),
            ("-(a + b)", neg(bin(Add, a(), b()))),
            ("-(a * b)", neg(bin(Mul, a(), b()))),
            ("-(a / b)", neg(bin(Div, a(), b()))),
            ("a - (b - c)", bin(Sub, a(), bin(Sub, b(), c()))),
            ("(a - b) - c", bin(Sub, bin(Sub, a(), b()), c())),
            ("a + (b + c)", bin(Add, a(), bin(Add, b(), c()))),
            ("(a + b) + c", bin(Add, bin(Add, a(), b()), c())),
            ("a - (b + c)", bin(Sub, a(), bin(Add, b(), c()))),
            ("a * (b * c)", bin(Mul, a(), bin(Mul, b(), c()))),
            ("(a * b) * c", bin(Mul, bin(Mul, a(), b()), c())),
            ("a * b + c", bin(Add, bin(Mul, a(), b()), c())),
            ("a * b - c", bin(Sub, bin(Mul, a(), b()), c())),
            ("c - a * b", bin(Sub, c(), bin(Mul, a(), b()))),
            ("-(a * b - c)", neg(bin(Sub, bin(Mul, a(), b()), c()))),
            ("a * (b + c)", bin(Mul, a(), bin(Add, b(), c()))),
            ("a / b * b", bin(Mul, bin(Div, a(), b()), b())),
            ("a / (b / c)", bin(Div, a(), bin(Div, b(), c()))),
            ("-a * b", bin(Mul, neg(a()), b())),
            ("a * -b", bin(Mul, a(), neg(b()))),
            ("-a - b", bin(Sub, neg(a()), b())),
            ("-a + b", bin(Add, neg(a()), b())),
            ("a + -b", bin(Add, a(), neg(b()))),
            ("a - -b", bin(Sub, a(), neg(b()))),
            ("-a / b", bin(Div, neg(a()), b())),
            ("-(-a)", neg(neg(a()))),
            ("-(-(a - b))", neg(neg(bin(Sub, a(), b())))),
            ("-a", neg(a())),
            ("0.0 - a", bin(Sub, z(), a())),
            ("-0.0 - a", bin(Sub, neg(z()), a())),
            ("a - 0.0", bin(Sub, a(), z())),
            ("a + 0.0", bin(Add, a(), z())),
            ("0.0 + a", bin(Add, z(), a())),
            ("a + -0.0", bin(Add, a(), neg(z()))),
            ("a * 1.0", bin(Mul, a(), o())),
            ("1.0 * a", bin(Mul, o(), a())),
            ("a * -1.0", bin(Mul, a(), neg(o()))),
            ("a / 1.0", bin(Div, a(), o())),
            ("a / -1.0", bin(Div, a(), neg(o()))),
            ("a * 0.0", bin(Mul, a(), z())),
            ("0.0 * a", bin(Mul, z(), a())),
            ("0.0 / a", bin(Div, z(), a())),
            ("a - a", bin(Sub, a(), a())),
            ("-(a - a)", neg(bin(Sub, a(), a()))),
            ("a + -a", bin(Add, a(), neg(a()))),
            ("-a + a", bin(Add, neg(a()), a())),
            ("a / a", bin(Div, a(), a())),
            ("a * a", bin(Mul, a(), a())),
            ("a + a", bin(Add, a(), a())),
            ("1.0 / -(a - b)", bin(Div, o(), neg(bin(Sub, a(), b())))),
            ("1.0 / (a - b)", bin(Div, o(), bin(Sub, a(), b()))),
            ("1.0 / (a + b)", bin(Div, o(), bin(Add, a(), b()))),
            ("1.0 / (a * b)", bin(Div, o(), bin(Mul, a(), b()))),
            ("1.0 / -a", bin(Div, o(), neg(a()))),
            ("-(a - b) * c", bin(Mul, neg(bin(Sub, a(), b())), c())),
            ("-(a - b) + c", bin(Add, neg(bin(Sub, a(), b())), c())),
            ("c - -(a - b)", bin(Sub, c(), neg(bin(Sub, a(), b())))),
            ("let d = a - b; -d", E::Block(blk(vec![S::Let("d".into(), t, false, bin(Sub, a(), b()))], Some(neg(var("d", t)))))),
            ("if a < b { -(a - b) } else { -(b - a) }", E::If(Box::new(bin(Lt, a(), b())), val(neg(bin(Sub, a(), b()))), Some(val(neg(bin(Sub, b(), a())))))),
        ];
        let bd = float_boundary(t);
        let mut args = vec![];
        for (i, x) in bd.iter().enumerate() {
            for (j, y) in bd.iter().enumerate() {
                args.push(vec![*x, *y, bd[(i + 2 * j + 1) % bd.len()]]);
            }
        }
        // equal operands throughout, and equal a = b with every c
        for x in &bd { args.push(vec![*x, *x, *x]); }
        for x in &bd[..6] { for y in &bd { args.push(vec![*x, *x, *y]); } }
        for (name, e) in shapes {
            let f = func("main", &[("a", t), ("b", t), ("c", t)], t, val(e));
            out.push(Rep {
                name: format!("float/{}/{name}", t.name()), key: format!("float-expr {} {name}", t.name()),
                prog: Prog { enums: vec![], fns: vec![f] }, ty: t, ret: t, args: args.clone(), src: None,
            });
        }
        // results observed through a comparison (`-0.0 == 0.0`, so the sign shows through a division)
        let bshapes: Vec<(&str, E)> = vec![
            ("1.0 / -(a - b) < 0.0", bin(Lt, bin(Div, o(), neg(bin(Sub, a(), b()))), z())),
            ("-(a - b) == b - a", bin(Eq, neg(bin(Sub, a(), b())), bin(Sub, b(), a()))),
            ("-(a - b) != -(a - b)", bin(Ne, neg(bin(Sub, a(), b())), neg(bin(Sub, a(), b())))),
            ("a - b <= -(b - a)", bin(Le, bin(Sub, a(), b()), neg(bin(Sub, b(), a())))),
            ("-a < -b", bin(Lt, neg(a()), neg(b()))),
            ("a + b >= c", bin(Ge, bin(Add, a(), b()), c())),
        ];
        for (name, e) in bshapes {
            let f = func("main", &[("a", t), ("b", t), ("c", t)], STy::Bool, val(e));
            out.push(Rep {
                name: format!("float/{}/{name}", t.name()), key: format!("float-expr {} {name}", t.name()),
                prog: Prog { enums: vec![], fns: vec![f] }, ty: t, ret: STy::Bool, args: args.clone(), src: None,
            });
        }
    }
    out
}


/// The `char` family. `char` has literals, `==` and `!=`, and is a value like any other (variables,
/// assignment, parameters, results, `if`-`else` values, loop conditions). Each representative is a
/// program over `u32` (a `char` is its code point; only `==` / `!=` are applied to it) — that is what the
/// Lean Spec and the harness interpreter run — printed for the compiler with `char` for `u32` and
/// character literals for the `u32` literals. The code points differ in the low byte only, above the
/// low byte only, above 16 bits only; two selector values give the same character.
pub const CHAR_POINTS: [u32; 8] = [0x61, 0x161, 0x10061, 0x1F600, 0x41, 0x10FFFF, 0x61, 0xE9];

fn char_source(p: &Prog) -> String {
    let text = source(p);
    // every `u32` literal is suffixed (`<digits>u32`); every other `u32` is a type name
    let mut out = String::new();
    let b: Vec<char> = text.chars().collect();
    let mut i = 0;
    while i < b.len() {
        if b[i].is_ascii_digit() && (i == 0 || !(b[i - 1].is_ascii_alphanumeric() || b[i - 1] == '_')) {
            let mut j = i;
            while j < b.len() && b[j].is_ascii_digit() { j += 1; }
            let rest: String = b[j..(j + 3).min(b.len())].iter().collect();
            if rest == "u32" {
                let n: u32 = b[i..j].iter().collect::<String>().parse().expect("code point");
                out.push('\'');
                out.push(char::from_u32(n).expect("a scalar value"));
                out.push('\'');
                i = j + 3;
                continue;
            }
            out.extend(&b[i..j]);
            i = j;
            continue;
        }
        out.push(b[i]);
        i += 1;
    }
    out.replace("u32", "char")
}

pub fn char_corpus() -> Vec<Rep> {
    let c = STy::U32; // stands for `char`
    let k = STy::U8;
    let ch = |i: usize| lit(c, CHAR_POINTS[i] as u64);
    // fn pick(k: u8) -> char: the k-th code point (the last for every other k)
    let mut body = ch(CHAR_POINTS.len() - 1);
    for i in (0..CHAR_POINTS.len() - 1).rev() {
        body = ite(bin(Op::Eq, var("k", k), lit(k, i as u64)), ch(i), body);
    }
    let pick = func("pick", &[("k", k)], c, val(body));
    let same = func("same", &[("x", c), ("y", c)], STy::Bool, val(bin(Op::Eq, var("x", c), var("y", c))));
    let other = func("other", &[("x", c), ("y", c)], c, val(ite(bin(Op::Ne, var("x", c), var("y", c)), var("y", c), ch(4))));
    let p = |x: &str| E::Call("pick".into(), vec![var(x, k)], c);
    use Op::*;
    let bshapes: Vec<(&str, E)> = vec![
        ("pick(a) == pick(b)", bin(Eq, p("a"), p("b"))),
        ("pick(a) != pick(b)", bin(Ne, p("a"), p("b"))),
        ("pick(a) == 'a'", bin(Eq, p("a"), ch(0))),
        ("'U+10061' != pick(a)", bin(Ne, ch(2), p("a"))),
        ("'a' == 'a'", bin(Eq, ch(0), ch(6))),
        ("'a' != 'U+161'", bin(Ne, ch(0), ch(1))),
        ("same(pick(a), pick(b))", E::Call("same".into(), vec![p("a"), p("b")], STy::Bool)),
        ("other(pick(a), pick(b)) == pick(c)", bin(Eq, E::Call("other".into(), vec![p("a"), p("b")], c), p("c"))),
        ("pick(a) == pick(b) && pick(b) != pick(c)", bin(And, bin(Eq, p("a"), p("b")), bin(Ne, p("b"), p("c")))),
        ("pick(a) != pick(b) || pick(b) == pick(c)", bin(Or, bin(Ne, p("a"), p("b")), bin(Eq, p("b"), p("c")))),
        ("let x = pick(a); x = pick(b); x == pick(c)", E::Block(blk(vec![
            S::Let("x".into(), c, false, p("a")), S::Do(set("x", p("b")))], Some(bin(Eq, var("x", c), p("c")))))),
        ("let x: char = pick(a); let y = x; y != pick(b)", E::Block(blk(vec![
            S::Let("x".into(), c, true, p("a")), S::Let("y".into(), c, false, var("x", c))], Some(bin(Ne, var("y", c), p("b")))))),
        ("(if a == b { pick(a) } else { pick(c) }) == pick(b)", bin(Eq, ite(bin(Eq, var("a", k), var("b", k)), p("a"), p("c")), p("b"))),
        ("!(pick(a) == pick(b))", E::Not(Box::new(bin(Eq, p("a"), p("b"))))),
    ];
    let nshapes: Vec<(&str, E)> = vec![
        ("if pick(a) == pick(b) { 1 } else { 2 }", ite(bin(Eq, p("a"), p("b")), lit(k, 1), lit(k, 2))),
        ("while x != pick(b) { x = pick(b); n = n + 1 }", E::Block(blk(vec![
            S::Let("x".into(), c, false, p("a")), S::Let("n".into(), k, false, lit(k, 0)),
            S::Do(E::While(Box::new(bin(Ne, var("x", c), p("b"))), blk(vec![S::Do(set("x", p("b"))), S::Do(set("n", bin(Add, var("n", k), lit(k, 1))))], None)))],
            Some(var("n", k))))),
        ("count of k < 8 with pick(k) == pick(a)", E::Block(blk(vec![
            S::Let("i".into(), k, false, lit(k, 0)), S::Let("n".into(), k, false, lit(k, 0)),
            S::Do(E::While(Box::new(bin(Lt, var("i", k), lit(k, 8))), blk(vec![
                S::Do(E::If(Box::new(bin(Eq, E::Call("pick".into(), vec![var("i", k)], c), p("a"))), blk(vec![S::Do(set("n", bin(Add, var("n", k), lit(k, 1))))], None), None)),
                S::Do(set("i", bin(Add, var("i", k), lit(k, 1))))], None)))],
            Some(var("n", k))))),
    ];
    let n = CHAR_POINTS.len() as u64 + 1;
    let mut args = vec![];
    for a in 0..n { for b in 0..n { args.push(vec![a, b, (a + 2 * b + 1) % n]); } }
    for a in 0..n { args.push(vec![a, a, a]); }
    let mut out = vec![];
    for (shapes, ret) in [(bshapes, STy::Bool), (nshapes, k)] {
        for (name, e) in shapes {
            let f = func("main", &[("a", k), ("b", k), ("c", k)], ret, val(e));
            let prog = Prog { enums: vec![], fns: vec![pick.clone(), same.clone(), other.clone(), f] };
            let src = char_source(&prog);
            out.push(Rep { name: format!("char/{name}"), key: format!("char-expr {name}"), prog, ty: k, ret, args: args.clone(), src: Some(src) });
        }
    }
    out
}


/// The `for` family: `for x in [e1, …, en] { body }` over list literals. `Model/Spec` has no lists; the
/// language-defined meaning of the loop over a list LITERAL is used instead: the elements are evaluated
/// once, in order, before the first iteration; the body then runs once per element in a scope of its own
/// in which `x` is bound to that element. The Spec (and the harness interpreter) run that unrolled program,
/// the compiler sees the `for` loop.
enum FS { Plain(S), For(&'static str, Vec<E>, Vec<FS>) }

fn fs_src(fs: &[FS], o: &mut String) {
    for f in fs {
        match f {
            FS::Plain(st) => {
                let mut t = String::new();
                src_blk(&Blk { stmts: vec![st.clone()], last: None }, &mut t);
                let t = t.trim();
                o.push_str(t[1..t.len() - 1].trim());
                o.push(' ');
            }
            FS::For(x, elems, body) => {
                o.push_str(&format!("for {x} in ["));
                for (i, e) in elems.iter().enumerate() { if i > 0 { o.push_str(", "); } src_expr(e, o); }
                o.push_str("] { ");
                fs_src(body, o);
                o.push_str("} ");
            }
        }
    }
}

fn fs_spec(fs: &[FS], n: &mut usize) -> Vec<S> {
    let t = STy::I32;
    let mut out = vec![];
    for f in fs {
        match f {
            FS::Plain(st) => out.push(st.clone()),
            FS::For(x, elems, body) => {
                let id = *n;
                *n += 1;
                for (i, e) in elems.iter().enumerate() { out.push(S::Let(format!("l{id}_{i}"), t, false, e.clone())); }
                for i in 0..elems.len() {
                    let mut st = vec![S::Let(x.to_string(), t, false, var(&format!("l{id}_{i}"), t))];
                    st.extend(fs_spec(body, n));
                    out.push(S::Do(E::Block(blk(st, None))));
                }
            }
        }
    }
    out
}

pub fn for_corpus() -> Vec<Rep> {
    let t = STy::I32;
    let v = |x: &str| var(x, t);
    let n = |k: u64| lit(t, k);
    use Op::*;
    let acc = |x: E| FS::Plain(S::Do(set("s", bin(Add, bin(Mul, v("s"), n(3)), x))));
    let s0 = || FS::Plain(S::Let("s".into(), t, false, n(0)));
    let twice = func("twice", &[("x", t)], t, val(bin(Add, v("x"), v("x"))));
    let shapes: Vec<(&str, Vec<FS>, E)> = vec![
        ("sum", vec![s0(), FS::For("x", vec![v("a"), v("b"), v("c")], vec![FS::Plain(S::Do(set("s", bin(Add, v("s"), v("x")))))])], v("s")),
        ("order", vec![s0(), FS::For("x", vec![v("a"), v("b"), v("c")], vec![acc(v("x"))])], v("s")),
        ("one-element", vec![s0(), FS::For("x", vec![v("b")], vec![acc(v("x"))])], v("s")),
        ("element-expressions", vec![s0(), FS::For("x", vec![bin(Add, v("a"), v("b")), bin(Mul, v("b"), v("c")), bin(Sub, v("c"), v("a")), n(7)], vec![acc(v("x"))])], v("s")),
        ("list-evaluated-before-the-loop", vec![s0(), FS::For("x", vec![v("a"), v("a"), v("b")], vec![
            FS::Plain(S::Do(set("a", bin(Add, v("a"), n(1))))), FS::Plain(S::Do(set("b", bin(Mul, v("b"), n(2))))), acc(v("x"))])], bin(Add, v("s"), bin(Sub, v("a"), v("b")))),
        ("assign-to-loop-variable", vec![s0(), FS::For("x", vec![v("a"), v("b"), v("c")], vec![FS::Plain(S::Do(set("x", bin(Add, v("x"), n(1))))), acc(v("x"))])], v("s")),
        ("early-return", vec![s0(), FS::For("x", vec![v("a"), v("b"), v("c")], vec![
            FS::Plain(S::Do(E::If(Box::new(bin(Eq, v("x"), v("b"))), blk(vec![S::Do(E::Ret(Box::new(bin(Add, bin(Mul, v("s"), n(5)), v("x")))))], None), None))),
            acc(v("x"))])], bin(Sub, v("s"), n(1))),
        ("nested", vec![s0(), FS::For("x", vec![v("a"), v("b")], vec![FS::For("y", vec![v("b"), v("c"), v("x")], vec![acc(bin(Sub, v("x"), v("y")))])])], v("s")),
        ("loop-variable-shadows", vec![s0(), FS::Plain(S::Let("x".into(), t, false, n(7))), FS::For("x", vec![v("a"), v("b")], vec![acc(v("x"))])], bin(Add, bin(Mul, v("s"), n(3)), v("x"))),
        ("same-variable-in-nested-loops", vec![s0(), FS::For("x", vec![v("a"), v("b")], vec![FS::For("x", vec![v("c"), v("x")], vec![acc(v("x"))]), acc(v("x"))])], v("s")),
        ("call-in-body", vec![s0(), FS::For("x", vec![v("a"), v("b"), v("c")], vec![acc(E::Call("twice".into(), vec![v("x")], t))])], v("s")),
        ("two-loops", vec![s0(), FS::For("x", vec![v("a"), v("b")], vec![acc(v("x"))]), FS::For("y", vec![v("c"), v("s")], vec![acc(v("y"))])], v("s")),
        ("let-in-body", vec![s0(), FS::For("x", vec![v("a"), v("b"), v("c")], vec![FS::Plain(S::Let("d".into(), t, false, bin(Sub, v("x"), v("s")))), acc(v("d"))])], v("s")),
    ];
    let bd: [u64; 6] = [0, 1, 2, 0xFFFF_FFFF, 0x7FFF_FFFF, 0x8000_0000];
    let mut args = vec![];
    for a in bd { for b in bd { for c in bd { args.push(vec![a, b, c]); } } }
    let mut out = vec![];
    for (name, fs, last) in shapes {
        let mut k = 0;
        let main = func("main", &[("a", t), ("b", t), ("c", t)], t, blk(fs_spec(&fs, &mut k), Some(last.clone())));
        let prog = Prog { enums: vec![], fns: vec![twice.clone(), main] };
        // the source: the helper as printed, `main` with the loops
        let helper_only = source(&Prog { enums: vec![], fns: vec![twice.clone(), func("main", &[("a", t), ("b", t), ("c", t)], t, val(n(0)))] });
        let cut = helper_only.find("fn main").expect("main printed");
        let mut src = helper_only[..cut].to_string();
        src.push_str("fn main(a: i32, b: i32, c: i32) -> i32 { ");
        fs_src(&fs, &mut src);
        src_expr(&last, &mut src);
        src.push_str(" }\n");
        out.push(Rep { name: format!("for/{name}"), key: format!("for-loop {name}"), prog, ty: t, ret: t, args: args.clone(), src: Some(src) });
    }
    out
}
