//! Unicode-property argument classes for the built-ins whose documented
//! meaning is driven by a per-code-point Unicode property (case mappings for
//! `to_lowercase` / `to_uppercase`, `White_Space` for `trim*`).
//!
//! Nothing here is transcribed from a Unicode table: the classes are computed
//! at start-up from std itself by scanning every code point and grouping them
//! by *signature* (which derived properties the char has, whether and how each
//! mapping changes it, whether the mapping expands to several chars, whether
//! its UTF-8 length shrinks or grows).  One signature = one argument class;
//! the first two and the last code point of each class are its representatives.

use std::collections::BTreeMap;

fn delta(from: usize, to: usize) -> &'static str {
    if to < from {
        "shrinks"
    } else if to > from {
        "grows"
    } else {
        "samelen"
    }
}

fn mapping_class(c: char, m: &[char]) -> String {
    if m.len() == 1 && m[0] == c {
        return "id".into();
    }
    let bytes: usize = m.iter().map(|x| x.len_utf8()).sum();
    format!("{}ch-{}", m.len(), delta(c.len_utf8(), bytes))
}

/// Uppercase / Lowercase derived property, or — for a char with neither —
/// whether it nevertheless has a case mapping (title-case letters).
pub fn case_kind(c: char) -> &'static str {
    match (c.is_uppercase(), c.is_lowercase()) {
        (true, true) => "upper+lower",
        (true, false) => "upper",
        (false, true) => "lower",
        (false, false) => {
            if c.to_lowercase().ne([c]) || c.to_uppercase().ne([c]) {
                "titlecase"
            } else {
                "uncased"
            }
        }
    }
}

pub fn case_signature(c: char) -> String {
    let lo: Vec<char> = c.to_lowercase().collect();
    let up: Vec<char> = c.to_uppercase().collect();
    format!("{} utf8len{} lower:{} upper:{}", case_kind(c), c.len_utf8(), mapping_class(c, &lo), mapping_class(c, &up))
}

/// representatives of every case-mapping signature (first two and last code point of each)
pub fn case_reps() -> Vec<(String, char)> {
    let mut by_sig: BTreeMap<String, Vec<char>> = BTreeMap::new();
    for cp in 0..=0x10ffffu32 {
        let Some(c) = char::from_u32(cp) else { continue };
        let v = by_sig.entry(case_signature(c)).or_default();
        if v.len() < 2 {
            v.push(c);
        } else if v.len() == 2 {
            v.push(c);
        } else {
            v[2] = c;
        }
    }
    let mut out = vec![];
    for (sig, cs) in by_sig {
        for c in cs {
            out.push((sig.clone(), c));
        }
    }
    out
}

/// strings whose case conversion depends on the context of a letter (final sigma)
pub const CONTEXT_CASE: &[&str] = &[
    "Σ", "ΑΣ", "ΑΣΑ", "ΑΣ.", "Α.Σ", "Σ Σ", "ΑΣ\u{301}", "Α\u{301}Σ", "aΣ", "ΣΑ", "ΑΣ1", "ΑΣ ΑΣ", "Σ\u{345}", "İ\u{307}", "i\u{307}",
    "ǅ", "1 ǅ 2", "ǈubav", "ᾈ", "ﬁn", "ŉ", "ß", "ẞ", "ı", "ſ", "\u{212a}", "\u{345}", "Ⓐ", "ⓐ", "Ⅰ", "ª",
];

/// the subject strings of the case-mapping class representatives: each
/// representative alone, between non-letters, after a lower-case and after an
/// upper-case letter, followed by a combining mark, and doubled
pub fn case_strings() -> Vec<String> {
    let mut out: Vec<String> = vec![];
    for (_, c) in case_reps() {
        out.push(c.to_string());
        out.push(format!("1{c}2"));
        out.push(format!("a{c}"));
        out.push(format!("A{c}"));
        out.push(format!("{c}\u{301}"));
        out.push(format!("{c}{c}"));
    }
    out.extend(CONTEXT_CASE.iter().map(|s| s.to_string()));
    out
}

/// the case-related class of a whole string (violation keys of to_lowercase / to_uppercase)
pub fn str_case_class(s: &str) -> String {
    let mut kinds: Vec<&'static str> = s.chars().map(case_kind).filter(|k| *k != "uncased").collect();
    kinds.sort();
    kinds.dedup();
    let expanding = s.chars().any(|c| c.to_lowercase().count() > 1 || c.to_uppercase().count() > 1);
    let relen = s.chars().any(|c| {
        c.to_lowercase().map(|x| x.len_utf8()).sum::<usize>() != c.len_utf8() || c.to_uppercase().map(|x| x.len_utf8()).sum::<usize>() != c.len_utf8()
    });
    format!(
        "case={}{}{}",
        if kinds.is_empty() { "none".to_string() } else { kinds.join("+") },
        if expanding { " expanding" } else { "" },
        if relen { " utf8len-changing" } else { "" }
    )
}

/// code points that look like blanks but are NOT `White_Space`
pub const WS_LOOKALIKES: &[char] = &[
    '\u{200b}', '\u{200c}', '\u{200d}', '\u{2060}', '\u{feff}', '\u{180e}', '\u{1c}', '\u{1f}', '\u{8}', '\u{0}', '\u{ad}', '\u{2800}', '\u{7f}',
];

pub fn ws_kind(c: char) -> &'static str {
    if c.is_whitespace() {
        if c.is_ascii() { "ws-ascii" } else { "ws-unicode" }
    } else if WS_LOOKALIKES.contains(&c) {
        "ws-lookalike"
    } else {
        "non-ws"
    }
}

/// every `White_Space` code point (found by scanning, not transcribed) and every
/// look-alike, at the start, the end, both ends, alone and in the middle
pub fn ws_strings() -> Vec<String> {
    let mut cs: Vec<char> = (0..=0x10ffffu32).filter_map(char::from_u32).filter(|c| c.is_whitespace()).collect();
    cs.extend(WS_LOOKALIKES);
    let mut out = vec![];
    for w in cs {
        out.push(format!("{w}x{w}"));
        out.push(w.to_string());
        out.push(format!("x{w}y"));
        out.push(format!("{w}{w}x"));
        out.push(format!("x {w}"));
        out.push(format!("{w} x"));
    }
    out
}

pub fn str_ws_class(s: &str) -> String {
    let f = s.chars().next().map(ws_kind).unwrap_or("-");
    let l = s.chars().next_back().map(ws_kind).unwrap_or("-");
    format!("first={f} last={l}")
}

/// pairs of strings that a "helpful" comparison would identify but `str` equality / pattern matching does not:
/// canonical equivalence (NFC/NFD), compatibility equivalence, singleton decompositions, case variants
/// (simple, title-case, expanding), invisible characters, and a string vs its own prefix
pub const NEAR_EQUAL: &[(&str, &str)] = &[
    ("é", "e\u{301}"), ("\u{212a}", "K"), ("\u{212b}", "\u{c5}"), ("\u{2126}", "Ω"), ("ß", "ss"), ("ẞ", "ß"), ("ǅ", "ǆ"), ("ǅ", "Ǆ"),
    ("a", "A"), ("ﬁ", "fi"), ("ı", "i"), ("İ", "i\u{307}"), ("σ", "ς"), ("a\u{200b}", "a"), ("a", "a\0"), ("a ", "a\u{a0}"),
    ("\r\n", "\n"), ("ｱ", "ア"), ("１", "1"), ("e\u{301}\u{323}", "e\u{323}\u{301}"), ("", ""), ("x", ""), ("ab", "a"),
];
