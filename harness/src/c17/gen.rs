//! Argument generators: boundary tables first (enumerated by case number),
//! then PRNG-driven; and the argument-class labels used in violation keys.

use crate::args::{A, str_class};
use inetnum::addr::Prefix;
use rotov_harness::Prng;
use std::net::{IpAddr, Ipv4Addr, Ipv6Addr};

#[derive(Clone, Copy, Debug, PartialEq)]
pub enum View {
    Bytes,
    Chars,
    Lines,
}

#[derive(Clone, Debug)]
pub enum G {
    None0,
    S,
    SS,
    SSS,
    SRep,
    SNS,
    Idx(View),
    IJ(View),
    F64x1,
    F64x2,
    F32x1,
    F32x2,
    Int(i128, i128), // min, max of the type
    Bool,
    Char,
    Ip1,
    Ip2,
    IpLen,
    Pfx1,
    Pfx2,
    Asn,
    Lc,
    Buf(&'static str), // template: sequence of 'c' / 's' pushes after the initial string
    BufNew(&'static str),
    BufSeq(&'static str), // operation history (see runners::buf_templates); argument 0 is the template
    Lu,
    LuX,
    LuI,
    LuIJ,
    LuLu,
    LsS,
}

pub const STRS: &[&str] = &[
    "",
    "ab\ncd\n",
    "a\nb",
    "abc",
    "héllo",
    "日本語",
    "a😀b",
    "e\u{301}",
    "ab\r\ncd\r\n",
    "\n",
    "hello world",
    "  Roto!  ",
    "a,b,,c",
    "é",
    "ab\ncd",
    "\n\n",
    "a\n\nb\n\n",
    "x\r",
    "\r\n",
    "a\rb\n",
    "ǅungla ß İstanbul",
    "\u{a0}\u{2003}pad\t\n",
    "😀",
    "1\n2\n3\n4\n",
    "1\n2\n3\n4",
    "é\n日\n😀",
    "LOUD quiet",
    "haystack",
    "In rust we trust",
    "one, two, three",
    "Rust!Roto!String",
    "\r",
    "a\r\n\r\nb",
    "\u{301}\u{301}",
    "ΑΣ ς",
    " \t x \u{3000}",
];

const ALPHABET: &[char] = &[
    'a', 'b', ' ', '\n', '\r', 'é', 'ß', '日', '😀', '\u{301}', '\t', 'A', 'Z', ',', '\u{a0}', 'İ', '!', 'x', '\n', 'Σ',
    // Unicode special-casing classes: title-case digraph, ligature, dotless i, final sigma, Kelvin sign (3 bytes -> 1),
    // U+023A (2 bytes -> 3), U+0149 (expands), ypogegrammeni (Other_Lowercase combining mark), Other_Uppercase numeral,
    // title-case Greek (expands both ways), non-ASCII White_Space and a zero-width look-alike
    'ǅ', 'ﬁ', 'ı', 'ς', '\u{212a}', 'Ⱥ', 'ŉ', '\u{345}', 'Ⅰ', 'ᾈ', '\u{2028}', '\u{200b}', '1',
];

pub const F64S: &[f64] = &[
    0.0, -0.0, 0.5, -0.5, 1.5, -1.5, 2.5, -2.5, 3.5, 0.49999999999999994, -0.49999999999999994,
    5e-324, -5e-324, 2.225073858507201e-308, 2.2250738585072014e-308, 1.0, -1.0, 4.0, 2.0, 10.0,
    4503599627370495.5, 4503599627370496.0, 4503599627370497.0, 9007199254740992.0, -4503599627370495.5,
    f64::MAX, f64::MIN, f64::INFINITY, f64::NEG_INFINITY, f64::NAN, f64::EPSILON, 0.1, 1e15, 1e16, 1e21, 1e-7,
    123456.789, 1e300, -1e-300, 0.3, 8388607.5, 8388608.5, 0.9999999999999999, 1.0000000000000002,
];

pub const F32S: &[f32] = &[
    0.0, -0.0, 0.5, -0.5, 1.5, -1.5, 2.5, -2.5, 0.49999997, -0.49999997, 1e-45, -1e-45, 1.1754942e-38,
    1.1754944e-38, 1.0, -1.0, 4.0, 2.0, 10.0, 8388607.5, 8388608.0, 8388609.0, 16777216.0, -8388607.5,
    f32::MAX, f32::MIN, f32::INFINITY, f32::NEG_INFINITY, f32::NAN, f32::EPSILON, 0.1, 1e15, 1e16, 1e21, 1e-7,
    123456.79, 1e38, -1e-38, 0.3, 0.99999994, 1.0000001, 1e-40,
];

pub const IPS: &[&str] = &[
    "0.0.0.0", "127.0.0.1", "255.255.255.255", "1.1.1.1", "192.168.0.1", "10.0.0.0", "1.2.3.4", "::", "::1",
    "::ffff:1.2.3.4", "::ffff:0.0.0.0", "::ffff:255.255.255.255", "2001:db8::1", "ff02::1", "fe80::1",
    "ffff:ffff:ffff:ffff:ffff:ffff:ffff:ffff", "::1.2.3.4", "64:ff9b::1.2.3.4", "1:2:3:4:5:6:7:8", "0:0:0:0:0:ffff:0:1",
];

pub struct Gen {
    pub p: Prng,
}

/// the fixed corpus: witnesses of the known findings, run first on every run
pub fn corpus() -> Vec<(&'static str, Vec<A>)> {
    vec![
        ("StringLines.get", vec![A::S("ab\ncd\n".into()), A::U(1)]),
        ("StringLines.slice", vec![A::S("".into()), A::U(0), A::U(1)]),
        ("StringLines.slice", vec![A::S("a\nb".into()), A::U(2), A::U(2)]),
    ]
}

/// Class representatives that run FIRST for a built-in, independent of the seed
/// (after the corpus of known witnesses): one subject per argument class that
/// the built-in's documented meaning distinguishes.
pub fn reps(name: &str) -> Vec<Vec<A>> {
    match name {
        // one string per case-mapping signature of std (x context), plus the context-sensitive mappings
        "String.to_lowercase" | "String.to_uppercase" => crate::unicode::case_strings().into_iter().map(|s| vec![A::S(s)]).collect(),
        // every White_Space code point and its look-alikes at both ends
        "String.trim" | "String.trim_start" | "String.trim_end" => crate::unicode::ws_strings().into_iter().map(|s| vec![A::S(s)]).collect(),
        // comparisons are by code point sequence: pairs that are canonically / compatibility / case-insensitively
        // equivalent, or differ by an invisible char, must NOT be identified (both orders, bare and embedded)
        "String.eq" | "String.contains" | "String.starts_with" | "String.ends_with" | "String.strip_prefix" | "String.strip_suffix" | "String.split" => {
            let mut out = vec![];
            for (a, b) in crate::unicode::NEAR_EQUAL {
                for (x, y) in [(a, b), (b, a)] {
                    out.push(vec![A::S(x.to_string()), A::S(y.to_string())]);
                    out.push(vec![A::S(format!("p{x}q{x}")), A::S(y.to_string())]);
                    out.push(vec![A::S(format!("{x}q")), A::S(y.to_string())]);
                    out.push(vec![A::S(format!("p{x}")), A::S(y.to_string())]);
                }
            }
            out
        }
        // IEEE special values x special values: a fast path keyed on one exponent/base value lives in one cell of this grid
        "f64.pow" => {
            let t = FLOAT_GRID;
            t.iter().flat_map(|x| t.iter().map(move |y| vec![A::F64(x.to_bits()), A::F64(y.to_bits())])).collect()
        }
        "f32.pow" => {
            let t = FLOAT_GRID;
            t.iter().flat_map(|x| t.iter().map(move |y| vec![A::F32((*x as f32).to_bits()), A::F32((*y as f32).to_bits())])).collect()
        }
        _ => vec![],
    }
}

/// bases / exponents at which pow has a case of its own in IEEE 754 / C99 (and the usual algebraic shortcuts:
/// 0, 1, -1, 1/2, 2, 3, 1/3, odd/even integers, huge, tiny, infinities, NaN)
const FLOAT_GRID: &[f64] = &[
    0.0, -0.0, 1.0, -1.0, 0.5, -0.5, 2.0, -2.0, 3.0, -3.0, 0.25, 1.5, 1.0 / 3.0, 4.0, 10.0, 1e-300, -1e-300, 1e300, -1e300,
    f64::INFINITY, f64::NEG_INFINITY, f64::NAN, 5e-324, 9007199254740993.0, 0.9999999999999999,
];

fn view_len(v: View, s: &str) -> u64 {
    match v {
        View::Bytes => s.len() as u64,
        View::Chars => s.chars().count() as u64,
        View::Lines => s.lines().count() as u64,
    }
}

fn idx_class(v: View, s: &str, i: u64) -> String {
    let len = view_len(v, s);
    let base = if i >= 1 << 32 {
        "huge"
    } else if i > len + 1 {
        ">len+1"
    } else if i == len + 1 {
        "len+1"
    } else if i == len {
        "len"
    } else if i == 0 {
        "0"
    } else if i + 1 == len {
        "len-1"
    } else {
        "<len"
    };
    if v == View::Bytes && (i as usize) < s.len() && !s.is_char_boundary(i as usize) {
        format!("{base}/mid-code-point")
    } else {
        base.to_string()
    }
}

/// the argument class of a call (the second half of a violation key)
pub fn classify(name: &str, a: &[A]) -> String {
    let view = match name.split('.').next().unwrap_or("") {
        "StringBytes" => Some(View::Bytes),
        "StringChars" => Some(View::Chars),
        "StringLines" => Some(View::Lines),
        _ => None,
    };
    if let (Some(v), Some(A::S(s))) = (view, a.first()) {
        let sc = str_class(s);
        if name == "StringLines.slice" && a.len() == 3 {
            let (i, j) = (a[1].u(), a[2].u());
            let len = view_len(v, s);
            if s.is_empty() && i == 0 && j >= 1 && j <= 1 {
                return "empty-string end>len".into();
            }
            if !s.is_empty() && !s.ends_with('\n') && i == j && i == len {
                return "no-trailing-newline start=end=len".into();
            }
        }
        return match a.len() {
            1 => sc.to_string(),
            // the line view's `get` is a known finding on this tree: one coarse class per index position
            2 if name == "StringLines.get" => format!("idx={}", idx_class(v, s, a[1].u())),
            2 => format!("{sc} idx={}", idx_class(v, s, a[1].u())),
            _ => {
                let (i, j) = (a[1].u(), a[2].u());
                let ord = if i < j { "i<j" } else if i == j { "i=j" } else { "i>j" };
                format!("{sc} {ord} i={} j={}", idx_class(v, s, i), idx_class(v, s, j))
            }
        };
    }
    let mut parts = vec![];
    match name {
        // the documented meaning of these depends on a per-code-point Unicode property only: that is the class
        "String.to_lowercase" | "String.to_uppercase" => return crate::unicode::str_case_class(a[0].s()),
        "String.trim" | "String.trim_start" | "String.trim_end" => return crate::unicode::str_ws_class(a[0].s()),
        // a history: its shape is in the name; the class is what it starts from
        _ if name.contains('#') => return format!("init={}", if a[0].s().starts_with('N') { "new" } else { str_class(a[1].s()) }),
        _ => {}
    }
    for x in a {
        parts.push(match x {
            A::S(s) => str_class(s).to_string(),
            A::U(u) => {
                if *u == 0 { "0".into() } else if *u < 16 { "small".into() } else if *u == u64::MAX { "u64::MAX".into() } else { "big".into() }
            }
            A::I(i) => if *i < 0 { "neg".into() } else if *i == 0 { "0".into() } else { "pos".into() },
            A::F64(b) => crate::args::float_class(f64::from_bits(*b)),
            A::F32(b) => crate::args::float_class(f32::from_bits(*b) as f64),
            A::B(b) => b.to_string(),
            A::C(c) => format!("utf8len{}", c.len_utf8()),
            A::Ip(i) => if i.is_ipv4() { "v4".into() } else { "v6".into() },
            A::Pf(p) => format!("{}{}", if p.is_v4() { "v4/" } else { "v6/" }, match p.len() { 0 => "0", 32 if p.is_v4() => "max", 128 => "max", _ => "mid" }),
            A::Lc(v) => format!("list{}", v.len().min(3)),
            A::Lu(v) => format!("list{}", v.len().min(3)),
            A::Ls(v) => format!("list{}", v.len().min(3)),
        });
    }
    parts.join(" ")
}

impl Gen {
    pub fn new(p: Prng) -> Self {
        Gen { p }
    }

    fn rand_string(&mut self) -> String {
        let n = self.p.below(13);
        (0..n).map(|_| *self.p.pick(ALPHABET)).collect()
    }

    /// subject string for case `k`: the table in order first, then table/random
    fn string(&mut self, k: u64) -> String {
        if (k as usize) < STRS.len() {
            STRS[k as usize].to_string()
        } else if self.p.chance(1, 2) {
            self.p.pick(STRS).to_string()
        } else {
            self.rand_string()
        }
    }

    fn needle(&mut self, s: &str) -> String {
        let chars: Vec<char> = s.chars().collect();
        match self.p.below(10) {
            0 => String::new(),
            1 | 2 if !chars.is_empty() => {
                let a = self.p.below(chars.len() as u64) as usize;
                let b = a + 1 + self.p.below((chars.len() - a) as u64) as usize;
                chars[a..b.min(chars.len())].iter().collect()
            }
            3 if !chars.is_empty() => chars[..1].iter().collect(),
            4 if !chars.is_empty() => chars[chars.len() - 1..].iter().collect(),
            5 => "\n".into(),
            6 => s.to_string(),
            7 => format!("{s}x"),
            8 => (*self.p.pick(&[" ", ",", ", ", "!", "\r\n", "é", "zz", "\u{301}", "rust", "a"])).to_string(),
            _ => self.rand_string().chars().take(2).collect(),
        }
    }

    fn boundary_indices(&mut self, v: View, s: &str) -> Vec<u64> {
        let len = view_len(v, s);
        let mut b = vec![0, 1, 2, len.saturating_sub(1), len, len + 1, len + 2, 1 << 32, u64::MAX - 1, u64::MAX];
        if v != View::Bytes {
            // byte length too: the as-written code mixes the units
            b.push(s.len() as u64);
        }
        if v == View::Bytes {
            for (i, c) in s.char_indices() {
                if c.len_utf8() > 1 {
                    b.push(i as u64 + 1);
                    b.push(i as u64 + c.len_utf8() as u64 - 1);
                    b.push(i as u64);
                }
            }
        }
        b.sort();
        b.dedup();
        b
    }

    fn index(&mut self, v: View, s: &str, k: u64) -> u64 {
        let b = self.boundary_indices(v, s);
        if k < 400 || self.p.chance(3, 4) {
            // walk the boundary set in an order that differs per string
            b[((k / STRS.len() as u64) as usize * 3 + k as usize + self.p.below(2) as usize) % b.len()]
        } else {
            self.p.below(view_len(v, s) + 3)
        }
    }

    fn f64(&mut self, k: u64) -> u64 {
        if (k as usize) < F64S.len() {
            F64S[k as usize].to_bits()
        } else {
            match self.p.below(4) {
                0 => self.p.pick(F64S).to_bits(),
                1 => self.p.next(),
                2 => ((self.p.range(-2000, 2000) as f64) + 0.5).to_bits(),
                _ => (self.p.range(-1_000_000, 1_000_000) as f64 / 64.0).to_bits(),
            }
        }
    }
    fn f32(&mut self, k: u64) -> u32 {
        if (k as usize) < F32S.len() {
            F32S[k as usize].to_bits()
        } else {
            match self.p.below(4) {
                0 => self.p.pick(F32S).to_bits(),
                1 => self.p.next() as u32,
                2 => ((self.p.range(-2000, 2000) as f32) + 0.5).to_bits(),
                _ => (self.p.range(-1_000_000, 1_000_000) as f32 / 64.0).to_bits(),
            }
        }
    }

    fn ip(&mut self, k: u64) -> IpAddr {
        if (k as usize) < IPS.len() {
            IPS[k as usize].parse().unwrap()
        } else {
            match self.p.below(4) {
                0 => self.p.pick(IPS).parse().unwrap(),
                1 => IpAddr::V4(Ipv4Addr::from(self.p.next() as u32)),
                2 => IpAddr::V6(Ipv6Addr::from(((self.p.next() as u128) << 64) | self.p.next() as u128)),
                _ => IpAddr::V6(Ipv4Addr::from(self.p.next() as u32).to_ipv6_mapped()),
            }
        }
    }

    fn prefix(&mut self, k: u64) -> Prefix {
        let ip = self.ip(k);
        let max = if ip.is_ipv4() { 32 } else { 128 };
        let len = match k % 5 {
            0 => 0,
            1 => max,
            2 => max - 1,
            3 => 1,
            _ => self.p.below(max as u64 + 1) as u8,
        };
        Prefix::new_relaxed(ip, len).unwrap()
    }

    fn ulist(&mut self, k: u64) -> Vec<u64> {
        let n = match k {
            0 => 0,
            1 => 1,
            _ => self.p.below(7),
        };
        (0..n).map(|_| if self.p.chance(1, 8) { u64::MAX } else { self.p.below(4) }).collect()
    }

    pub fn args(&mut self, g: &G, k: u64) -> Vec<A> {
        match g {
            G::None0 => vec![],
            G::S => vec![A::S(self.string(k))],
            G::SS => {
                let s = self.string(k);
                let n = if k == 0 { String::new() } else { self.needle(&s) };
                vec![A::S(s), A::S(n)]
            }
            G::SSS => {
                let s = self.string(k);
                let n = self.needle(&s);
                let t = self.needle(&s);
                vec![A::S(s), A::S(n), A::S(t)]
            }
            G::SRep => {
                let s = self.string(k);
                vec![A::S(s), A::U((k / 3) % 9)]
            }
            G::SNS => {
                let s = self.string(k);
                let sep = self.needle(&s);
                let cnt = (s.matches(if sep.is_empty() { "\u{0}" } else { sep.as_str() }).count() + 1) as u64;
                let ns = [0, 1, 2, 3, cnt.saturating_sub(1), cnt, cnt + 1, u64::MAX, 1 << 32];
                vec![A::S(s), A::U(ns[(k as usize + (k as usize / 9)) % ns.len()]), A::S(sep)]
            }
            G::Idx(v) => {
                let s = self.string(k % (STRS.len() as u64 + 12));
                let i = self.index(*v, &s, k);
                vec![A::S(s), A::U(i)]
            }
            G::IJ(v) => {
                let s = self.string(k % (STRS.len() as u64 + 12));
                let i = self.index(*v, &s, k);
                let j = self.index(*v, &s, k.wrapping_mul(7) + 3);
                // mostly i <= j
                let (i, j) = if i > j && self.p.chance(2, 3) { (j, i) } else { (i, j) };
                vec![A::S(s), A::U(i), A::U(j)]
            }
            G::F64x1 => vec![A::F64(self.f64(k))],
            G::F64x2 => {
                let n = F64S.len() as u64;
                vec![A::F64(self.f64(k % (n + 20))), A::F64(self.f64((k / 3 + k * 5) % (n + 20)))]
            }
            G::F32x1 => vec![A::F32(self.f32(k))],
            G::F32x2 => {
                let n = F32S.len() as u64;
                vec![A::F32(self.f32(k % (n + 20))), A::F32(self.f32((k / 3 + k * 5) % (n + 20)))]
            }
            G::Int(min, max) => {
                let mut t: Vec<i128> = vec![*min, min + 1, -1, 0, 1, 9, 10, 99, 100, 999, 1000, max - 1, *max, max / 2, max / 10, min / 10];
                let mut p10: i128 = 1;
                while p10 <= *max {
                    t.push(p10);
                    t.push(p10 - 1);
                    t.push(-p10);
                    p10 *= 10;
                }
                t.retain(|x| x >= min && x <= max);
                let v = if (k as usize) < t.len() {
                    t[k as usize]
                } else {
                    let span = (*max - *min) as u128 + 1;
                    let r = ((self.p.next() as u128) << 64 | self.p.next() as u128) % span;
                    *min + r as i128
                };
                if v < 0 { vec![A::I(v as i64)] } else { vec![A::U(v as u64)] }
            }
            G::Bool => vec![A::B(k % 2 == 0)],
            G::Char => {
                let t = ['a', 'Z', '0', ' ', '\0', '\n', '\r', '\t', '"', '\'', '\\', 'é', 'ß', '日', '😀', '\u{301}', '\u{10ffff}', '\u{d7ff}', '\u{e000}', '\u{7f}', '\u{80}', '\u{7ff}', '\u{800}', '\u{ffff}', '\u{10000}'];
                let c = if (k as usize) < t.len() {
                    t[k as usize]
                } else {
                    loop {
                        if let Some(c) = char::from_u32(self.p.below(0x110000) as u32) {
                            break c;
                        }
                    }
                };
                vec![A::C(c)]
            }
            G::Ip1 => vec![A::Ip(self.ip(k))],
            G::Ip2 => {
                let a = self.ip(k);
                let b = if k % 3 == 0 { a } else { self.ip((k * 7 + 1) % (IPS.len() as u64 + 10)) };
                vec![A::Ip(a), A::Ip(b)]
            }
            G::IpLen => {
                let ip = self.ip(k);
                let max: u64 = if ip.is_ipv4() { 32 } else { 128 };
                let lens = [0, 1, 7, 8, 9, 16, 24, 31, 32, max - 1, max, max / 2];
                let mut len = lens[(k as usize + k as usize / 20) % lens.len()];
                if len > max {
                    len = max;
                }
                if k > 40 && self.p.chance(1, 2) {
                    len = self.p.below(max + 1);
                }
                vec![A::Ip(ip), A::U(len)]
            }
            G::Pfx1 => vec![A::Pf(self.prefix(k))],
            G::Pfx2 => {
                let a = self.prefix(k);
                let b = if k % 3 == 0 { a } else { self.prefix(k * 3 + 1) };
                vec![A::Pf(a), A::Pf(b)]
            }
            G::Asn => {
                let t = [0u64, 1, 65535, 65536, 4294967295, 4294967294, 64512, 23456];
                vec![A::U(if (k as usize) < t.len() { t[k as usize] } else { self.p.next() as u32 as u64 })]
            }
            G::Lc => {
                let s = self.string(k);
                vec![A::Lc(s.chars().collect())]
            }
            G::Buf(t) | G::BufNew(t) => {
                let mut v = vec![];
                if matches!(g, G::Buf(_)) {
                    v.push(A::S(self.string(k)));
                }
                for (i, op) in t.chars().enumerate() {
                    match op {
                        'c' => {
                            let s = self.string(k + 5 + i as u64);
                            v.push(A::C(s.chars().next().unwrap_or('\u{301}')));
                        }
                        _ => v.push(A::S(self.string(k * 3 + 7 + i as u64))),
                    }
                }
                v
            }
            G::BufSeq(t) => {
                let cs = ['x', 'é', '😀', '\u{301}', '\n', ',', '日', 'ǅ'];
                let a = self.string(k);
                let c1 = cs[(k as usize) % cs.len()];
                let c2 = cs[(k as usize / 2 + 3) % cs.len()];
                // short, distinguishable pushes (an empty one every fifth case)
                let s1 = if k % 5 == 4 { String::new() } else { self.string(k * 3 + 7) };
                let s2 = if k % 7 == 6 { String::new() } else { self.rand_string() };
                vec![A::S(t.to_string()), A::S(a), A::C(c1), A::C(c2), A::S(s1), A::S(s2)]
            }
            G::Lu => vec![A::Lu(self.ulist(k))],
            G::LuX => {
                let l = self.ulist(k);
                let x = if !l.is_empty() && self.p.chance(2, 3) { *self.p.pick(&l) } else { self.p.below(6) };
                vec![A::Lu(l), A::U(x)]
            }
            G::LuI => {
                let l = self.ulist(k);
                let n = l.len() as u64;
                let t = [0, 1, n.saturating_sub(1), n, n + 1, u64::MAX, 1 << 32, 2];
                let i = t[(k as usize + k as usize / 8) % t.len()];
                vec![A::Lu(l), A::U(i)]
            }
            G::LuIJ => {
                let l = self.ulist(k);
                let n = l.len() as u64;
                let t = [0, 1, n.saturating_sub(1), n, n + 1, u64::MAX, 1 << 32];
                let i = t[(k as usize) % t.len()];
                let j = t[(k as usize / t.len() + k as usize * 3) % t.len()];
                vec![A::Lu(l), A::U(i), A::U(j)]
            }
            G::LuLu => vec![A::Lu(self.ulist(k)), A::Lu(self.ulist(k / 2 + 1))],
            G::LsS => {
                let n = match k {
                    0 => 0,
                    1 => 1,
                    _ => self.p.below(5),
                };
                let l: Vec<String> = (0..n).map(|i| self.string(k * 5 + i)).collect();
                let sep = if k % 4 == 0 { String::new() } else { self.needle(", ") };
                vec![A::Ls(l), A::S(sep)]
            }
        }
    }
}
