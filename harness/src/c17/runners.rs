//! One runner per built-in registered in src/runtime/basic.rs: the script body
//! that applies it, its typed signature, an argument generator and the ORACLE —
//! the documented meaning, computed with Rust std / inetnum only (never with
//! roto's own string types).

use crate::args::*;
use crate::gen_::{G, View};
use inetnum::addr::Prefix;
use std::net::{IpAddr, Ipv4Addr, Ipv6Addr};

pub type Callable = Box<dyn Fn(&[A]) -> String>;

pub struct Runner {
    pub name: &'static str,
    pub params: Vec<(String, String)>,
    pub ret: String,
    pub body: &'static str,
    pub make: fn(&mut roto::Package<roto::NoCtx>, &str) -> Result<Callable, String>,
    pub oracle: fn(&[A]) -> String,
    pub gen_: G,
}

macro_rules! r {
    ($v:ident, $name:expr, ($($p:ident : $t:ty),*) -> $ret:ty, $body:expr, $gen:expr, $oracle:expr) => {
        $v.push(Runner {
            name: $name,
            params: vec![$((stringify!($p).to_string(), <$t as T>::n())),*],
            ret: <$ret as T>::n(),
            body: $body,
            make: |pkg, fname| {
                let f = pkg
                    .get_function::<fn($(<$t as T>::R),*) -> <$ret as T>::R>(fname)
                    .map_err(|e| format!("{e:?}"))?;
                Ok(Box::new(move |args: &[A]| {
                    let mut it = args.iter();
                    let _ = &mut it;
                    <$ret as T>::cr(f.call($(<$t as T>::r(it.next().unwrap())),*))
                }))
            },
            oracle: |args| {
                let mut it = args.iter();
                let _ = &mut it;
                $(let $p = <$t as T>::h(it.next().unwrap());)*
                <$ret as T>::ch($oracle)
            },
            gen_: $gen,
        });
    };
}

/// `StringLines.get` is typed `char?` on this tree while its documentation
/// promises the n-th line: compare as text.
pub struct LineAsText;
impl T for LineAsText {
    type R = Option<char>;
    type H = Option<String>;
    fn n() -> String { "char?".into() }
    fn h(_: &A) -> Self::H { unreachable!() }
    fn r(_: &A) -> Self::R { unreachable!() }
    fn cr(r: Self::R) -> String { match r { None => "None".into(), Some(c) => format!("Some({:?})", c.to_string()) } }
    fn ch(h: Self::H) -> String { match h { None => "None".into(), Some(s) => format!("Some({s:?})") } }
}

fn v(s: std::str::Split<'_, &str>) -> Vec<String> { s.map(String::from).collect() }

fn chars_slice(s: &str, i: u64, j: u64) -> Option<String> {
    let n = s.chars().count() as u64;
    if i <= j && j <= n { Some(s.chars().skip(i as usize).take((j - i) as usize).collect()) } else { None }
}
fn bytes_get(s: &str, i: u64) -> Option<char> {
    s.char_indices().find(|(b, _)| *b as u64 == i).map(|(_, c)| c)
}
fn bytes_slice(s: &str, i: u64, j: u64) -> Option<String> {
    let n = s.len() as u64;
    if i <= j && j <= n && s.is_char_boundary(i as usize) && s.is_char_boundary(j as usize) {
        Some(s[i as usize..j as usize].to_string())
    } else {
        None
    }
}
fn lines_slice(s: &str, i: u64, j: u64) -> Option<String> {
    let n = s.lines().count() as u64;
    if i <= j && j <= n {
        Some(s.split_inclusive('\n').skip(i as usize).take((j - i) as usize).collect())
    } else {
        None
    }
}
fn macro_rules_float() {}

/// Operation histories on ONE StringBuf (and an alias `b2` of it). Letters:
/// `c`/`s`/`R` = push_char / push_string / as_string through `b`,
/// `C`/`S`/`r` = the same through the alias; a leading `N` starts from
/// `StringBuf.new()` instead of `StringBuf.from(a)`. Every history ends with a
/// read; EVERY read is observed. All histories of up to 4 operations over
/// {c, s, R} (each history shape is a class of its own), then a fixed
/// pseudo-random set of longer ones with aliases.
pub fn buf_templates() -> Vec<String> {
    let mut out: Vec<String> = vec![];
    let mut layer: Vec<String> = vec![String::new()];
    for _ in 0..4 {
        let mut next = vec![];
        for p in &layer {
            for op in ['c', 's', 'R'] {
                next.push(format!("{p}{op}"));
            }
        }
        out.extend(next.iter().cloned());
        layer = next;
    }
    let mut p = rotov_harness::Prng::new(0xC17_B0F);
    let ops = ['c', 's', 'R', 'C', 'S', 'r', 'R', 'c'];
    for i in 0..48u64 {
        let n = 4 + p.below(7);
        let mut t = if i % 4 == 3 { "N".to_string() } else { String::new() };
        for _ in 0..n {
            t.push(*p.pick(&ops));
        }
        if !out.contains(&t) {
            out.push(t);
        }
    }
    out
}

pub fn buf_script(t: &str) -> String {
    let init = if t.starts_with('N') { "StringBuf.new()" } else { "StringBuf.from(a)" };
    let mut src = format!("let b = {init}; let b2 = b; let out: List[String] = List.new(); ");
    let (mut nc, mut ns) = (0, 0);
    for op in t.chars() {
        let h = if matches!(op, 'c' | 's' | 'R') { "b" } else { "b2" };
        match op {
            'c' | 'C' => {
                src.push_str(&format!("{h}.push_char(c{}); ", nc % 2 + 1));
                nc += 1;
            }
            's' | 'S' => {
                src.push_str(&format!("{h}.push_string(s{}); ", ns % 2 + 1));
                ns += 1;
            }
            'R' | 'r' => src.push_str(&format!("out.push({h}.as_string()); ")),
            _ => {}
        }
    }
    src.push_str("out.push(b.as_string()); out");
    src
}

/// the pushes/reads of a template with the concrete arguments filled in
pub enum BufEv {
    C(char),
    S(String),
    Read,
}
pub fn buf_events(t: &str, cs: [char; 2], ss: [&str; 2]) -> Vec<BufEv> {
    let (mut nc, mut ns) = (0, 0);
    let mut ev = vec![];
    for op in t.chars() {
        match op {
            'c' | 'C' => {
                ev.push(BufEv::C(cs[nc % 2]));
                nc += 1;
            }
            's' | 'S' => {
                ev.push(BufEv::S(ss[ns % 2].to_string()));
                ns += 1;
            }
            'R' | 'r' => ev.push(BufEv::Read),
            _ => {}
        }
    }
    ev.push(BufEv::Read);
    ev
}

/// violation key of a failing history: what was pushed between the previous
/// read and the FIRST wrong read (so that one defect is one key, not one per history)
pub fn buf_diagnose(args: &[A], got: &str) -> String {
    let t = args[0].s();
    let want = buf_oracle(t, args[1].s(), [args[2].c(), args[3].c()], [args[4].s(), args[5].s()]);
    let mut prefix = String::from("[");
    let mut first_wrong = want.len();
    for (k, w) in want.iter().enumerate() {
        if k > 0 {
            prefix.push_str(", ");
        }
        prefix.push_str(&format!("{w:?}"));
        if !got.starts_with(&prefix) {
            first_wrong = k;
            break;
        }
    }
    let (mut reads, mut seg, mut any_read) = (0usize, std::collections::BTreeSet::new(), false);
    for op in t.chars().chain(std::iter::once('R')) {
        match op {
            'R' | 'r' => {
                if reads == first_wrong {
                    break;
                }
                reads += 1;
                any_read = true;
                seg.clear();
            }
            'c' | 'C' => {
                seg.insert("push_char");
            }
            's' | 'S' => {
                seg.insert("push_string");
            }
            _ => {}
        }
    }
    let since = if any_read { "since-previous-read" } else { "before-first-read" };
    let what = if seg.is_empty() { "nothing".to_string() } else { seg.into_iter().collect::<Vec<_>>().join("+") };
    let alias = if t.chars().any(|c| matches!(c, 'C' | 'S' | 'r')) { " aliased" } else { "" };
    format!("first-wrong-read pushed={what} {since}{alias} init={}", if t.starts_with('N') { "new" } else { "from" })
}

/// documented meaning: every read returns the initial contents followed by everything pushed before it
fn buf_oracle(t: &str, a: &str, cs: [char; 2], ss: [&str; 2]) -> Vec<String> {
    let mut acc = if t.starts_with('N') { String::new() } else { a.to_string() };
    let mut out = vec![];
    for e in buf_events(t, cs, ss) {
        match e {
            BufEv::C(c) => acc.push(c),
            BufEv::S(s) => acc.push_str(&s),
            BufEv::Read => out.push(acc.clone()),
        }
    }
    out
}

macro_rules! float_runners {
    ($v:ident, $tag:ident, $g1:expr, $g2:expr, $pre:literal) => {
        r!($v, concat!($pre, ".floor"), (x: $tag) -> $tag, "x.floor()", $g1, x.floor());
        r!($v, concat!($pre, ".ceil"), (x: $tag) -> $tag, "x.ceil()", $g1, x.ceil());
        r!($v, concat!($pre, ".round"), (x: $tag) -> $tag, "x.round()", $g1, x.round());
        r!($v, concat!($pre, ".abs"), (x: $tag) -> $tag, "x.abs()", $g1, x.abs());
        r!($v, concat!($pre, ".sqrt"), (x: $tag) -> $tag, "x.sqrt()", $g1, x.sqrt());
        r!($v, concat!($pre, ".pow"), (x: $tag, y: $tag) -> $tag, "x.pow(y)", $g2, x.powf(y));
        r!($v, concat!($pre, ".is_nan"), (x: $tag) -> B, "x.is_nan()", $g1, x.is_nan());
        r!($v, concat!($pre, ".is_infinite"), (x: $tag) -> B, "x.is_infinite()", $g1, x.is_infinite());
        r!($v, concat!($pre, ".is_finite"), (x: $tag) -> B, "x.is_finite()", $g1, x.is_finite());
        r!($v, concat!($pre, ".to_string"), (x: $tag) -> S, "x.to_string()", $g1, format!("{}", x));
    };
}

pub fn runners() -> Vec<Runner> {
    let _ = macro_rules_float;
    let mut v_: Vec<Runner> = vec![];

    // ---- String ---------------------------------------------------------
    r!(v_, "String.from_chars", (l: L<C>) -> S, "String.from_chars(l)", G::Lc, l.into_iter().collect::<String>());
    r!(v_, "String.append", (a: S, b: S) -> S, "a.append(b)", G::SS, { let mut o = a.clone(); o.push_str(&b); o });
    r!(v_, "String.contains", (a: S, b: S) -> B, "a.contains(b)", G::SS, a.contains(b.as_str()));
    r!(v_, "String.starts_with", (a: S, b: S) -> B, "a.starts_with(b)", G::SS, a.starts_with(b.as_str()));
    r!(v_, "String.ends_with", (a: S, b: S) -> B, "a.ends_with(b)", G::SS, a.ends_with(b.as_str()));
    r!(v_, "String.to_lowercase", (a: S) -> S, "a.to_lowercase()", G::S, a.to_lowercase());
    r!(v_, "String.to_uppercase", (a: S) -> S, "a.to_uppercase()", G::S, a.to_uppercase());
    r!(v_, "String.repeat", (a: S, n: U) -> S, "a.repeat(n)", G::SRep, a.repeat(n as usize));
    r!(v_, "String.eq", (a: S, b: S) -> B, "a.eq(b)", G::SS, a == b);
    r!(v_, "String.replace", (a: S, b: S, c: S) -> S, "a.replace(b, c)", G::SSS, a.replace(b.as_str(), c.as_str()));
    r!(v_, "String.split", (a: S, b: S) -> L<S>, "a.split(b)", G::SS, v(a.split(b.as_str())));
    r!(v_, "String.bytes", (a: S) -> L<U8>, "a.bytes().list()", G::S, a.bytes().collect::<Vec<u8>>());
    r!(v_, "String.chars", (a: S) -> L<C>, "a.chars().list()", G::S, a.chars().collect::<Vec<char>>());
    r!(v_, "String.lines", (a: S) -> L<S>, "a.lines().list()", G::S, a.lines().map(String::from).collect::<Vec<_>>());
    r!(v_, "String.trim", (a: S) -> S, "a.trim()", G::S, a.trim().to_string());
    r!(v_, "String.trim_start", (a: S) -> S, "a.trim_start()", G::S, a.trim_start().to_string());
    r!(v_, "String.trim_end", (a: S) -> S, "a.trim_end()", G::S, a.trim_end().to_string());
    r!(v_, "String.strip_prefix", (a: S, b: S) -> Opt<S>, "a.strip_prefix(b)", G::SS, a.strip_prefix(b.as_str()).map(String::from));
    r!(v_, "String.strip_suffix", (a: S, b: S) -> Opt<S>, "a.strip_suffix(b)", G::SS, a.strip_suffix(b.as_str()).map(String::from));
    r!(v_, "String.splitn", (a: S, n: U, b: S) -> L<S>, "a.splitn(n, b)", G::SNS, a.splitn(n as usize, b.as_str()).map(String::from).collect::<Vec<_>>());
    r!(v_, "String.rsplitn", (a: S, n: U, b: S) -> L<S>, "a.rsplitn(n, b)", G::SNS, a.rsplitn(n as usize, b.as_str()).map(String::from).collect::<Vec<_>>());
    r!(v_, "String.to_string", (a: S) -> S, "a.to_string()", G::S, a);

    // ---- views ------------------------------------------------------------
    r!(v_, "StringBytes.len", (a: S) -> U, "a.bytes().len()", G::S, a.len() as u64);
    r!(v_, "StringBytes.get", (a: S, i: U) -> Opt<C>, "a.bytes().get(i)", G::Idx(View::Bytes), bytes_get(&a, i));
    r!(v_, "StringBytes.slice", (a: S, i: U, j: U) -> Opt<S>, "a.bytes().slice(i, j)", G::IJ(View::Bytes), bytes_slice(&a, i, j));
    r!(v_, "StringBytes.list", (a: S) -> L<U8>, "a.bytes().list()", G::S, a.as_bytes().to_vec());
    r!(v_, "StringChars.len", (a: S) -> U, "a.chars().len()", G::S, a.chars().count() as u64);
    r!(v_, "StringChars.get", (a: S, i: U) -> Opt<C>, "a.chars().get(i)", G::Idx(View::Chars), a.chars().nth(i as usize));
    r!(v_, "StringChars.slice", (a: S, i: U, j: U) -> Opt<S>, "a.chars().slice(i, j)", G::IJ(View::Chars), chars_slice(&a, i, j));
    r!(v_, "StringChars.list", (a: S) -> L<C>, "a.chars().list()", G::S, a.chars().collect::<Vec<char>>());
    r!(v_, "StringLines.len", (a: S) -> U, "a.lines().len()", G::S, a.lines().count() as u64);
    r!(v_, "StringLines.get", (a: S, i: U) -> LineAsText, "a.lines().get(i)", G::Idx(View::Lines), a.lines().nth(i as usize).map(String::from));
    r!(v_, "StringLines.slice", (a: S, i: U, j: U) -> Opt<S>, "a.lines().slice(i, j)", G::IJ(View::Lines), lines_slice(&a, i, j));
    r!(v_, "StringLines.list", (a: S) -> L<S>, "a.lines().list()", G::S, a.lines().map(String::from).collect::<Vec<_>>());

    // ---- StringBuf (templates; every argument after the first is one push) --
    r!(v_, "StringBuf.new", (c1: C, s2: S) -> S,
        "let b = StringBuf.new(); b.push_char(c1); b.push_string(s2); b.as_string()", G::BufNew("cs"),
        { let mut o = String::new(); o.push(c1); o.push_str(&s2); o });
    r!(v_, "StringBuf.from", (a: S) -> S, "StringBuf.from(a).as_string()", G::Buf(""), a);
    r!(v_, "StringBuf.push_char", (a: S, c1: C, c2: C, c3: C) -> S,
        "let b = StringBuf.from(a); b.push_char(c1); b.push_char(c2); b.push_char(c3); b.as_string()", G::Buf("ccc"),
        { let mut o = a.clone(); o.push(c1); o.push(c2); o.push(c3); o });
    r!(v_, "StringBuf.push_string", (a: S, s1: S, s2: S, s3: S) -> S,
        "let b = StringBuf.from(a); b.push_string(s1); b.push_string(s2); b.push_string(s3); b.as_string()", G::Buf("sss"),
        { let mut o = a.clone(); o.push_str(&s1); o.push_str(&s2); o.push_str(&s3); o });
    r!(v_, "StringBuf.as_string", (a: S, c1: C, s2: S, c3: C, s4: S) -> S,
        "let b = StringBuf.from(a); let b2 = b; b2.push_char(c1); b.push_string(s2); let x = b.as_string(); b2.push_char(c3); b.push_string(s4); if x == a.append(c1.to_string()).append(s2) { b2.as_string() } else { \"intermediate as_string wrong: \".append(x) }",
        G::Buf("cscs"),
        { let mut o = a.clone(); o.push(c1); o.push_str(&s2); o.push(c3); o.push_str(&s4); o });

    // ---- StringBuf histories: pushes and READS interleaved, through the handle and through an alias ----
    // (argument 0 is the template itself; the script ignores it, the oracle and the Lean model interpret it)
    for t in buf_templates() {
        let name: &'static str = Box::leak(format!("StringBuf.as_string#{t}").into_boxed_str());
        let body: &'static str = Box::leak(buf_script(&t).into_boxed_str());
        r!(v_, name, (t: S, a: S, c1: C, c2: C, s1: S, s2: S) -> L<S>, body, G::BufSeq(Box::leak(t.clone().into_boxed_str())),
            buf_oracle(&t, &a, [c1, c2], [s1.as_str(), s2.as_str()]));
    }

    // ---- to_string of the primitives --------------------------------------
    r!(v_, "bool.to_string", (x: B) -> S, "x.to_string()", G::Bool, format!("{}", x));
    r!(v_, "u8.to_string", (x: U8) -> S, "x.to_string()", G::Int(u8::MIN as i128, u8::MAX as i128), format!("{}", x));
    r!(v_, "u16.to_string", (x: U16) -> S, "x.to_string()", G::Int(u16::MIN as i128, u16::MAX as i128), format!("{}", x));
    r!(v_, "u32.to_string", (x: U32) -> S, "x.to_string()", G::Int(u32::MIN as i128, u32::MAX as i128), format!("{}", x));
    r!(v_, "u64.to_string", (x: U) -> S, "x.to_string()", G::Int(u64::MIN as i128, u64::MAX as i128), format!("{}", x));
    r!(v_, "i8.to_string", (x: I8) -> S, "x.to_string()", G::Int(i8::MIN as i128, i8::MAX as i128), format!("{}", x));
    r!(v_, "i16.to_string", (x: I16) -> S, "x.to_string()", G::Int(i16::MIN as i128, i16::MAX as i128), format!("{}", x));
    r!(v_, "i32.to_string", (x: I32) -> S, "x.to_string()", G::Int(i32::MIN as i128, i32::MAX as i128), format!("{}", x));
    r!(v_, "i64.to_string", (x: I64) -> S, "x.to_string()", G::Int(i64::MIN as i128, i64::MAX as i128), format!("{}", x));
    r!(v_, "char.to_string", (x: C) -> S, "x.to_string()", G::Char, format!("{}", x));
    r!(v_, "IpAddr.to_string", (x: Ip) -> S, "x.to_string()", G::Ip1, format!("{}", x));
    r!(v_, "Prefix.to_string", (x: Pf) -> S, "x.to_string()", G::Pfx1, format!("{}", x));
    r!(v_, "Asn.to_string", (x: As) -> S, "x.to_string()", G::Asn, format!("{}", x));

    // ---- floats -----------------------------------------------------------
    float_runners!(v_, F32, G::F32x1, G::F32x2, "f32");
    float_runners!(v_, F64, G::F64x1, G::F64x2, "f64");

    // ---- IpAddr -----------------------------------------------------------
    r!(v_, "IpAddr.eq", (a: Ip, b: Ip) -> B, "a.eq(b)", G::Ip2, a == b);
    r!(v_, "IpAddr.is_ipv4", (a: Ip) -> B, "a.is_ipv4()", G::Ip1, a.is_ipv4());
    r!(v_, "IpAddr.is_ipv6", (a: Ip) -> B, "a.is_ipv6()", G::Ip1, a.is_ipv6());
    r!(v_, "IpAddr.to_canonical", (a: Ip) -> Ip, "a.to_canonical()", G::Ip1, a.to_canonical());
    r!(v_, "IpAddr.LOCALHOSTV4", () -> Ip, "IpAddr.LOCALHOSTV4", G::None0, IpAddr::from(Ipv4Addr::LOCALHOST));
    r!(v_, "IpAddr.LOCALHOSTV6", () -> Ip, "IpAddr.LOCALHOSTV6", G::None0, IpAddr::from(Ipv6Addr::LOCALHOST));

    // ---- Prefix -----------------------------------------------------------
    r!(v_, "Prefix.new", (ip: Ip, len: U8) -> Pf, "Prefix.new(ip, len)", G::IpLen, Prefix::new_relaxed(ip, len).unwrap());
    r!(v_, "Prefix.addr", (p: Pf) -> Ip, "p.addr()", G::Pfx1, p.addr());
    r!(v_, "Prefix.min_addr", (p: Pf) -> Ip, "p.min_addr()", G::Pfx1, p.min_addr());
    r!(v_, "Prefix.max_addr", (p: Pf) -> Ip, "p.max_addr()", G::Pfx1, p.max_addr());
    r!(v_, "Prefix.len", (p: Pf) -> U8, "p.len()", G::Pfx1, p.len());
    r!(v_, "Prefix.eq", (p: Pf, q: Pf) -> B, "p.eq(q)", G::Pfx2, p == q);

    // ---- List (kept modest: C15 owns the list state machine) ---------------
    r!(v_, "List.new", () -> L<U>, "let l: List[u64] = List.new(); l", G::None0, Vec::<u64>::new());
    r!(v_, "List.push", (l: L<U>, x: U) -> L<U>, "l.push(x); l", G::LuX, { let mut o = l.clone(); o.push(x); o });
    r!(v_, "List.contains", (l: L<U>, x: U) -> B, "l.contains(x)", G::LuX, l.contains(&x));
    r!(v_, "List.index", (l: L<U>, x: U) -> Opt<U>, "l.index(x)", G::LuX, l.iter().position(|y| *y == x).map(|i| i as u64));
    r!(v_, "List.concat", (a: L<U>, b: L<U>) -> L<U>, "let c = a.concat(b); c.push(7); a.concat(c)", G::LuLu,
        { let mut o = a.clone(); o.extend(a.iter()); o.extend(b.iter()); o.push(7); o });
    r!(v_, "List.get", (l: L<U>, i: U) -> Opt<U>, "l.get(i)", G::LuI, l.get(i as usize).copied().filter(|_| i < l.len() as u64));
    r!(v_, "List.swap", (l: L<U>, i: U, j: U) -> L<U>, "l.swap(i, j); l", G::LuIJ,
        { let mut o = l.clone(); if i < o.len() as u64 && j < o.len() as u64 { o.swap(i as usize, j as usize); } o });
    r!(v_, "List.len", (l: L<U>) -> U, "l.len()", G::Lu, l.len() as u64);
    r!(v_, "List.capacity", (l: L<U>) -> B, "l.capacity() >= l.len()", G::Lu, { let _ = l; true });
    r!(v_, "List.is_empty", (l: L<U>) -> B, "l.is_empty()", G::Lu, l.is_empty());
    r!(v_, "List.join", (l: L<S>, sep: S) -> S, "l.join(sep)", G::LsS, l.join(sep.as_str()));

    v_
}
