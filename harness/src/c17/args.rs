//! Argument values of the C17 runners: one enum, JSON both ways, and the type
//! tags that map a tag to its Roto-side type, host-side (oracle) type, script
//! type name and canonical rendering.

use inetnum::addr::Prefix;
use inetnum::asn::Asn;
use roto::{List, RotoString};
use serde_json::{Value, json};
use std::marker::PhantomData;
use std::net::IpAddr;

#[derive(Clone, Debug)]
pub enum A {
    S(String),
    U(u64),
    I(i64),
    F64(u64),
    F32(u32),
    B(bool),
    C(char),
    Ip(IpAddr),
    Pf(Prefix),
    Lc(Vec<char>),
    Lu(Vec<u64>),
    Ls(Vec<String>),
}

fn hex(s: &str) -> String {
    s.bytes().map(|b| format!("{b:02x}")).collect()
}
fn unhex(h: &str) -> Option<String> {
    let b: Option<Vec<u8>> = (0..h.len() / 2).map(|i| u8::from_str_radix(h.get(2 * i..2 * i + 2)?, 16).ok()).collect();
    String::from_utf8(b?).ok()
}

impl A {
    pub fn s(&self) -> &str {
        match self {
            A::S(s) => s,
            _ => panic!("not a string: {self:?}"),
        }
    }
    pub fn u(&self) -> u64 {
        match self {
            A::U(u) => *u,
            _ => panic!("not a u64: {self:?}"),
        }
    }
    pub fn c(&self) -> char {
        match self {
            A::C(c) => *c,
            _ => panic!("not a char: {self:?}"),
        }
    }
    pub fn show(&self) -> String {
        match self {
            A::S(s) => format!("{s:?}"),
            A::U(u) => u.to_string(),
            A::I(i) => i.to_string(),
            A::F64(b) => format!("{:?}f64[{b:#018x}]", f64::from_bits(*b)),
            A::F32(b) => format!("{:?}f32[{b:#010x}]", f32::from_bits(*b)),
            A::B(b) => b.to_string(),
            A::C(c) => format!("{c:?}"),
            A::Ip(i) => i.to_string(),
            A::Pf(p) => p.to_string(),
            A::Lc(v) => format!("{v:?}"),
            A::Lu(v) => format!("{v:?}"),
            A::Ls(v) => format!("{v:?}"),
        }
    }
    pub fn to_json(&self) -> Value {
        match self {
            // `text` is for the reader only (escaped: a raw U+2028/U+0085 would split the one-line report)
            A::S(s) => json!({"t": "S", "hex": hex(s), "text": s.escape_debug().to_string()}),
            A::U(u) => json!({"t": "U", "v": u.to_string()}),
            A::I(i) => json!({"t": "I", "v": i.to_string()}),
            A::F64(b) => json!({"t": "F64", "bits": b.to_string(), "text": format!("{:?}", f64::from_bits(*b))}),
            A::F32(b) => json!({"t": "F32", "bits": b.to_string(), "text": format!("{:?}", f32::from_bits(*b))}),
            A::B(b) => json!({"t": "B", "v": b}),
            A::C(c) => json!({"t": "C", "v": *c as u32, "text": c.escape_debug().to_string()}),
            A::Ip(i) => json!({"t": "Ip", "v": i.to_string()}),
            A::Pf(p) => json!({"t": "Pf", "v": p.to_string()}),
            A::Lc(v) => json!({"t": "Lc", "v": v.iter().map(|c| *c as u32).collect::<Vec<_>>()}),
            A::Lu(v) => json!({"t": "Lu", "v": v.iter().map(|u| u.to_string()).collect::<Vec<_>>()}),
            A::Ls(v) => json!({"t": "Ls", "hex": v.iter().map(|s| hex(s)).collect::<Vec<_>>(), "text": v.iter().map(|s| s.escape_debug().to_string()).collect::<Vec<_>>()}),
        }
    }
    pub fn from_json(v: &Value) -> Option<A> {
        let t = v["t"].as_str()?;
        Some(match t {
            "S" => A::S(unhex(v["hex"].as_str()?)?),
            "U" => A::U(v["v"].as_str()?.parse().ok()?),
            "I" => A::I(v["v"].as_str()?.parse().ok()?),
            "F64" => A::F64(v["bits"].as_str()?.parse().ok()?),
            "F32" => A::F32(v["bits"].as_str()?.parse().ok()?),
            "B" => A::B(v["v"].as_bool()?),
            "C" => A::C(char::from_u32(v["v"].as_u64()? as u32)?),
            "Ip" => A::Ip(v["v"].as_str()?.parse().ok()?),
            "Pf" => A::Pf(v["v"].as_str()?.parse().ok()?),
            "Lc" => A::Lc(v["v"].as_array()?.iter().map(|c| char::from_u32(c.as_u64()? as u32)).collect::<Option<_>>()?),
            "Lu" => A::Lu(v["v"].as_array()?.iter().map(|c| c.as_str()?.parse().ok()).collect::<Option<_>>()?),
            "Ls" => A::Ls(v["hex"].as_array()?.iter().map(|c| unhex(c.as_str()?)).collect::<Option<_>>()?),
            _ => return None,
        })
    }
    /// (histogram name, bucket) describing this argument
    pub fn hist(&self) -> Option<(&'static str, String)> {
        match self {
            A::S(s) => Some(("string-class", str_class(s).to_string())),
            A::F64(b) => Some(("float-class", float_class(f64::from_bits(*b)))),
            A::F32(b) => Some(("float-class", float_class(f32::from_bits(*b) as f64))),
            A::U(u) => Some(("u64-class", if *u == 0 { "0".into() } else if *u < 16 { "small".into() } else if *u < (1 << 32) { "medium".into() } else if *u == u64::MAX { "u64::MAX".into() } else { "huge".into() })),
            A::Ip(i) => Some(("ip-class", if i.is_ipv4() { "v4".into() } else { "v6".into() })),
            A::Pf(p) => Some(("prefix-len", format!("{}{}", if p.is_v4() { "v4/" } else { "v6/" }, match p.len() { 0 => "0".to_string(), 32 if p.is_v4() => "max".into(), 128 => "max".into(), _ => "mid".into() }))),
            _ => None,
        }
    }
}

pub fn str_class(s: &str) -> &'static str {
    if s.is_empty() {
        "empty"
    } else if s.contains("\r\n") {
        "crlf"
    } else if s.contains('\r') {
        "bare-cr"
    } else if s.ends_with('\n') {
        "nl-trailing"
    } else if s.contains('\n') {
        "nl-inner"
    } else if s.chars().any(|c| ('\u{300}'..='\u{36f}').contains(&c)) {
        "combining"
    } else if s.chars().any(|c| c.len_utf8() == 4) {
        "multibyte4"
    } else if s.chars().any(|c| c.len_utf8() > 1) {
        "multibyte"
    } else if s.chars().any(|c| c.is_whitespace()) {
        "ascii-ws"
    } else {
        "ascii"
    }
}

pub fn float_class(x: f64) -> String {
    let neg = if x.is_sign_negative() { "-" } else { "+" };
    let k = if x.is_nan() {
        return "nan".into();
    } else if x.is_infinite() {
        "inf"
    } else if x == 0.0 {
        "zero"
    } else if x.abs() < f32::MIN_POSITIVE as f64 && x.abs() < 1e-37 {
        "tiny-or-subnormal"
    } else if x.abs() >= 4503599627370496.0 {
        "large"
    } else if x.fract().abs() == 0.5 {
        "half"
    } else if x.fract() == 0.0 {
        "integral"
    } else {
        "fractional"
    };
    format!("{neg}{k}")
}

/// A type tag: Roto-side Rust type, host-side type, script type name.
pub trait T {
    type R;
    type H;
    fn n() -> String;
    fn h(a: &A) -> Self::H;
    fn r(a: &A) -> Self::R;
    fn cr(r: Self::R) -> String;
    fn ch(h: Self::H) -> String;
}

pub fn canon_f64(x: f64) -> String {
    if x.is_nan() { "NaN".into() } else { format!("{x:?}/{:016x}", x.to_bits()) }
}
pub fn canon_f32(x: f32) -> String {
    if x.is_nan() { "NaN".into() } else { format!("{x:?}/{:08x}", x.to_bits()) }
}

pub struct S;
impl T for S {
    type R = RotoString;
    type H = String;
    fn n() -> String { "String".into() }
    fn h(a: &A) -> String { a.s().to_string() }
    fn r(a: &A) -> RotoString { a.s().into() }
    fn cr(r: RotoString) -> String { format!("{:?}", &*r) }
    fn ch(h: String) -> String { format!("{h:?}") }
}

macro_rules! int_tag {
    ($tag:ident, $t:ty, $name:literal) => {
        pub struct $tag;
        impl T for $tag {
            type R = $t;
            type H = $t;
            fn n() -> String { $name.into() }
            fn h(a: &A) -> $t { match a { A::U(u) => *u as $t, A::I(i) => *i as $t, _ => panic!("not an int: {a:?}") } }
            fn r(a: &A) -> $t { Self::h(a) }
            fn cr(r: $t) -> String { r.to_string() }
            fn ch(h: $t) -> String { h.to_string() }
        }
    };
}
int_tag!(U, u64, "u64");
int_tag!(U8, u8, "u8");
int_tag!(U16, u16, "u16");
int_tag!(U32, u32, "u32");
int_tag!(I8, i8, "i8");
int_tag!(I16, i16, "i16");
int_tag!(I32, i32, "i32");
int_tag!(I64, i64, "i64");

pub struct F64;
impl T for F64 {
    type R = f64;
    type H = f64;
    fn n() -> String { "f64".into() }
    fn h(a: &A) -> f64 { match a { A::F64(b) => f64::from_bits(*b), _ => panic!("not f64: {a:?}") } }
    fn r(a: &A) -> f64 { Self::h(a) }
    fn cr(r: f64) -> String { canon_f64(r) }
    fn ch(h: f64) -> String { canon_f64(h) }
}
pub struct F32;
impl T for F32 {
    type R = f32;
    type H = f32;
    fn n() -> String { "f32".into() }
    fn h(a: &A) -> f32 { match a { A::F32(b) => f32::from_bits(*b), _ => panic!("not f32: {a:?}") } }
    fn r(a: &A) -> f32 { Self::h(a) }
    fn cr(r: f32) -> String { canon_f32(r) }
    fn ch(h: f32) -> String { canon_f32(h) }
}
pub struct B;
impl T for B {
    type R = bool;
    type H = bool;
    fn n() -> String { "bool".into() }
    fn h(a: &A) -> bool { match a { A::B(b) => *b, _ => panic!("not bool: {a:?}") } }
    fn r(a: &A) -> bool { Self::h(a) }
    fn cr(r: bool) -> String { r.to_string() }
    fn ch(h: bool) -> String { h.to_string() }
}
pub struct C;
impl T for C {
    type R = char;
    type H = char;
    fn n() -> String { "char".into() }
    fn h(a: &A) -> char { match a { A::C(c) => *c, _ => panic!("not char: {a:?}") } }
    fn r(a: &A) -> char { Self::h(a) }
    fn cr(r: char) -> String { format!("{r:?}") }
    fn ch(h: char) -> String { format!("{h:?}") }
}
pub struct Ip;
impl T for Ip {
    type R = IpAddr;
    type H = IpAddr;
    fn n() -> String { "IpAddr".into() }
    fn h(a: &A) -> IpAddr { match a { A::Ip(c) => *c, _ => panic!("not ip: {a:?}") } }
    fn r(a: &A) -> IpAddr { Self::h(a) }
    fn cr(r: IpAddr) -> String { format!("{r:?}") }
    fn ch(h: IpAddr) -> String { format!("{h:?}") }
}
pub struct Pf;
impl T for Pf {
    type R = Prefix;
    type H = Prefix;
    fn n() -> String { "Prefix".into() }
    fn h(a: &A) -> Prefix { match a { A::Pf(c) => *c, _ => panic!("not prefix: {a:?}") } }
    fn r(a: &A) -> Prefix { Self::h(a) }
    fn cr(r: Prefix) -> String { format!("{}/{}", r.addr(), r.len()) }
    fn ch(h: Prefix) -> String { format!("{}/{}", h.addr(), h.len()) }
}
pub struct As;
impl T for As {
    type R = Asn;
    type H = Asn;
    fn n() -> String { "Asn".into() }
    fn h(a: &A) -> Asn { Asn::from_u32(a.u() as u32) }
    fn r(a: &A) -> Asn { Self::h(a) }
    fn cr(r: Asn) -> String { r.into_u32().to_string() }
    fn ch(h: Asn) -> String { h.into_u32().to_string() }
}
pub struct Unit;
impl T for Unit {
    type R = ();
    type H = ();
    fn n() -> String { "()".into() }
    fn h(_: &A) {}
    fn r(_: &A) {}
    fn cr(_: ()) -> String { "()".into() }
    fn ch(_: ()) -> String { "()".into() }
}

/// `T?`
pub struct Opt<X>(PhantomData<X>);
impl<X: T> T for Opt<X> {
    type R = Option<X::R>;
    type H = Option<X::H>;
    fn n() -> String { format!("{}?", X::n()) }
    fn h(_: &A) -> Self::H { unreachable!("Opt is only a return tag") }
    fn r(_: &A) -> Self::R { unreachable!("Opt is only a return tag") }
    fn cr(r: Self::R) -> String { match r { None => "None".into(), Some(x) => format!("Some({})", X::cr(x)) } }
    fn ch(h: Self::H) -> String { match h { None => "None".into(), Some(x) => format!("Some({})", X::ch(x)) } }
}

/// `List[T]`
pub struct L<X>(PhantomData<X>);
macro_rules! list_tag {
    ($x:ty, $rt:ty, $ht:ty, $variant:ident, $conv:expr) => {
        impl T for L<$x> {
            type R = List<$rt>;
            type H = Vec<$ht>;
            fn n() -> String { format!("List[{}]", <$x as T>::n()) }
            fn h(a: &A) -> Vec<$ht> { match a { A::$variant(v) => v.clone(), _ => panic!("not a list: {a:?}") } }
            fn r(a: &A) -> List<$rt> { Self::h(a).into_iter().map($conv).collect() }
            fn cr(r: List<$rt>) -> String {
                let v: Vec<String> = r.to_vec().into_iter().map(|x| <$x as T>::cr(x)).collect();
                format!("[{}]", v.join(", "))
            }
            fn ch(h: Vec<$ht>) -> String {
                let v: Vec<String> = h.into_iter().map(|x| <$x as T>::ch(x)).collect();
                format!("[{}]", v.join(", "))
            }
        }
    };
}
list_tag!(S, RotoString, String, Ls, |s: String| RotoString::from(s));
list_tag!(U, u64, u64, Lu, |u: u64| u);
list_tag!(C, char, char, Lc, |c: char| c);
impl T for L<U8> {
    type R = List<u8>;
    type H = Vec<u8>;
    fn n() -> String { "List[u8]".into() }
    fn h(_: &A) -> Vec<u8> { unreachable!("List[u8] is only a return tag") }
    fn r(_: &A) -> List<u8> { unreachable!("List[u8] is only a return tag") }
    fn cr(r: List<u8>) -> String { format!("{:?}", r.to_vec()) }
    fn ch(h: Vec<u8>) -> String { format!("{h:?}") }
}
