//! C05 correspondence: values cross the host boundary unchanged.
//!
//! For a macro-generated family of boundary types (`c05/types.in`) the real
//! `roto` is driven in-process:
//!  * **values**: identity scripts (Rust → script → Rust), registered
//!    functions (script → Rust → script), registered constants, context fields
//!    in three field orders, construction and matching of `Option` / `Result`
//!    / `Verdict` inside the script, and — for the core types — every argument
//!    position of arities 2, 4, 7 in both directions, with edge values
//!    first and random values after; a value that arrives different from what
//!    was sent is an impl violation (`key` names the scenario class);
//!  * **facts** (the tie of the Lean model): `size_of` / `align_of` / payload
//!    offsets / discriminant bytes of the real transformed types, and the
//!    compiler's own `layout_of`, `is_reference_type`, lowered signatures and
//!    runtime-call signatures (hook `verif_hooks::c05::signatures`) against the
//!    Lean driver (`c05 layout|sig|rtcall|tags|roundtrip`). A disagreement is
//!    a model mismatch.
//!
//! usage: c05 run <seed> <quick|thorough>
//!        c05 worker <seed> <tier> <from> <n>
//!        c05 replay <json>
//!        c05 list

#[path = "../c05/family.rs"]
mod family;

use family::*;
use inetnum::{addr::Prefix, asn::Asn};
use roto::{
    Constant, Context, FileTree, Function, Impl, List, NoCtx, Package, RotoString, Runtime, Type, Val, Value, Verdict, location,
};
use rotov_harness::driver::Driver;
use rotov_harness::worker::{self, Ended};
use rotov_harness::{Prng, Report};
use serde_json::{Value as J, json};
use std::any::TypeId;
use std::cell::RefCell;
use std::net::IpAddr;
use std::time::Duration;

// ------------------------------------------------------------------ plumbing

thread_local! { static LAST_PANIC: RefCell<String> = const { RefCell::new(String::new()) }; }
thread_local! { static LOG: RefCell<Vec<String>> = const { RefCell::new(Vec::new()) }; }
fn log(s: String) {
    LOG.with(|l| l.borrow_mut().push(s));
}
fn clear_log() {
    LOG.with(|l| l.borrow_mut().clear());
}
fn take_log() -> Vec<String> {
    LOG.with(|l| std::mem::take(&mut *l.borrow_mut()))
}

pub struct Env {
    seed: u64,
    rounds: u32,
}

fn h64(s: &str) -> u64 {
    let mut x = 0xcbf29ce484222325u64;
    for b in s.bytes() {
        x ^= b as u64;
        x = x.wrapping_mul(0x100000001b3);
    }
    x
}

macro_rules! reg_types {
    ($rt:ident, copy: [$($c:ty),*], clone: [$($k:ty),*]) => {
        $( $rt.add(Type::copy::<Val<$c>>(<$c as Reg>::NAME, "", location!()).unwrap()).unwrap(); )*
        $( $rt.add(Type::clone::<Val<$k>>(<$k as Reg>::NAME, "", location!()).unwrap()).unwrap(); )*
    };
}

fn base_runtime() -> Runtime<NoCtx> {
    let mut rt = Runtime::new();
    reg_types!(rt, copy: [Z0, Za8, B1, B3, H2, W4, Q8, P12, X16, A32, A64], clone: [Zc, T24, Hs]);
    rt
}

fn note<X: BT>(x: X) -> u8 {
    log(x.show());
    0
}
fn sink_name(d: &D) -> String {
    d.roto().replace(['[', ']', ',', ' ', '(', ')'], "")
}
fn add_sinks(rt: &mut Runtime<NoCtx>) {
    macro_rules! s { ($($t:ty),*) => { $(
        rt.add(Function::new(format!("note_{}", sink_name(&<$t as BT>::desc())), "", vec!["x"], note::<$t>, location!()).unwrap()).unwrap();
    )* } }
    s!(u8, f64, RotoString, i16, Option<u32>, f32, u64);
}

fn compile<C: roto::Context + 'static>(rt: &Runtime<roto::Ctx<C>>, src: &str, rep: &mut Report, name: &str) -> Option<Package<roto::Ctx<C>>> {
    match FileTree::test_file("c05.roto", src, 0).compile(rt) {
        Ok(p) => Some(p),
        Err(e) => {
            rep.mismatch(
                "a script over boundary types did not compile",
                json!({"case": name, "script": src, "error": format!("{e:?}").chars().take(600).collect::<String>()}),
            );
            None
        }
    }
}
fn compile0(rt: &Runtime<NoCtx>, src: &str, rep: &mut Report, name: &str) -> Option<Package<NoCtx>> {
    match FileTree::test_file("c05.roto", src, 0).compile(rt) {
        Ok(p) => Some(p),
        Err(e) => {
            rep.mismatch(
                "a script over boundary types did not compile",
                json!({"case": name, "script": src, "error": format!("{e:?}").chars().take(600).collect::<String>()}),
            );
            None
        }
    }
}
// the generated position scenarios call `compile(&rt, …)` with a `Runtime<NoCtx>`
use compile0 as compile_noctx;

/// The key names the class of the failing case: zero-sized registered
/// parameters are keyed apart (the defect known on the pinned tree).
fn violation(rep: &mut Report, name: &str, tys: &[D], pos: usize, input: J) {
    let scen = name.split(' ').next().unwrap_or(name);
    let zst_before = tys.iter().take(tys.len()).enumerate().any(|(i, t)| t.is_zst_val() && i + 1 < tys.len());
    let key = if zst_before {
        format!("value-changed:{scen}:zero-sized parameter")
    } else {
        format!("value-changed:{scen}:{}", tys.get(pos.wrapping_sub(1)).map(|t| t.class()).unwrap_or_default())
    };
    let mut input = input;
    input["case"] = json!(name);
    input["types"] = json!(tys.iter().map(|t| t.roto()).collect::<Vec<_>>());
    rep.violation("a value arrived different from what was sent", &key, input);
}

macro_rules! get_fn {
    ($pkg:ident, $f:ty, $rep:ident, $name:ident, $src:ident) => {
        match $pkg.get_function::<$f>("main") {
            Ok(f) => f,
            Err(e) => {
                $rep.mismatch(
                    "get_function refused a boundary signature",
                    json!({"case": $name, "script": $src, "error": format!("{e:?}")}),
                );
                return;
            }
        }
    };
}

// ------------------------------------------------------------ light scenarios

/// Rust → script → Rust
fn sc_identity<T: BT>(env: &Env, rep: &mut Report, name: &str) {
    let d = T::desc();
    let rt = base_runtime();
    let src = format!("fn main(x: {t}) -> {t} {{ x }}\n", t = d.roto());
    let Some(mut pkg) = compile_noctx(&rt, &src, rep, name) else { return };
    let f = get_fn!(pkg, fn(T) -> T, rep, name, src);
    let mut p = Prng::for_case(env.seed, h64(name));
    for k in 0..env.rounds {
        let v = T::gen_val(&mut p, k);
        let want = v.show();
        let got = f.call(v).show();
        rep.evaluations += 1;
        if got != want {
            violation(rep, name, &[d.clone()], 1, json!({"script": src, "sent": want, "returned": got, "round": k}));
            return;
        }
    }
    rep.class(format!("identity:{}", d.class()));
}

fn echo<T: BT>(x: T) -> T {
    log(x.show());
    x
}

/// Rust → script → registered function → script → Rust
fn sc_echo<T: BT>(env: &Env, rep: &mut Report, name: &str) {
    let d = T::desc();
    let mut rt = base_runtime();
    rt.add(Function::new("echo", "", vec!["x"], echo::<T>, location!()).unwrap()).unwrap();
    let src = format!("fn main(x: {t}) -> {t} {{ echo(x) }}\n", t = d.roto());
    let Some(mut pkg) = compile_noctx(&rt, &src, rep, name) else { return };
    let f = get_fn!(pkg, fn(T) -> T, rep, name, src);
    let mut p = Prng::for_case(env.seed, h64(name));
    for k in 0..env.rounds {
        let v = T::gen_val(&mut p, k);
        let want = v.show();
        clear_log();
        let got = f.call(v).show();
        let lg = take_log();
        rep.evaluations += 1;
        if got != want || lg != vec![want.clone()] {
            violation(rep, name, &[d.clone()], 1, json!({"script": src, "sent": want, "returned": got, "registered_function_saw": lg, "round": k}));
            return;
        }
    }
    rep.class(format!("echo:{}", d.class()));
}

/// registered constant → script → Rust
fn sc_constant<T: BT>(env: &Env, rep: &mut Report, name: &str) {
    let d = T::desc();
    let mut p = Prng::for_case(env.seed, h64(name));
    for k in 0..env.rounds.min(6) {
        let v = T::gen_val(&mut p, k);
        let want = v.show();
        let mut rt = base_runtime();
        let v2 = v.clone();
        rt.add(Constant::new("K", "", v, location!()).unwrap()).unwrap();
        // a registered function without parameters handing out the same value
        rt.add(Function::new("give", "", vec![], move || -> T { v2.clone() }, location!()).unwrap()).unwrap();
        let src = format!("fn main() -> {t} {{ K }}\nfn twice() -> {t} {{ let a = K; K }}\nfn given() -> {t} {{ give() }}\n", t = d.roto());
        let Some(mut pkg) = compile_noctx(&rt, &src, rep, name) else { return };
        let f = get_fn!(pkg, fn() -> T, rep, name, src);
        let got = f.call().show();
        let got2 = f.call().show();
        let got3 = match pkg.get_function::<fn() -> T>("twice") { Ok(f) => f.call().show(), Err(e) => format!("{e:?}") };
        let got4 = match pkg.get_function::<fn() -> T>("given") { Ok(f) => f.call().show(), Err(e) => format!("{e:?}") };
        rep.evaluations += 4;
        if got3 != want || got4 != want {
            violation(rep, name, &[d.clone()], 1, json!({"script": src, "constant": want, "twice": got3, "given": got4, "round": k}));
            return;
        }
        if got != want || got2 != want {
            violation(rep, name, &[d.clone()], 1, json!({"script": src, "constant": want, "returned": [got, got2], "round": k}));
            return;
        }
    }
    rep.class(format!("constant:{}", d.class()));
}

// three context structs with the field of interest at different places
#[derive(Clone)]
pub struct CtxA<T> { pub pad: u8, pub f: T, pub tail: u16 }
#[derive(Clone)]
pub struct CtxB<T> { pub f: T, pub pad: u8, pub tail: u16 }
#[derive(Clone)]
#[repr(C)]
pub struct CtxC<T> { pub tail: u16, pub pad: u8, pub mid: u64, pub f: T }

macro_rules! ctx_impl {
    ($s:ident, [$($field:ident : $ty:ty),*]) => {
        unsafe impl<T: BT> Context for $s<T> {
            fn fields() -> Vec<roto::__internal::ContextField> {
                vec![ $( roto::__internal::ContextField {
                    name: stringify!($field),
                    offset: std::mem::offset_of!(Self, $field),
                    type_name: std::any::type_name::<$ty>(),
                    type_id: TypeId::of::<$ty>(),
                    docstring: String::new(),
                } ),* ]
            }
        }
    };
}
ctx_impl!(CtxA, [pad: u8, f: T, tail: u16]);
ctx_impl!(CtxB, [f: T, pad: u8, tail: u16]);
ctx_impl!(CtxC, [tail: u16, pad: u8, mid: u64, f: T]);

macro_rules! sc_ctx {
    ($fname:ident, $s:ident, $mk:expr, $label:literal) => {
        /// context field → script → Rust
        fn $fname<T: BT>(env: &Env, rep: &mut Report, name: &str) {
            let d = T::desc();
            let _ = <T as Value>::resolve();
            let rt = match base_runtime().with_context_type::<$s<T>>() {
                Ok(rt) => rt,
                Err(e) => {
                    rep.mismatch("a boundary type was refused as a context field", json!({"case": name, "error": e}));
                    return;
                }
            };
            let src = format!("fn main() -> {t} {{ f }}\nfn pad_() -> u8 {{ pad }}\nfn tail_() -> u16 {{ tail }}\n", t = d.roto());
            let Some(mut pkg) = compile(&rt, &src, rep, name) else { return };
            let f = get_fn!(pkg, fn() -> T, rep, name, src);
            let fp = pkg.get_function::<fn() -> u8>("pad_").unwrap();
            let ft = pkg.get_function::<fn() -> u16>("tail_").unwrap();
            let mut p = Prng::for_case(env.seed, h64(name));
            for k in 0..env.rounds {
                let v = T::gen_val(&mut p, k);
                let want = v.show();
                let (pad, tail) = (p.next() as u8, p.next() as u16);
                #[allow(clippy::redundant_closure_call)]
                let mut ctx: $s<T> = ($mk)(v, pad, tail);
                let got = f.call(&mut ctx).show();
                let gp = fp.call(&mut ctx);
                let gt = ft.call(&mut ctx);
                rep.evaluations += 1;
                if got != want || gp != pad || gt != tail {
                    violation(rep, name, &[d.clone()], 1, json!({"script": src, "field": want, "read": got, "pad": [pad, gp], "tail": [tail, gt],
                        "offsets": <$s<T> as Context>::fields().iter().map(|f| (f.name, f.offset)).collect::<Vec<_>>(), "round": k}));
                    return;
                }
            }
            rep.class(format!("{}:{}", $label, d.class()));
        }
    };
}
sc_ctx!(sc_ctx_a, CtxA, |v, pad, tail| CtxA { pad, f: v, tail }, "ctxA");
sc_ctx!(sc_ctx_b, CtxB, |v, pad, tail| CtxB { f: v, pad, tail }, "ctxB");
sc_ctx!(sc_ctx_c, CtxC, |v, pad, tail| CtxC { tail, pad, mid: 0x1122_3344_5566_7788, f: v }, "ctxC");

/// constructing and matching `Option` / `Result` / `Verdict` around `T` inside the script
fn sc_wrap<T: BT>(env: &Env, rep: &mut Report, name: &str) {
    let d = T::desc();
    let t = d.roto();
    let rt = base_runtime();
    let src = format!(
        "fn some(x: {t}) -> Option[{t}] {{ Option.Some(x) }}\n\
         fn none() -> Option[{t}] {{ Option.None }}\n\
         fn ok(x: {t}) -> Result[{t}, u8] {{ Result.Ok(x) }}\n\
         fn err(x: {t}) -> Result[u64, {t}] {{ Result.Err(x) }}\n\
         fn acc(x: {t}) -> Verdict[{t}, ()] {{ Verdict.Accept(x) }}\n\
         fn rej(x: {t}) -> Verdict[u16, {t}] {{ Verdict.Reject(x) }}\n\
         fn unopt(o: Option[{t}], d: {t}) -> {t} {{ match o {{ Some(y) => y, None => d }} }}\n\
         fn unres(r: Result[{t}, {t}]) -> {t} {{ match r {{ Ok(y) => y, Err(z) => z }} }}\n\
         fn quest(o: Option[{t}]) -> Option[{t}] {{ let x = o?; Option.Some(x) }}\n\
         filtermap fm(x: {t}, c: bool) {{ if c {{ accept x }} else {{ reject x }} }}\n\
         fn which(o: Option[{t}], r: Result[{t}, u8], v: Verdict[u8, {t}]) -> u8 {{\n\
           let a = match o {{ Some(_) => 1, None => 2 }};\n\
           let b = match r {{ Ok(_) => 10, Err(_) => 20 }};\n\
           let c = match v {{ Accept(_) => 100, Reject(_) => 200 }};\n\
           a + b + c\n}}\n"
    );
    let Some(mut pkg) = compile_noctx(&rt, &src, rep, name) else { return };
    macro_rules! g { ($n:literal, $f:ty) => { match pkg.get_function::<$f>($n) { Ok(f) => f, Err(e) => {
        rep.mismatch("get_function refused a boundary signature", json!({"case": name, "script": src, "fn": $n, "error": format!("{e:?}")})); return } } } }
    let f_some = g!("some", fn(T) -> Option<T>);
    let f_none = g!("none", fn() -> Option<T>);
    let f_ok = g!("ok", fn(T) -> Result<T, u8>);
    let f_err = g!("err", fn(T) -> Result<u64, T>);
    let f_acc = g!("acc", fn(T) -> Verdict<T, ()>);
    let f_rej = g!("rej", fn(T) -> Verdict<u16, T>);
    let f_unopt = g!("unopt", fn(Option<T>, T) -> T);
    let f_unres = g!("unres", fn(Result<T, T>) -> T);
    let f_which = g!("which", fn(Option<T>, Result<T, u8>, Verdict<u8, T>) -> u8);
    let f_quest = g!("quest", fn(Option<T>) -> Option<T>);
    let f_fm = g!("fm", fn(T, bool) -> Verdict<T, T>);
    let mut p = Prng::for_case(env.seed, h64(name));
    for k in 0..env.rounds {
        let v = T::gen_val(&mut p, k);
        let w = T::gen_val(&mut p, k + 1);
        let (vs, ws) = (v.show(), w.show());
        let mut bad: Vec<(String, String, String)> = vec![];
        let mut chk = |what: &str, want: String, got: String| {
            if want != got {
                bad.push((what.to_string(), want, got));
            }
        };
        chk("Option.Some(x)", format!("Some({vs})"), f_some.call(v.clone()).show());
        chk("Option.None", "None".into(), f_none.call().show());
        chk("Result.Ok(x)", format!("Ok({vs})"), f_ok.call(v.clone()).show());
        chk("Result.Err(x)", format!("Err({vs})"), f_err.call(v.clone()).show());
        chk("Verdict.Accept(x)", format!("Accept({vs})"), f_acc.call(v.clone()).show());
        chk("Verdict.Reject(x)", format!("Reject({vs})"), f_rej.call(v.clone()).show());
        chk("match Some(y)", vs.clone(), f_unopt.call(Some(v.clone()), w.clone()).show());
        chk("match None", ws.clone(), f_unopt.call(None, w.clone()).show());
        chk("match Ok(y)", vs.clone(), f_unres.call(Ok(v.clone())).show());
        chk("match Err(z)", ws.clone(), f_unres.call(Err(w.clone())).show());
        chk("x? on Some", format!("Some({vs})"), f_quest.call(Some(v.clone())).show());
        chk("x? on None", "None".into(), f_quest.call(None).show());
        chk("accept x", format!("Accept({vs})"), f_fm.call(v.clone(), true).show());
        chk("reject x", format!("Reject({ws})"), f_fm.call(w.clone(), false).show());
        for (o, r, vd, want) in [
            (Some(v.clone()), Ok(w.clone()), Verdict::Accept(3u8), 111u8),
            (None, Err(9u8), Verdict::Reject(w.clone()), 222u8),
            (Some(w.clone()), Err(0u8), Verdict::Accept(0u8), 121u8),
        ] {
            chk("discriminants", want.to_string(), f_which.call(o, r, vd).to_string());
        }
        rep.evaluations += 17;
        if let Some((what, want, got)) = bad.first() {
            let mut input = json!({"script": src, "construct": what, "expected": want, "got": got, "round": k});
            input["case"] = json!(name);
            rep.violation(
                "the script's view of an Option/Result/Verdict differs from Rust's",
                &format!("enum-view:{}:{}", what.split(['(', ' ']).next().unwrap_or(""), d.class()),
                input,
            );
            return;
        }
    }
    rep.class(format!("wrap:{}", d.class()));
}

/// narrow integers computed by the script and handed to Rust: the callee must
/// see exactly the (wrapped) value the script holds
fn sc_narrow(env: &Env, rep: &mut Report, name: &str) {
    fn w8(x: u8) -> u64 { log(format!("{x}")); x as u64 }
    fn wi8(x: i8) -> i64 { log(format!("{x}")); x as i64 }
    fn w16(x: u16) -> u64 { log(format!("{x}")); x as u64 }
    fn wi16(x: i16) -> i64 { log(format!("{x}")); x as i64 }
    fn wb(x: bool) -> u64 { log(format!("{x}")); x as u64 }
    let mut rt = base_runtime();
    rt.add(Function::new("w8", "", vec!["x"], w8, location!()).unwrap()).unwrap();
    rt.add(Function::new("wi8", "", vec!["x"], wi8, location!()).unwrap()).unwrap();
    rt.add(Function::new("w16", "", vec!["x"], w16, location!()).unwrap()).unwrap();
    rt.add(Function::new("wi16", "", vec!["x"], wi16, location!()).unwrap()).unwrap();
    rt.add(Function::new("wb", "", vec!["x"], wb, location!()).unwrap()).unwrap();
    let src = "fn f8(a: u8, b: u8) -> u64 { w8(a * b) }\n\
               fn fi8(a: i8, b: i8) -> i64 { wi8(a * b) }\n\
               fn f16(a: u16, b: u16) -> u64 { w16(a * b) }\n\
               fn fi16(a: i16, b: i16) -> i64 { wi16(a * b) }\n\
               fn fb(a: u8, b: u8) -> u64 { wb(a < b) }\n\
               fn r8(a: u8, b: u8) -> u8 { a * b }\n\
               fn ri16(a: i16, b: i16) -> i16 { a * b }\n";
    let Some(mut pkg) = compile_noctx(&rt, src, rep, name) else { return };
    let f8 = pkg.get_function::<fn(u8, u8) -> u64>("f8").unwrap();
    let fi8 = pkg.get_function::<fn(i8, i8) -> i64>("fi8").unwrap();
    let f16 = pkg.get_function::<fn(u16, u16) -> u64>("f16").unwrap();
    let fi16 = pkg.get_function::<fn(i16, i16) -> i64>("fi16").unwrap();
    let fb = pkg.get_function::<fn(u8, u8) -> u64>("fb").unwrap();
    let r8 = pkg.get_function::<fn(u8, u8) -> u8>("r8").unwrap();
    let ri16 = pkg.get_function::<fn(i16, i16) -> i16>("ri16").unwrap();
    let mut p = Prng::for_case(env.seed, h64(name));
    for k in 0..env.rounds * 8 {
        let (a, b) = (u64::gen_val(&mut p, k), u64::gen_val(&mut p, k / 8 + 3));
        let mut bad = vec![];
        let mut chk = |what: &str, want: String, got: String| {
            if want != got {
                bad.push(json!({"fn": what, "expected": want, "got": got, "a": a, "b": b}));
            }
        };
        chk("f8", ((a as u8).wrapping_mul(b as u8) as u64).to_string(), f8.call(a as u8, b as u8).to_string());
        chk("fi8", ((a as i8).wrapping_mul(b as i8) as i64).to_string(), fi8.call(a as i8, b as i8).to_string());
        chk("f16", ((a as u16).wrapping_mul(b as u16) as u64).to_string(), f16.call(a as u16, b as u16).to_string());
        chk("fi16", ((a as i16).wrapping_mul(b as i16) as i64).to_string(), fi16.call(a as i16, b as i16).to_string());
        chk("fb", (((a as u8) < (b as u8)) as u64).to_string(), fb.call(a as u8, b as u8).to_string());
        chk("r8", (a as u8).wrapping_mul(b as u8).to_string(), r8.call(a as u8, b as u8).to_string());
        chk("ri16", (a as i16).wrapping_mul(b as i16).to_string(), ri16.call(a as i16, b as i16).to_string());
        rep.evaluations += 7;
        if let Some(b0) = bad.first() {
            let mut input = b0.clone();
            input["case"] = json!(name);
            input["script"] = json!(src);
            rep.violation(
                "a narrow integer computed by the script arrived with stale upper bits",
                &format!("narrow-int:{}", b0["fn"].as_str().unwrap_or("")),
                input,
            );
            return;
        }
    }
    rep.class("narrow-int");
}

fn tag_w4<T: BT>(r: Val<W4>, x: T) -> T {
    log(r.show());
    log(x.show());
    x
}
fn tag_z0<T: BT>(r: Val<Z0>, x: T, n: u16) -> T {
    log(r.show());
    log(x.show());
    log(n.show());
    x
}
fn consume<T: BT>(x: T, n: u16) {
    log(x.show());
    log(n.show());
}
fn make_static<T: BT>(x: T, n: u16) -> T {
    log(x.show());
    log(n.show());
    x
}

/// registered methods (receiver first — also a zero-sized receiver) and a static method
fn sc_method<T: BT>(env: &Env, rep: &mut Report, name: &str) {
    let d = T::desc();
    let t = d.roto();
    let mut rt = base_runtime();
    let mut i1 = Impl::new::<Val<W4>>(location!());
    i1.add(Function::new("tag", "", vec!["r", "x"], tag_w4::<T>, location!()).unwrap());
    i1.add(Function::new("make", "", vec!["x", "n"], make_static::<T>, location!()).unwrap());
    rt.add(i1).unwrap();
    let mut i2 = Impl::new::<Val<Z0>>(location!());
    i2.add(Function::new("tag", "", vec!["r", "x", "n"], tag_z0::<T>, location!()).unwrap());
    rt.add(i2).unwrap();
    rt.add(Function::new("consume", "", vec!["x", "n"], consume::<T>, location!()).unwrap()).unwrap();
    let src = format!(
        "fn m1(r: W4, x: {t}) -> {t} {{ r.tag(x) }}\nfn m2(x: {t}, r: Z0, n: u16) -> {t} {{ r.tag(x, n) }}\nfn m3(n: u16, x: {t}) -> {t} {{ W4.make(x, n) }}\n\
         fn m4(n: u16, x: {t}) -> {t} {{ consume(x, n); W4.make(x, n) }}\n"
    );
    let Some(mut pkg) = compile_noctx(&rt, &src, rep, name) else { return };
    macro_rules! g { ($n:literal, $f:ty) => { match pkg.get_function::<$f>($n) { Ok(f) => f, Err(e) => {
        rep.mismatch("get_function refused a boundary signature", json!({"case": name, "script": src, "fn": $n, "error": format!("{e:?}")})); return } } } }
    let m1 = g!("m1", fn(Val<W4>, T) -> T);
    let m2 = g!("m2", fn(T, Val<Z0>, u16) -> T);
    let m3 = g!("m3", fn(u16, T) -> T);
    let m4 = g!("m4", fn(u16, T) -> T);
    let mut p = Prng::for_case(env.seed, h64(name));
    for k in 0..env.rounds {
        let (r, x, n) = (Val::<W4>::gen_val(&mut p, k), T::gen_val(&mut p, k + 1), u16::gen_val(&mut p, k + 2));
        let (rs, xs, ns) = (r.show(), x.show(), n.show());
        let mut bad = vec![];
        clear_log();
        let got = m1.call(r, x.clone()).show();
        let lg = take_log();
        if got != xs || lg != vec![rs.clone(), xs.clone()] { bad.push(json!({"fn": "m1", "returned": got, "method_saw": lg})); }
        clear_log();
        let got = m2.call(x.clone(), Val(Z0), n).show();
        let lg = take_log();
        if got != xs || lg != vec!["Z0".to_string(), xs.clone(), ns.clone()] { bad.push(json!({"fn": "m2", "returned": got, "method_saw": lg})); }
        clear_log();
        let got = m3.call(n, x.clone()).show();
        let lg = take_log();
        if got != xs || lg != vec![xs.clone(), ns.clone()] { bad.push(json!({"fn": "m3", "returned": got, "method_saw": lg})); }
        // a registered function returning `()` consumes a copy first
        clear_log();
        let got = m4.call(n, x.clone()).show();
        let lg = take_log();
        if got != xs || lg != vec![xs.clone(), ns.clone(), xs.clone(), ns.clone()] { bad.push(json!({"fn": "m4", "returned": got, "functions_saw": lg})); }
        rep.evaluations += 4;
        if let Some(b) = bad.first() {
            let mut input = b.clone();
            input["script"] = json!(src);
            input["sent"] = json!([rs, xs, ns]);
            input["round"] = json!(k);
            violation(rep, name, &[d.clone()], 1, input);
            return;
        }
    }
    rep.class(format!("method:{}", d.class()));
}

/// elements of a list as the script's `get` (ffi::list_get) and `for` hand them out
fn sc_listget<T: BT>(env: &Env, rep: &mut Report, name: &str) {
    let d = T::desc();
    let t = d.roto();
    let rt = base_runtime();
    let src = format!(
        "fn get(l: List[{t}], i: u64) -> Option[{t}] {{ l.get(i) }}\n\
         fn last(l: List[{t}], d: {t}) -> {t} {{ let r = d; for x in l {{ r = x; }} r }}\n\
         fn count(l: List[{t}]) -> u64 {{ let n = 0; for x in l {{ n = n + 1; }} n }}\n\
         fn mk(a: {t}, b: {t}) -> List[{t}] {{ [a, b, a] }}\n\
         fn push(l: List[{t}], x: {t}) -> List[{t}] {{ l.push(x); l }}\n"
    );
    let Some(mut pkg) = compile_noctx(&rt, &src, rep, name) else { return };
    macro_rules! g { ($n:literal, $f:ty) => { match pkg.get_function::<$f>($n) { Ok(f) => f, Err(e) => {
        rep.mismatch("get_function refused a boundary signature", json!({"case": name, "script": src, "fn": $n, "error": format!("{e:?}")})); return } } } }
    let f_get = g!("get", fn(List<T>, u64) -> Option<T>);
    let f_last = g!("last", fn(List<T>, T) -> T);
    let f_count = g!("count", fn(List<T>) -> u64);
    let f_mk = g!("mk", fn(T, T) -> List<T>);
    let f_push = g!("push", fn(List<T>, T) -> List<T>);
    let mut p = Prng::for_case(env.seed, h64(name));
    for k in 0..env.rounds {
        let l = List::<T>::gen_val(&mut p, k);
        let v = l.to_vec();
        let dflt = T::gen_val(&mut p, k + 5);
        let mut bad = vec![];
        for i in 0..(v.len() as u64 + 2) {
            let want = v.get(i as usize).cloned().show();
            let got = f_get.call(l.clone(), i).show();
            rep.evaluations += 1;
            if want != got { bad.push(json!({"fn": "get", "index": i, "expected": want, "got": got})); break; }
        }
        let want = v.last().cloned().unwrap_or(dflt.clone()).show();
        let got = f_last.call(l.clone(), dflt).show();
        if want != got { bad.push(json!({"fn": "last", "expected": want, "got": got})); }
        let got = f_count.call(l.clone());
        if got != v.len() as u64 { bad.push(json!({"fn": "count", "expected": v.len(), "got": got})); }
        // a list built by the script (element size/alignment/clone/drop from Roto's own vtable) read by Rust
        let (a, b) = (T::gen_val(&mut p, k + 1), T::gen_val(&mut p, k + 2));
        let want = format!("[{}, {}, {}]", a.show(), b.show(), a.show());
        let got = f_mk.call(a, b.clone()).show();
        if want != got { bad.push(json!({"fn": "mk", "expected": want, "got": got})); }
        let mut w = v.clone();
        w.push(b.clone());
        let want = format!("[{}]", w.iter().map(|x| x.show()).collect::<Vec<_>>().join(", "));
        let got = f_push.call(List::from(v.clone()), b).show();
        if want != got { bad.push(json!({"fn": "push", "expected": want, "got": got})); }
        rep.evaluations += 4;
        if let Some(b) = bad.first() {
            let mut input = b.clone();
            input["script"] = json!(src);
            input["list"] = json!(l.show());
            input["round"] = json!(k);
            violation(rep, name, &[D::List(Box::new(d.clone()))], 1, input);
            return;
        }
    }
    rep.class(format!("listget:{}", d.class()));
}

/// the same boundary through the `library!` macro: functions, closures, methods,
/// static methods and constants over concrete types of several classes
fn sc_library(env: &Env, rep: &mut Report, name: &str) {
    let captured = 41u64;
    let lib = roto::library! {
        #[copy] type Z0 = Val<Z0>;
        #[copy] type W4 = Val<W4>;
        #[copy] type X16 = Val<X16>;
        #[clone] type Hs = Val<Hs>;

        fn mix(a: u8, z: Val<Z0>, s: RotoString, w: Val<W4>, o: Option<u16>, f: f32, h: Val<Hs>) -> Verdict<RotoString, u64> {
            log(a.show()); log(z.show()); log(s.show()); log(w.show()); log(o.show()); log(f.show()); log(h.show());
            if a % 2 == 0 { Verdict::Accept(s) } else { Verdict::Reject(w.0.0 as u64) }
        }

        let shift = move |x: Val<X16>, n: i16| -> Option<Val<X16>> {
            log(x.show()); log(n.show());
            if n < 0 { None } else { Some(Val(X16(x.0.0.wrapping_add(captured as u128)))) }
        };

        impl Val<W4> {
            fn tag(r: Val<W4>, x: Option<Val<Hs>>, z: Val<Z0>, y: u64) -> Result<Val<Hs>, u64> {
                log(r.show()); log(x.show()); log(z.show()); log(y.show());
                match x { Some(h) => Ok(h), None => Err(y ^ r.0.0 as u64) }
            }
            fn make(n: u32) -> Val<W4> { Val(W4(n.rotate_left(7))) }
        }

        const KW: Val<W4> = Val(W4(0xDEAD_BEEF));
        const KS: Option<RotoString> = Some(RotoString::new("constant"));
        const KX: Result<Val<X16>, u8> = Ok(Val(X16(0x0102_0304_0506_0708_090a_0b0c_0d0e_0f10)));
    };
    let rt = match Runtime::from_lib(lib) {
        Ok(rt) => rt,
        Err(e) => { rep.mismatch("library! items over boundary types were refused", json!({"case": name, "error": format!("{e:?}")})); return }
    };
    let src = "fn f_mix(a: u8, z: Z0, s: String, w: W4, o: Option[u16], f: f32, h: Hs) -> Verdict[String, u64] { mix(a, z, s, w, o, f, h) }\n\
               fn f_shift(x: X16, n: i16) -> Option[X16] { shift(x, n) }\n\
               fn f_tag(r: W4, x: Option[Hs], z: Z0, y: u64) -> Result[Hs, u64] { r.tag(x, z, y) }\n\
               fn f_make(n: u32) -> W4 { W4.make(n) }\n\
               fn f_kw() -> W4 { KW }\nfn f_ks() -> Option[String] { KS }\nfn f_kx() -> Result[X16, u8] { KX }\n";
    let Some(mut pkg) = compile_noctx(&rt, src, rep, name) else { return };
    macro_rules! g { ($n:literal, $f:ty) => { match pkg.get_function::<$f>($n) { Ok(f) => f, Err(e) => {
        rep.mismatch("get_function refused a boundary signature", json!({"case": name, "script": src, "fn": $n, "error": format!("{e:?}")})); return } } } }
    let f_mix = g!("f_mix", fn(u8, Val<Z0>, RotoString, Val<W4>, Option<u16>, f32, Val<Hs>) -> Verdict<RotoString, u64>);
    let f_shift = g!("f_shift", fn(Val<X16>, i16) -> Option<Val<X16>>);
    let f_tag = g!("f_tag", fn(Val<W4>, Option<Val<Hs>>, Val<Z0>, u64) -> Result<Val<Hs>, u64>);
    let f_make = g!("f_make", fn(u32) -> Val<W4>);
    let f_kw = g!("f_kw", fn() -> Val<W4>);
    let f_ks = g!("f_ks", fn() -> Option<RotoString>);
    let f_kx = g!("f_kx", fn() -> Result<Val<X16>, u8>);
    let mut p = Prng::for_case(env.seed, h64(name));
    for k in 0..env.rounds {
        let mut bad: Vec<J> = vec![];
        let mut chk = |what: &str, want: Vec<String>, got: Vec<String>| {
            if want != got {
                bad.push(json!({"fn": what, "expected": want, "got": got}));
            }
        };
        let (a, s, w, o, f, h) = (u8::gen_val(&mut p, k), RotoString::gen_val(&mut p, k + 1), Val::<W4>::gen_val(&mut p, k + 2),
            Option::<u16>::gen_val(&mut p, k + 3), f32::gen_val(&mut p, k + 4), Val::<Hs>::gen_val(&mut p, k + 5));
        let sent = vec![a.show(), "Z0".to_string(), s.show(), w.show(), o.show(), f.show(), h.show()];
        let want_ret = if a % 2 == 0 { format!("Accept({})", s.show()) } else { format!("Reject({}u64)", w.0.0) };
        clear_log();
        let got = f_mix.call(a, Val(Z0), s, w, o, f, h).show();
        let mut lg = take_log();
        lg.push(got);
        let mut want = sent.clone();
        want.push(want_ret);
        chk("mix", want, lg);

        let (x, n) = (Val::<X16>::gen_val(&mut p, k), i16::gen_val(&mut p, k + 1));
        let want_ret = if n < 0 { "None".to_string() } else { format!("Some({})", Val(X16(x.0.0.wrapping_add(41))).show()) };
        clear_log();
        let got = f_shift.call(x, n).show();
        let mut lg = take_log();
        lg.push(got);
        chk("shift (closure)", vec![x.show(), n.show(), want_ret], lg);

        let (r, xo, y) = (Val::<W4>::gen_val(&mut p, k + 1), Option::<Val<Hs>>::gen_val(&mut p, k), u64::gen_val(&mut p, k + 2));
        let want_ret = match &xo { Some(h) => format!("Ok({})", h.show()), None => format!("Err({}u64)", y ^ r.0.0 as u64) };
        clear_log();
        let got = f_tag.call(r, xo.clone(), Val(Z0), y).show();
        let mut lg = take_log();
        lg.push(got);
        chk("W4.tag (method)", vec![r.show(), xo.show(), "Z0".to_string(), y.show(), want_ret], lg);

        let n = u32::gen_val(&mut p, k);
        chk("W4.make (static)", vec![Val(W4(n.rotate_left(7))).show()], vec![f_make.call(n).show()]);
        chk("KW", vec![Val(W4(0xDEAD_BEEF)).show()], vec![f_kw.call().show()]);
        chk("KS", vec![Some(RotoString::new("constant")).show()], vec![f_ks.call().show()]);
        chk("KX", vec![Result::<Val<X16>, u8>::Ok(Val(X16(0x0102_0304_0506_0708_090a_0b0c_0d0e_0f10))).show()], vec![f_kx.call().show()]);
        rep.evaluations += 7;
        if let Some(b) = bad.first() {
            let mut input = b.clone();
            input["case"] = json!(name);
            input["script"] = json!(src);
            input["round"] = json!(k);
            rep.violation("a value crossing through library!-registered items arrived different from what was sent",
                &format!("value-changed:library:{}", b["fn"].as_str().unwrap_or("").split(' ').next().unwrap_or("")), input);
            return;
        }
    }
    rep.class("library-macro");
}

// context structs through `#[derive(Context)]` (the `offset_of!` table of macros/src/lib.rs),
// the same fields in three declaration orders / representations
macro_rules! derived_ctx {
    ($s:ident, $(#[$m:meta])* [$($f:ident : $t:ty),*], $label:literal, $fname:ident) => {
        #[derive(Clone, Context)]
        $(#[$m])*
        pub struct $s { $(pub $f: $t),* }
        fn $fname(env: &Env, rep: &mut Report, name: &str) {
            $( let _ = <$t as Value>::resolve(); )*
            let rt = match base_runtime().with_context_type::<$s>() {
                Ok(rt) => rt,
                Err(e) => { rep.mismatch("a derived context type was refused", json!({"case": name, "error": e})); return }
            };
            let mut src = String::new();
            $( src.push_str(&format!("fn get_{n}() -> {t} {{ {n} }}\n", n = stringify!($f), t = <$t as BT>::desc().roto())); )*
            let Some(mut pkg) = compile(&rt, &src, rep, name) else { return };
            let mut p = Prng::for_case(env.seed, h64(name));
            for k in 0..env.rounds {
                let mut ctx = $s { $($f: <$t as BT>::gen_val(&mut p, k.wrapping_add(h64(stringify!($f)) as u32 % 7))),* };
                $( {
                    let want = ctx.$f.show();
                    let f = pkg.get_function::<fn() -> $t>(concat!("get_", stringify!($f))).unwrap();
                    let got = f.call(&mut ctx).show();
                    rep.evaluations += 1;
                    if got != want {
                        let mut input = json!({"script": src, "field": stringify!($f), "field_value": want, "read": got, "round": k,
                            "offsets": <$s as Context>::fields().iter().map(|f| (f.name, f.offset)).collect::<Vec<_>>()});
                        input["case"] = json!(name);
                        rep.violation("a context field read by a script differs from the field's value",
                            &format!("context-field:{}:{}", $label, <$t as BT>::desc().class()), input);
                        return;
                    }
                } )*
            }
            rep.class(format!("ctxderive:{}", $label));
        }
    };
}
derived_ctx!(DCtx1, [a: u8, b: u64, c: Val<X16>, d: u16, e: RotoString, f: bool, g: IpAddr, z: Val<Z0>, h: f32, i: Val<B3>], "declared", sc_dctx1);
derived_ctx!(DCtx2, [i: Val<B3>, h: f32, z: Val<Z0>, g: IpAddr, f: bool, e: RotoString, d: u16, c: Val<X16>, b: u64, a: u8], "reversed", sc_dctx2);
derived_ctx!(DCtx3, #[repr(C)] [f: bool, c: Val<X16>, a: u8, e: RotoString, d: u16, z: Val<Z0>, b: u64, i: Val<B3>, g: IpAddr, h: f32], "repr-C", sc_dctx3);

include!("../c05/positions.in");

// ------------------------------------------------------------------ case list

type Run = fn(&Env, &mut Report, &str);
pub struct Case {
    name: String,
    run: Run,
}
fn case<T: BT>(scen: &str, run: Run) -> Case {
    Case { name: format!("{scen} {}", T::desc().roto()), run }
}

include!("../c05/types.in");
include!("../c05/sites.rs");
include!("../c05/declared.rs");

/// Class representatives of the read-site / private-copy scenarios: one type per
/// boundary type family (the seven scalar kinds, by-reference plain data, clone
/// types, zero-sized / copy / clone registered types, each enum, a list) x every
/// site shape x every source. They run first and with a fixed seed (`rep:` cases
/// ignore `VERIF_SEED`; their values are the edge tables).
fn rep_cases(cases: &mut Vec<Case>) {
    fn rep<T: BT>(scen: &str, run: Run) -> Case {
        Case { name: format!("rep:{scen} {}", T::desc().roto()), run }
    }
    // script-declared types in exported signatures (refused, or crossing unchanged)
    declared_cases(cases);
    macro_rules! any_type { ($($t:ty);* $(;)?) => { $(
        cases.push(rep::<$t>("sites-const", sc_sites_const::<$t>));
        cases.push(rep::<$t>("sites-arg", sc_sites_arg::<$t>));
        cases.push(rep::<$t>("alias-const", sc_alias_const::<$t>));
        cases.push(rep::<$t>("alias-rec", sc_alias_record_const::<$t>));
    )* } }
    any_type!(u8; u32; i64; f64; bool; char; Asn; IpAddr; Prefix; RotoString; (); Val<Z0>; Val<W4>; Val<X16>; Val<Hs>;
        Option<u32>; Option<IpAddr>; Result<u8, u64>; Verdict<IpAddr, u32>; List<u8>);
    macro_rules! ctx_type { ($($t:ty);* $(;)?) => { $(
        cases.push(rep::<$t>("sites-ctx", sc_sites_ctx::<$t>));
        cases.push(rep::<$t>("alias-ctxA", sc_alias_ctx_a::<$t>));
        cases.push(rep::<$t>("alias-ctxC", sc_alias_ctx_c::<$t>));
    )* } }
    ctx_type!(u8; u32; i64; f64; bool; char; Asn; IpAddr; Prefix; RotoString; Val<Z0>; Val<W4>; Val<X16>; Val<Hs>);
}

fn cases() -> Vec<Case> {
    let mut cases: Vec<Case> = vec![];
    rep_cases(&mut cases);
    macro_rules! light { ($($t:ty);* $(;)?) => { $(
        cases.push(case::<$t>("identity", sc_identity::<$t>));
        cases.push(case::<$t>("echo", sc_echo::<$t>));
        cases.push(case::<$t>("constant", sc_constant::<$t>));
    )* } }
    all_types!(light);
    macro_rules! ctxs { ($($t:ty);* $(;)?) => { $(
        cases.push(case::<$t>("ctxA", sc_ctx_a::<$t>));
        cases.push(case::<$t>("ctxB", sc_ctx_b::<$t>));
        cases.push(case::<$t>("ctxC", sc_ctx_c::<$t>));
    )* } }
    ctx_types!(ctxs);
    macro_rules! wrap { ($($t:ty);* $(;)?) => { $( cases.push(case::<$t>("wrap", sc_wrap::<$t>)); )* } }
    wrap_types!(wrap);
    macro_rules! heavy { ($($t:ty);* $(;)?) => { $(
        position_cases!($t, cases);
        cases.push(case::<$t>("method", sc_method::<$t>));
    )* } }
    core_types!(heavy);
    macro_rules! lists { ($($t:ty);* $(;)?) => { $( cases.push(case::<$t>("listget", sc_listget::<$t>)); )* } }
    leaf_types!(lists);
    cases.push(Case { name: "narrow ints".into(), run: sc_narrow });
    cases.push(Case { name: "library macro".into(), run: sc_library });
    cases.push(Case { name: "ctxderive declared".into(), run: sc_dctx1 });
    cases.push(Case { name: "ctxderive reversed".into(), run: sc_dctx2 });
    cases.push(Case { name: "ctxderive repr-C".into(), run: sc_dctx3 });
    // the read-site / private-copy scenarios over the whole family
    macro_rules! sites { ($($t:ty);* $(;)?) => { $(
        cases.push(case::<$t>("sites-const", sc_sites_const::<$t>));
        cases.push(case::<$t>("sites-arg", sc_sites_arg::<$t>));
        cases.push(case::<$t>("alias-const", sc_alias_const::<$t>));
    )* } }
    all_types!(sites);
    macro_rules! sites_ctx { ($($t:ty);* $(;)?) => { $(
        cases.push(case::<$t>("sites-ctx", sc_sites_ctx::<$t>));
        cases.push(case::<$t>("alias-ctxA", sc_alias_ctx_a::<$t>));
        cases.push(case::<$t>("alias-ctxC", sc_alias_ctx_c::<$t>));
    )* } }
    ctx_types!(sites_ctx);
    macro_rules! recs { ($($t:ty);* $(;)?) => { $( cases.push(case::<$t>("alias-rec", sc_alias_record_const::<$t>)); )* } }
    wrap_types!(recs);
    cases
}

fn type_descs() -> Vec<(D, Probe)> {
    let mut v = vec![];
    macro_rules! d { ($($t:ty);* $(;)?) => { $( v.push((<$t as BT>::desc(), <$t as BT>::probe())); )* } }
    all_types!(d);
    v
}

/// size and type name of `T::AsParam` for every type of the family
fn asparams() -> Vec<(usize, &'static str)> {
    let mut v = vec![];
    macro_rules! d { ($($t:ty);* $(;)?) => { $( v.push(<$t as BT>::asparam()); )* } }
    all_types!(d);
    v
}

// ------------------------------------------------------------------ facts (tie)

fn host_layouts() -> String {
    fn l<T>() -> String {
        format!("{},{}", std::mem::size_of::<T>(), std::mem::align_of::<T>())
    }
    // `ErasedList` is not nameable here: `List<T>` is a transparent wrapper around it
    format!("{},{},{},{},{}", l::<char>(), l::<RotoString>(), l::<IpAddr>(), l::<Prefix>(), l::<List<u8>>())
}

fn field<'a>(ans: &'a str, key: &str, n: usize) -> Vec<&'a str> {
    let ws: Vec<&str> = ans.split(' ').collect();
    match ws.iter().position(|w| *w == key) {
        Some(i) => ws[i + 1..].iter().take(n).copied().collect(),
        None => vec![],
    }
}

fn ir_to_abi(t: &str) -> &'static str {
    match t {
        "Bool" | "U8" | "I8" => "i8",
        "U16" | "I16" => "i16",
        "U32" | "I32" | "Asn" | "Char" => "i32",
        "U64" | "I64" | "Pointer" => "i64",
        "F32" => "f32",
        "F64" => "f64",
        _ => "?",
    }
}

/// Compare the Lean model with rustc's layouts and with the compiler's own
/// decisions for every type of the family.
fn facts(rep: &mut Report, tier: &str) {
    let mut drv = Driver::spawn().expect("spawn rotov-driver");
    let hl = host_layouts();
    assert_eq!(std::mem::size_of::<usize>(), 8, "the model assumes 64-bit pointers");
    let descs = type_descs();

    // discriminants
    let tags = drv.ask("c05 tags");
    rep.evaluations += 1;
    let mut real_tags = vec![];
    for (d, pr) in &descs {
        let names: &[&str] = match d {
            D::Opt(_) => &["Some", "None"],
            D::Res(..) => &["Ok", "Err"],
            D::Ver(..) => &["Accept", "Reject"],
            _ => continue,
        };
        for (n, (tag, _)) in names.iter().zip(&pr.variants) {
            let s = format!("{n}={tag}");
            if !real_tags.contains(&s) {
                real_tags.push(s);
            }
        }
    }
    let rust_part = tags.split(" | ").next().unwrap_or("").to_string();
    let script_part = tags.split(" | ").nth(1).unwrap_or("").trim_start_matches("script ").to_string();
    let mut model_tags: Vec<String> = rust_part.split(' ').map(|s| s.to_string()).collect();
    model_tags.sort();
    let mut rt_sorted = real_tags.clone();
    rt_sorted.sort();
    if model_tags != rt_sorted {
        rep.mismatch("discriminant bytes of the real transformed values differ from the model's", json!({"real": real_tags, "model": rust_part}));
    }
    if rust_part != script_part {
        rep.mismatch("model: Rust declaration order and default_types() order differ", json!({"rust": rust_part, "script": script_part}));
    }
    rep.sample(json!({"tags": tags}));

    // layouts and single-parameter signatures
    let rt = base_runtime();
    let aps = asparams();
    for ((d, pr), (ap_size, ap_name)) in descs.iter().zip(&aps) {
        let ans = drv.ask(&format!("c05 layout {hl} {}", d.lean()));
        rep.evaluations += 1;
        // `T::AsParam` as the trait impls really define it against the generated AsParam kinds
        let model_ap = field(&ans, "asparam", 1).join("");
        let (want_size, want_ptr) = match model_ap.as_str() {
            "none" => (0, false),
            "i8" => (1, false),
            "i16" => (2, false),
            "i32" | "f32" => (4, false),
            "f64" => (8, false),
            "i64" => (8, !matches!(d, D::Prim("u64") | D::Prim("i64"))),
            _ => (usize::MAX, false),
        };
        if *ap_size != want_size || ap_name.starts_with("*mut ") != want_ptr {
            rep.mismatch("the real `AsParam` of a boundary type differs from the model's parameter kind",
                json!({"type": d.roto(), "real": [ap_size, ap_name], "model": model_ap}));
        }
        let rust = field(&ans, "rust", 2).join(" ");
        let roto = field(&ans, "roto", 2).join(" ");
        let real = format!("{} {}", pr.size, pr.align);
        if rust != real {
            rep.mismatch("size_of/align_of of a transformed type differs from the model's Rust layout", json!({"type": d.roto(), "real": real, "model": ans}));
        }
        let offs = field(&ans, "offs", 3);
        if !pr.variants.is_empty() {
            let real_offs: Vec<String> = pr.variants.iter().map(|(_, o)| o.map(|x| x.to_string()).unwrap_or("-".into())).collect();
            let real_offs = real_offs.join(",");
            if offs.len() == 3 && (offs[2] != real_offs) {
                rep.mismatch("payload offsets of a #[repr(u8)] mirror differ from the model's", json!({"type": d.roto(), "real": real_offs, "model": ans}));
            }
        }
        // the compiler's own facts for `fn main(x: T) -> T`
        let src = format!("fn main(x: {t}) -> {t} {{ x }}\n", t = d.roto());
        let dump = match std::panic::catch_unwind(std::panic::AssertUnwindSafe(|| {
            roto::verif_hooks::c05::signatures(FileTree::test_file("c05.roto", &src, 0), &rt)
        })) {
            Ok(Ok(dump)) => dump,
            Ok(Err(e)) => {
                rep.mismatch("a script over boundary types did not compile", json!({"script": src, "error": format!("{e:?}").chars().take(400).collect::<String>()}));
                continue;
            }
            Err(_) => {
                rep.violation("the compiler panicked on an identity script", &format!("compile-panic:{}", d.class()), json!({"script": src}));
                continue;
            }
        };
        let Some(m) = dump.mir.iter().find(|m| m.name == "pkg.main") else {
            rep.mismatch("hook: pkg.main not in the MIR dump", json!({"script": src}));
            continue;
        };
        let real_roto = m.ret.layout.map(|(s, a)| format!("{s} {a}")).unwrap_or("-".into());
        if real_roto != roto {
            rep.mismatch("Pool::layout_of differs from the model", json!({"type": d.roto(), "real": real_roto, "model": ans}));
        }
        if real_roto != real {
            rep.violation(
                "Roto's layout of a boundary type differs from rustc's layout of its transformed type",
                &format!("layout:size:{}", d.class()),
                json!({"type": d.roto(), "roto": real_roto, "rustc": real}),
            );
        }
        let isref = field(&ans, "isref", 1).join("");
        let real_ref = match m.ret.is_reference_type { Some(true) => "1", Some(false) => "0", None => "-" };
        if isref != real_ref {
            rep.mismatch("Pool::is_reference_type differs from the model", json!({"type": d.roto(), "real": real_ref, "model": ans}));
        }
        // where `Lowerer::location` puts field 0 of each variant
        if !pr.variants.is_empty() {
            let real_offs: Vec<String> = pr.variants.iter().map(|(_, o)| o.map(|x| x.to_string()).unwrap_or("-".into())).collect();
            let real_offs = real_offs.join(",");
            match &m.ret.variant_offsets {
                Some(vo) => {
                    let loc: Vec<String> = vo.iter().map(|o| o.map(|x| x.to_string()).unwrap_or("-".into())).collect();
                    let loc = loc.join(",");
                    if offs.len() == 3 && offs[0] != loc {
                        rep.mismatch("Lowerer::location's variant-field offsets differ from the model", json!({"type": d.roto(), "real": loc, "model": ans}));
                    }
                    if loc != real_offs {
                        // Roto reads the payload somewhere else than rustc put it
                        rep.violation(
                            "Roto's variant-field offset differs from rustc's payload offset",
                            &format!("layout:offset:{}", d.class()),
                            json!({"type": d.roto(), "rustc": real_offs, "roto": loc}),
                        );
                    }
                }
                None => rep.mismatch("hook: an Option/Result/Verdict is not an enum in the MIR", json!({"type": d.roto()})),
            }
        }
        sig_check(&mut drv, rep, &hl, &dump, "pkg.main", d, std::slice::from_ref(d), &src);
        rep.class(format!("facts:{}", d.class()));
        rep.hist("depth", d.depth().to_string());
        rep.hist("size", pr.size.to_string());
        rep.hist("align", pr.align.to_string());
    }

    // random deeper types (no Rust counterpart needed): the compiler's own layout_of /
    // is_reference_type / variant offsets / lowered signature against the model
    {
        let n = if tier == "thorough" { 3000 } else { 300 };
        let mut p = Prng::new(0xDEE9);
        let leaf_ds: Vec<&D> = descs.iter().map(|x| &x.0).filter(|d| d.depth() == 0).collect();
        fn deep(p: &mut Prng, leaves: &[&D], depth: u32) -> D {
            if depth == 0 || p.chance(1, 4) {
                return (*p.pick(leaves)).clone();
            }
            match p.below(4) {
                0 => D::Opt(Box::new(deep(p, leaves, depth - 1))),
                1 => D::Res(Box::new(deep(p, leaves, depth - 1)), Box::new(deep(p, leaves, depth - 1))),
                2 => D::Ver(Box::new(deep(p, leaves, depth - 1)), Box::new(deep(p, leaves, depth - 1))),
                _ => D::List(Box::new(deep(p, leaves, depth - 1))),
            }
        }
        for _ in 0..n {
            let dep = 2 + p.below(4) as u32;
            let d = deep(&mut p, &leaf_ds, dep);
            let ans = drv.ask(&format!("c05 layout {hl} {}", d.lean()));
            rep.evaluations += 1;
            let src = format!("fn main(x: {t}) -> {t} {{ x }}\n", t = d.roto());
            let dump = match std::panic::catch_unwind(std::panic::AssertUnwindSafe(|| {
                roto::verif_hooks::c05::signatures(FileTree::test_file("c05.roto", &src, 0), &rt)
            })) {
                Ok(Ok(dump)) => dump,
                Ok(Err(e)) => {
                    rep.mismatch("a script over boundary types did not compile", json!({"script": src, "error": format!("{e:?}").chars().take(400).collect::<String>()}));
                    continue;
                }
                Err(_) => {
                    rep.violation("the compiler panicked on an identity script", &format!("compile-panic:{}", d.class()), json!({"script": src}));
                    continue;
                }
            };
            let Some(m) = dump.mir.iter().find(|m| m.name == "pkg.main") else { continue };
            let real_roto = m.ret.layout.map(|(s, a)| format!("{s} {a}")).unwrap_or("-".into());
            let real_ref = match m.ret.is_reference_type { Some(true) => "1", Some(false) => "0", None => "-" };
            let loc = m.ret.variant_offsets.as_ref().map(|vo| vo.iter().map(|o| o.map(|x| x.to_string()).unwrap_or("-".into())).collect::<Vec<_>>().join(","));
            let offs = field(&ans, "offs", 3);
            // the model's Rust side is the closed form the theorems relate the Roto side to
            let model_rust = field(&ans, "rust", 2).join(" ");
            if field(&ans, "roto", 2).join(" ") != real_roto || field(&ans, "isref", 1).join("") != real_ref
                || (loc.is_some() && offs.len() == 3 && Some(offs[0].to_string()) != loc) || model_rust != real_roto
                || (offs.len() == 3 && loc.is_some() && offs[2] != offs[0])
            {
                rep.mismatch("layout_of / is_reference_type / variant offsets of a deep type differ from the model",
                    json!({"type": d.roto(), "real": {"layout": real_roto, "isref": real_ref, "offsets": loc}, "model": ans}));
                continue;
            }
            sig_check(&mut drv, rep, &hl, &dump, "pkg.main", &d, std::slice::from_ref(&d), &src);
            rep.hist("deep_depth", d.depth().to_string());
            rep.class(format!("deep:{}", d.class()));
        }
    }

    // the signature under which a registered function is called
    macro_rules! rtc { ($($t:ty);* $(;)?) => { $( rtcall_check::<$t>(&mut drv, rep, &hl); )* } }
    all_types!(rtc);

    // multi-parameter signatures: random parameter lists over the family, both
    // directions (declared signature, registered-function call)
    let n = if tier == "thorough" { 6000 } else { 400 };
    let mut p = Prng::new(0xC05);
    let leaves: Vec<&D> = descs.iter().map(|x| &x.0).collect();
    for i in 0..n {
        let arity = 1 + p.below(7) as usize;
        let ps: Vec<D> = (0..arity)
            .map(|_| if p.chance(1, 4) { leaves[17 + p.below(14) as usize].clone() } else { (*p.pick(&leaves)).clone() })
            .collect();
        let ret = (*p.pick(&leaves)).clone();
        let params: Vec<String> = ps.iter().enumerate().map(|(i, t)| format!("a{i}: {}", t.roto())).collect();
        let args: Vec<String> = (0..arity).map(|i| format!("a{i}")).collect();
        // `ext` is declared through a second script function so that no Rust
        // monomorphisation is needed: the hook reports the call-site signature
        let src = format!(
            "fn callee({ps}) -> {r} {{ callee({as_}) }}\nfn main({ps}) -> {r} {{ callee({as_}) }}\n",
            ps = params.join(", "),
            r = ret.roto(),
            as_ = args.join(", ")
        );
        let dump = match std::panic::catch_unwind(std::panic::AssertUnwindSafe(|| {
            roto::verif_hooks::c05::signatures(FileTree::test_file("c05.roto", &src, 0), &rt)
        })) {
            Ok(Ok(d)) => d,
            Ok(Err(e)) => {
                rep.mismatch("a script over boundary types did not compile", json!({"script": src, "error": format!("{e:?}").chars().take(400).collect::<String>()}));
                continue;
            }
            Err(_) => {
                rep.violation("the compiler panicked on a script over boundary types", "compile-panic:multi", json!({"script": src}));
                continue;
            }
        };
        sig_check(&mut drv, rep, &hl, &dump, "pkg.main", &ret, &ps, &src);
        if i < 2 {
            rep.sample(json!({"signature_case": src}));
        }
        rep.hist("sig_arity", arity.to_string());
    }
}

/// One declared signature: hook vs model (Roto side), and the model's verdict
/// on Rust-side agreement.
#[allow(clippy::too_many_arguments)]
fn sig_check(drv: &mut Driver, rep: &mut Report, hl: &str, dump: &roto::verif_hooks::c05::Dump, fname: &str, ret: &D, ps: &[D], src: &str) {
    let Some(ir) = dump.lir.iter().find(|s| s.name == fname) else {
        rep.mismatch("hook: function not in the LIR dump", json!({"script": src, "fn": fname}));
        return;
    };
    let mut q = format!("c05 sig {hl} current {}", ret.lean());
    for p in ps {
        q.push_str(" ; ");
        q.push_str(&p.lean());
    }
    let ans = drv.ask(&q);
    rep.evaluations += 1;
    let real = format!(
        "roto {} retptr {} ret {}",
        if ir.params.is_empty() { "-".to_string() } else { ir.params.join(",") },
        ir.return_ptr as u8,
        ir.return_type.clone().unwrap_or("none".into())
    );
    if !ans.starts_with(&format!("{real} ")) {
        rep.mismatch("the lowered signature differs from the model", json!({"script": src, "real": real, "model": ans, "request": q}));
        return;
    }
    if !ir.context {
        rep.mismatch("a script function without context parameter", json!({"script": src}));
    }
    // model consistency: rotoabi is the Cranelift image of what the hook reported
    let mut abi: Vec<&str> = vec![];
    if ir.return_ptr { abi.push("i64"); }
    abi.push("i64");
    abi.extend(ir.params.iter().map(|t| ir_to_abi(t)));
    let want = format!("rotoabi {} -> {}", abi.join(","), ir.return_type.as_deref().map(ir_to_abi).unwrap_or("none"));
    if !ans.contains(&format!("{want} rustabi")) {
        rep.mismatch("declare_function's parameter list differs from the model", json!({"script": src, "expected": want, "model": ans}));
    }
    if ans.ends_with("agree 0") {
        // the model says the extern "C" type Rust calls through differs from
        // what Roto declares: an ABI disagreement on the real signature
        let zst = ps.iter().any(|t| t.is_zst_val());
        rep.violation(
            "the extern \"C\" type RotoFunc::invoke calls through differs from the signature Roto declares",
            &if zst { "abi-disagree:zero-sized parameter".to_string() } else { format!("abi-disagree:{}", ps.iter().map(|t| t.class()).collect::<Vec<_>>().join(",")) },
            json!({"script": src, "model": ans, "types": ps.iter().map(|t| t.roto()).collect::<Vec<_>>()}),
        );
    }
}

/// `fn main(x: T) -> T { echo(x) }`: the hook's runtime-call signature against
/// the model, and the model's verdict against the trampoline's extern "C" type.
fn rtcall_check<T: BT>(drv: &mut Driver, rep: &mut Report, hl: &str) {
    let d = T::desc();
    let mut rt = base_runtime();
    rt.add(Function::new("echo", "", vec!["x"], echo::<T>, location!()).unwrap()).unwrap();
    rt.add(Function::new("echo2", "", vec!["a", "x", "b"], |a: u16, x: T, b: f32| -> T { let _ = (a, b); x }, location!()).unwrap()).unwrap();
    let src = format!("fn main(x: {t}) -> {t} {{ echo(x) }}\nfn main2(x: {t}) -> {t} {{ echo2(1, x, 2.0) }}\n", t = d.roto());
    let dump = match std::panic::catch_unwind(std::panic::AssertUnwindSafe(|| {
        roto::verif_hooks::c05::signatures(FileTree::test_file("c05.roto", &src, 0), &rt)
    })) {
        Ok(Ok(d)) => d,
        _ => {
            rep.mismatch("a script calling a registered function over boundary types did not compile", json!({"script": src}));
            return;
        }
    };
    for (fname, ps) in [("echo", vec![d.clone()]), ("echo2", vec![D::Prim("u16"), d.clone(), D::Prim("f32")])] {
        let Some(call) = dump.runtime_calls.iter().find(|c| c.name == fname) else {
            rep.mismatch("hook: runtime call not reported", json!({"script": src, "fn": fname}));
            continue;
        };
        let mut q = format!("c05 rtcall {hl} current {}", d.lean());
        for p in &ps {
            q.push_str(" ; ");
            q.push_str(&p.lean());
        }
        let ans = drv.ask(&q);
        rep.evaluations += 1;
        // hook: [ret pointer, params…]
        let real: Vec<&str> = call.params.iter().skip(1).map(|s| s.as_str()).collect();
        let real = if real.is_empty() { "-".to_string() } else { real.join(",") };
        if !ans.starts_with(&format!("params {real} ")) || call.params.first().map(|s| s.as_str()) != Some("Pointer") || !call.return_ptr || call.context {
            rep.mismatch("the runtime-call signature differs from the model", json!({"script": src, "fn": fname, "real": call.params, "model": ans}));
            continue;
        }
        if ans.ends_with("agree 0") {
            let zst = ps.iter().any(|t| t.is_zst_val());
            rep.violation(
                "the arguments a script passes to a registered function differ from the trampoline's extern \"C\" type",
                &if zst { "abi-disagree:rtcall:zero-sized parameter".to_string() } else { format!("abi-disagree:rtcall:{}", d.class()) },
                json!({"script": src, "fn": fname, "model": ans}),
            );
        }
    }
}

/// value-level model: `untransform ∘ transform` and the script's view on the
/// abstract image of generated values, and the placement model against the
/// real bytes: at every offset where the model puts a discriminant, the real
/// transformed value holds that discriminant.
fn roundtrip_model(rep: &mut Report, seed: u64, rounds: u32) {
    let mut drv = Driver::spawn().expect("spawn rotov-driver");
    let hl = host_layouts();
    macro_rules! rt { ($($t:ty);* $(;)?) => { $( {
        let d = <$t as BT>::desc();
        if d.depth() > 0 {
            let mut p = Prng::for_case(seed, h64(&d.roto()));
            for k in 0..rounds {
                let v = <$t as BT>::gen_val(&mut p, k);
                let a = v.abs();
                let ans = drv.ask(&format!("c05 roundtrip {} {}", d.shape(), a));
                rep.evaluations += 1;
                let want_un = format!(" | un {a} | script {a}");
                if !ans.ends_with(&want_un) {
                    rep.mismatch("model: untransform(transform v) or the script view differs from v", json!({"type": d.roto(), "value": a, "model": ans}));
                    break;
                }
                let ans = drv.ask(&format!("c05 place {hl} {} ; {a}", d.lean()));
                rep.evaluations += 1;
                let (rust, roto) = match ans.strip_prefix("rust ").and_then(|s| s.split_once(" roto ")) {
                    Some(x) => x,
                    None => { rep.mismatch("model: no placement for a generated value", json!({"type": d.roto(), "value": a, "model": ans})); break; }
                };
                if rust != roto || rust == "none" {
                    rep.mismatch("model: Rust-side and Roto-side placements differ", json!({"type": d.roto(), "value": a, "model": ans}));
                    break;
                }
                let tags: Vec<(usize, u8)> = rust.split(',').filter_map(|c| {
                    let (o, cell) = c.split_once(':')?;
                    Some((o.parse().ok()?, cell.strip_prefix('t')?.parse().ok()?))
                }).collect();
                let real = v.peek(&tags.iter().map(|t| t.0).collect::<Vec<_>>());
                if real != tags.iter().map(|t| t.1).collect::<Vec<_>>() {
                    rep.mismatch("the discriminant bytes of the real transformed value are not where the placement model puts them",
                        json!({"type": d.roto(), "value": v.show(), "model": ans, "real_bytes_at_those_offsets": real}));
                    break;
                }
                if k == 0 { rep.class(format!("placement:{}", d.class())); }
            }
        }
    } )* } }
    all_types!(rt);
}

// ------------------------------------------------------------------ main

fn run_range(env: &Env, from: u64, n: u64) -> Report {
    let cs = cases();
    let mut rep = Report::default();
    for i in from..(from + n).min(cs.len() as u64) {
        let c = &cs[i as usize];
        println!("START {i}");
        use std::io::Write;
        std::io::stdout().flush().ok();
        let before = rep.impl_violations.len() + rep.model_mismatches.len();
        // class representatives do not depend on the seed
        let rep_env = Env { seed: 0, rounds: env.rounds };
        let env = if c.name.starts_with("rep:") { &rep_env } else { env };
        let r = std::panic::catch_unwind(std::panic::AssertUnwindSafe(|| (c.run)(env, &mut rep, &c.name)));
        if r.is_err() {
            rep.violation("panic while a value crossed the boundary", &format!("panic:{}", c.name.split(' ').next().unwrap_or("")), json!({"case": c.name, "panic": LAST_PANIC.with(|l| l.borrow().clone())}));
        }
        let scen = c.name.split(' ').next().unwrap_or("").to_string();
        rep.hist("scenario", scen);
        if rep.impl_violations.len() + rep.model_mismatches.len() == before && rep.samples.len() < 3 && i % 97 == 0 {
            rep.sample(json!({"case": c.name, "outcome": "all values arrived unchanged"}));
        }
    }
    rep
}

fn main() {
    let args: Vec<String> = std::env::args().collect();
    std::panic::set_hook(Box::new(|info| {
        let msg = format!("{info}").chars().take(300).collect::<String>();
        LAST_PANIC.with(|l| *l.borrow_mut() = msg);
    }));
    match args.get(1).map(|s| s.as_str()) {
        Some("list") => {
            for (i, c) in cases().iter().enumerate() {
                println!("{i} {}", c.name);
            }
        }
        Some("worker") => {
            // no core files for the deliberate crash isolation
            unsafe {
                let lim = libc::rlimit { rlim_cur: 0, rlim_max: 0 };
                libc::setrlimit(libc::RLIMIT_CORE, &lim);
            }
            let seed: u64 = args[2].parse().unwrap();
            let rounds = if args[3] == "thorough" { 1200 } else { 40 };
            let (from, n): (u64, u64) = (args[4].parse().unwrap(), args[5].parse().unwrap());
            run_range(&Env { seed, rounds }, from, n).emit();
        }
        Some("run") => {
            let seed = args[2].clone();
            let tier = args.get(3).cloned().unwrap_or("quick".into());
            let mut rep = Report::default();
            facts(&mut rep, &tier);
            roundtrip_model(&mut rep, seed.parse().unwrap(), if tier == "thorough" { 200 } else { 24 });
            provenance(&mut rep);
            gate_tie(&mut rep);
            let total = cases().len() as u64;
            let names: Vec<String> = cases().into_iter().map(|c| c.name).collect();
            // crash-isolated batches; a tree on which many cases die is not explored to the end
            let mut from = 0u64;
            let mut crashes = 0u32;
            let mut timeouts = 0u32;
            while from < total {
                // the representatives of script-declared types one per worker: a dead worker must
                // not take the value-level findings of its neighbours with it
                let n = if names[from as usize].starts_with("rep:declared") { 1 } else { 150.min(total - from) };
                let (f, c) = (from.to_string(), n.to_string());
                let (ended, out) = worker::run_worker_keep_stdout(&[&seed, &tier, &f, &c], Duration::from_secs(300));
                if let Some(v) = Report::parse_stdout(&out) {
                    rep.merge_json(&v);
                }
                if matches!(ended, Ended::Exit(0, _)) {
                    from += n;
                    continue;
                }
                let idx = out.lines().rev().find_map(|l| l.strip_prefix("START ")).and_then(|s| s.trim().parse::<u64>().ok()).unwrap_or(from);
                let name = names.get(idx as usize).cloned().unwrap_or_default();
                let how = match &ended {
                    Ended::Signal(s, _) => format!("signal {s}"),
                    Ended::Timeout => "timeout".into(),
                    Ended::Exit(c, _) => format!("exit {c}"),
                };
                let zst = name.contains("Z0") || name.contains("Zc") || name.contains("Za8");
                rep.violation(
                    "the process died while a value crossed the boundary",
                    &format!("crash:{}:{}", name.split(' ').next().unwrap_or(""), if zst { "zero-sized parameter" } else { "other" }),
                    json!({"case": name, "ended": how, "index": idx}),
                );
                crashes += 1;
                if matches!(ended, Ended::Timeout) {
                    timeouts += 1;
                }
                if crashes >= 24 || timeouts >= 3 {
                    rep.notes.push(format!("stopped after {crashes} dead workers at case {idx} of {total}"));
                    break;
                }
                from = idx + 1;
            }
            rep.notes.push(format!("{} cases over {} types; host layouts {}", total, type_descs().len(), host_layouts()));
            rep.emit();
        }
        Some("replay") => {
            let v: J = serde_json::from_str(&args[2]).expect("json");
            let name = v["case"].as_str().unwrap_or("").to_string();
            let mut rep = Report::default();
            if name.is_empty() {
                // a fact-level finding: re-run the facts
                facts(&mut rep, "quick");
            } else {
                let seed: u64 = v["seed"].as_u64().unwrap_or(1);
                let idx = cases().iter().position(|c| c.name == name);
                match idx {
                    Some(i) => {
                        let (s, t) = (seed.to_string(), "thorough".to_string());
                        let (is, one) = (i.to_string(), "1".to_string());
                        let ended = worker::run_worker_keep_stdout(&[&s, &t, &is, &one], Duration::from_secs(120));
                        match Report::parse_stdout(&ended.1) {
                            Some(j) if matches!(ended.0, Ended::Exit(0, _)) => rep.merge_json(&j),
                            _ => rep.violation("the process died while a value crossed the boundary", "crash:replay", json!({"case": name})),
                        }
                    }
                    None => rep.notes.push(format!("unknown case {name}")),
                }
            }
            rep.emit();
        }
        _ => {
            eprintln!("usage: c05 run <seed> <tier> | worker … | replay <json> | list");
            std::process::exit(64);
        }
    }
}

#[allow(dead_code)]
fn _unused(_: Asn) {}
