//! C20 correspondence: the IR evaluator vs the JIT on the same lowered IR, and
//! both against the Lean model's generated arms.
//!
//! Classes: single-instruction programs and compound expressions (scalar
//! arms), `mem` (the evaluator's Memory driven directly: c20/mem.rs), `flow`
//! (matches over enums, calls, perturbed IR: c20/flow.rs).
//!
//! usage: c20 run <seed> <quick|thorough>
//!        c20 replay <json>

#[path = "../c20/mem.rs"]
mod mem;
#[path = "../c20/flow.rs"]
mod flow;

use roto::verif_hooks::core::lower_to_mir;
use roto::{FileTree, Runtime};
use rotov_harness::driver::Driver;
use rotov_harness::scalar::*;
use rotov_harness::{Prng, Report};
use serde_json::json;

const DBG: bool = cfg!(debug_assertions);

struct Op {
    sym: &'static str,
    instr: &'static str,
    cmp: Option<&'static str>, // condition stem: lt/le/gt/ge/eq/ne
}

const ARITH: [Op; 5] = [
    Op { sym: "+", instr: "Add", cmp: None },
    Op { sym: "-", instr: "Sub", cmp: None },
    Op { sym: "*", instr: "Mul", cmp: None },
    Op { sym: "/", instr: "Div", cmp: None },
    Op { sym: "%", instr: "Mod", cmp: None },
];
const CMPS: [Op; 6] = [
    Op { sym: "<", instr: "Cmp", cmp: Some("lt") },
    Op { sym: "<=", instr: "Cmp", cmp: Some("le") },
    Op { sym: ">", instr: "Cmp", cmp: Some("gt") },
    Op { sym: ">=", instr: "Cmp", cmp: Some("ge") },
    Op { sym: "==", instr: "Cmp", cmp: Some("eq") },
    Op { sym: "!=", instr: "Cmp", cmp: Some("ne") },
];

/// The Lean requests for `a OP b` at type `ty`: (eval request, jit request).
fn lean_requests(ty: STy, op: &Op, a: u64, b: u64) -> Option<(String, String)> {
    let t = ty.name();
    let d = DBG as u8;
    Some(match op.cmp {
        None => {
            let instr = if ty.is_float() && op.instr == "Div" { "FDiv" } else { op.instr };
            if ty.is_float() && op.instr == "Mod" {
                return None;
            }
            let jit = match instr {
                "Div" | "Mod" => format!("scalar jit {instr} {} {t} {a} {t} {b}", ty.signed() as u8),
                _ => format!("scalar jit {instr} {t} {a} {t} {b}"),
            };
            (format!("scalar eval {instr} {d} {t} {a} {t} {b}"), jit)
        }
        Some(stem) => {
            if ty.is_float() {
                (
                    format!("scalar eval FloatCmp {d} {stem} {t} {a} {t} {b}"),
                    format!("scalar jit FloatCmp {stem} {t} {a} {t} {b}"),
                )
            } else {
                let c = match stem {
                    "eq" | "ne" => stem.to_string(),
                    s => format!("{}{s}", if ty.signed() { "s" } else { "u" }),
                };
                (
                    format!("scalar eval IntCmp {d} {c} {t} {a} {t} {b}"),
                    format!("scalar jit IntCmp {c} {t} {a} {t} {b}"),
                )
            }
        }
    })
}

struct Compiled {
    lir: roto::verif_hooks::core::Lir<'static>,
}

fn compile(src: &str) -> Result<Compiled, String> {
    // the runtime must outlive the lowered program; leak it (harness process is short-lived)
    let rt: &'static Runtime<roto::NoCtx> = Box::leak(Box::new(Runtime::new()));
    let tree = FileTree::test_file("c20.roto", src, 0);
    let mir = lower_to_mir(tree, rt).map_err(|e| format!("{e}"))?;
    Ok(Compiled { lir: mir.lower_to_lir() })
}

fn eval_then_jit(
    src: &str,
    arg: STy,
    arity: usize,
    ret: STy,
    inputs: &[Vec<u64>],
) -> Result<Vec<(Result<Option<(String, u64)>, String>, Option<u64>)>, String> {
    let c = compile(src)?;
    let evals: Vec<_> = inputs
        .iter()
        .map(|i| {
            let args: Vec<_> = i.iter().map(|b| arg.hook(*b)).collect();
            c.lir.eval_main(&args).map(|o| o.map(|v| {
                let (t, b) = hook_bits(&v);
                (t.to_string(), b)
            }))
        })
        .collect();
    let mut pkg = c.lir.codegen();
    let f = get_main(&mut pkg, arg, arity, ret)?;
    let mut out = vec![];
    for (i, e) in inputs.iter().zip(evals) {
        // only run the JIT where the evaluator completed: a loud stop is allowed,
        // and the JIT may trap exactly there (division by zero)
        let j = if e.is_ok() { Some(f(i)) } else { None };
        out.push((e, j));
    }
    Ok(out)
}

fn all_tys() -> Vec<STy> {
    let mut tys: Vec<STy> = INTS.to_vec();
    tys.extend(FLOATS);
    tys
}

fn single_ops(rep: &mut Report, drv: &mut Driver, thorough: bool, prng: &mut Prng, only: usize) {
    let tys = all_tys();
    for ty in tys.into_iter().skip(only).take(1) {
        println!("START {only}");
        for (op, ret) in ARITH.iter().map(|o| (o, ty)).chain(CMPS.iter().map(|o| (o, STy::Bool))) {
            if ty.is_float() && op.sym == "%" {
                continue;
            }
            let src = format!(
                "fn main(a: {t}, b: {t}) -> {r} {{ a {o} b }}",
                t = ty.name(),
                r = ret.name(),
                o = op.sym
            );
            let bd = ty.boundary();
            let mut inputs = vec![];
            for &a in &bd {
                for &b in &bd {
                    inputs.push(vec![a, b]);
                }
            }
            let extra = if thorough { 2000 } else { 60 };
            for _ in 0..extra {
                inputs.push(vec![ty.random(prng), ty.random(prng)]);
            }
            let results = match eval_then_jit(&src, ty, 2, ret, &inputs) {
                Ok(r) => r,
                Err(e) => {
                    rep.mismatch("generated program does not compile", json!({"src": src, "error": e}));
                    continue;
                }
            };
            let reqs: Vec<Option<(String, String)>> =
                inputs.iter().map(|i| lean_requests(ty, op, i[0], i[1])).collect();
            let flat: Vec<String> = reqs.iter().flatten().flat_map(|(a, b)| [a.clone(), b.clone()]).collect();
            let answers = drv.ask_all(&flat);
            let mut ai = 0;
            for ((inp, (ev, jit)), rq) in inputs.iter().zip(results).zip(reqs) {
                rep.evaluations += 1;
                let case = json!({"src": src, "ty": ty.name(), "ret": ret.name(), "args": inp});
                let outcome = match (&ev, jit) {
                    (Err(_), _) => "eval-panic",
                    (Ok(Some((t, b))), Some(j)) => {
                        if canon(t, *b) == canon(t, j) { "agree" } else {
                            rep.violation(
                                "evaluator completed with a value different from the JIT's",
                                &format!("single-op {} {}", op.sym, ty.name()),
                                json!({"case": case, "eval": [t, b], "jit": j}),
                            );
                            "DISAGREE"
                        }
                    }
                    _ => "eval-none",
                };
                rep.class(format!("{}|{}|{}", ty.name(), op.sym, outcome));
                rep.hist("outcome", outcome);
                if let Some((erq, jrq)) = rq {
                    let (lean_eval, lean_jit) = (&answers[ai], &answers[ai + 1]);
                    ai += 2;
                    let real_eval = match &ev {
                        Err(_) => "panic".to_string(),
                        Ok(Some((t, b))) => format!("ok {t} {}", canon(t, *b)),
                        Ok(None) => "none".to_string(),
                    };
                    let canon_ans = |s: &str| -> String {
                        let w: Vec<&str> = s.split(' ').collect();
                        if w.len() == 3 && w[0] == "ok" {
                            format!("ok {} {}", w[1], canon(w[1], w[2].parse().unwrap_or(0)))
                        } else {
                            s.to_string()
                        }
                    };
                    if canon_ans(lean_eval) != real_eval {
                        rep.mismatch(
                            "Lean eval arm differs from the real evaluator",
                            json!({"case": case, "request": erq, "lean": lean_eval, "real": real_eval}),
                        );
                    }
                    if let Some(j) = jit {
                        // the JIT returns the value in the declared return type
                        let w: Vec<&str> = lean_jit.split(' ').collect();
                        let ok = w.len() == 3 && w[0] == "ok" && {
                            let lt = if ret == STy::Bool { "i8" } else { w[1] };
                            canon(if ty.is_float() && ret != STy::Bool { ty.name() } else { lt }, w[2].parse().unwrap_or(u64::MAX))
                                == canon(ret.name(), j)
                        };
                        if !ok {
                            rep.mismatch(
                                "Lean codegen arm (generated tables + CLIF semantics) differs from the real JIT",
                                json!({"case": case, "request": jrq, "lean": lean_jit, "real_jit": j}),
                            );
                        }
                    }
                }
                if rep.evaluations % 9973 == 0 {
                    rep.sample(json!({"case": case, "outcome": outcome}));
                }
            }
        }
        // unary
        let unary: &[(&str, &str, STy)] = if ty.signed() || ty.is_float() {
            &[("-", "Negate", ty)]
        } else {
            &[]
        };
        for (sym, instr, ret) in unary {
            let src = format!("fn main(a: {t}) -> {t} {{ {sym}a }}", t = ty.name());
            let inputs: Vec<Vec<u64>> = ty.boundary().into_iter().map(|a| vec![a]).collect();
            unary_cases(rep, drv, &src, ty, *ret, instr, &inputs);
        }
    }
    if only == all_tys().len() {
        println!("START {only}");
        let src = "fn main(a: bool) -> bool { !a }".to_string();
        unary_cases(rep, drv, &src, STy::Bool, STy::Bool, "Not", &[vec![0], vec![1]]);
    }
}

fn unary_cases(
    rep: &mut Report,
    drv: &mut Driver,
    src: &str,
    ty: STy,
    ret: STy,
    instr: &str,
    inputs: &[Vec<u64>],
) {
    let results = match eval_then_jit(src, ty, 1, ret, inputs) {
        Ok(r) => r,
        Err(e) => {
            rep.mismatch("generated program does not compile", json!({"src": src, "error": e}));
            return;
        }
    };
    for (inp, (ev, jit)) in inputs.iter().zip(results) {
        rep.evaluations += 1;
        let case = json!({"src": src, "ty": ty.name(), "ret": ret.name(), "args": inp});
        let lean_eval = drv.ask(&format!("scalar eval {instr} {} {} {}", DBG as u8, ty.name(), inp[0]));
        let real_eval = match &ev {
            Err(_) => "panic".to_string(),
            Ok(Some((t, b))) => format!("ok {t} {}", canon(t, *b)),
            Ok(None) => "none".to_string(),
        };
        if lean_eval != real_eval {
            rep.mismatch(
                "Lean eval arm differs from the real evaluator",
                json!({"case": case, "lean": lean_eval, "real": real_eval}),
            );
        }
        let outcome = match (&ev, jit) {
            (Err(_), _) => "eval-panic",
            (Ok(Some((t, b))), Some(j)) => {
                if canon(t, *b) == canon(t, j) { "agree" } else {
                    rep.violation(
                        "evaluator completed with a value different from the JIT's",
                        &format!("single-op {instr} {}", ty.name()),
                        json!({"case": case, "eval": [t, b], "jit": j}),
                    );
                    "DISAGREE"
                }
            }
            _ => "eval-none",
        };
        rep.class(format!("{}|{}|{}", ty.name(), instr, outcome));
        rep.hist("outcome", outcome);
    }
}

// ------------------------------------------------------------------ compound

/// A random expression of type `ty` over variables a, b, c (all of type `ty`).
fn gen_expr(p: &mut Prng, ty: STy, depth: u32, bool_wanted: bool) -> String {
    if bool_wanted {
        if depth == 0 || p.chance(1, 5) {
            let ops = ["<", "<=", ">", ">=", "==", "!="];
            return format!(
                "({} {} {})",
                gen_expr(p, ty, 0, false),
                p.pick(&ops),
                gen_expr(p, ty, 0, false)
            );
        }
        return match p.below(4) {
            0 => format!("({} && {})", gen_expr(p, ty, depth - 1, true), gen_expr(p, ty, depth - 1, true)),
            1 => format!("({} || {})", gen_expr(p, ty, depth - 1, true), gen_expr(p, ty, depth - 1, true)),
            2 => format!("(!{})", gen_expr(p, ty, depth - 1, true)),
            _ => {
                let ops = ["<", "<=", ">", ">=", "==", "!="];
                format!(
                    "({} {} {})",
                    gen_expr(p, ty, depth - 1, false),
                    p.pick(&ops),
                    gen_expr(p, ty, depth - 1, false)
                )
            }
        };
    }
    if depth == 0 || p.chance(1, 6) {
        return match p.below(5) {
            0 => "a".into(),
            1 => "b".into(),
            2 => "c".into(),
            _ => {
                let small = if ty.is_float() { *p.pick(&ty.boundary()[..7]) } else { p.below(12) };
                ty.literal(small)
            }
        };
    }
    match p.below(8) {
        0..=3 => {
            let ops: &[&str] = if ty.is_float() { &["+", "-", "*", "/"] } else { &["+", "-", "*", "/", "%"] };
            format!(
                "({} {} {})",
                gen_expr(p, ty, depth - 1, false),
                p.pick(ops),
                gen_expr(p, ty, depth - 1, false)
            )
        }
        4 | 5 => format!(
            "(if {} {{ {} }} else {{ {} }})",
            gen_expr(p, ty, depth - 1, true),
            gen_expr(p, ty, depth - 1, false),
            gen_expr(p, ty, depth - 1, false)
        ),
        6 if ty.signed() || ty.is_float() => format!("(-{})", gen_expr(p, ty, depth - 1, false)),
        _ => format!(
            "{{ let t{d} = {}; (t{d} + {}) }}",
            gen_expr(p, ty, depth - 1, false),
            gen_expr(p, ty, depth - 1, false),
            d = depth
        ),
    }
}

fn gen_program(p: &mut Prng) -> (String, STy, STy) {
    let tys = all_tys();
    let ty = *p.pick(&tys);
    let want_bool = p.chance(1, 4);
    let ret = if want_bool { STy::Bool } else { ty };
    let depth = 1 + p.below(4) as u32;
    let body = gen_expr(p, ty, depth, want_bool);
    let src = format!(
        "fn main(a: {t}, b: {t}, c: {t}) -> {r} {{ {body} }}",
        t = ty.name(),
        r = ret.name()
    );
    (src, ty, ret)
}

fn compound(rep: &mut Report, seed: u64, n: u64, from: u64) {
    for idx in from..from + n {
        println!("START {idx}");
        let mut p = Prng::for_case(seed, idx);
        let (src, ty, ret) = gen_program(&mut p);
        let mut inputs = vec![];
        for _ in 0..10 {
            inputs.push(vec![ty.random(&mut p), ty.random(&mut p), ty.random(&mut p)]);
        }
        // small operands make overflow-free paths likely, so agreement is exercised
        for _ in 0..10 {
            let small = |p: &mut Prng| if ty.is_float() { *p.pick(&ty.boundary()[..7]) } else { p.below(6) };
            inputs.push(vec![small(&mut p), small(&mut p), small(&mut p)]);
        }
        check_program(rep, &src, ty, ret, &inputs, seed, idx);
    }
}

fn check_program(rep: &mut Report, src: &str, ty: STy, ret: STy, inputs: &[Vec<u64>], seed: u64, idx: u64) {
    let results = match eval_then_jit(src, ty, 3, ret, inputs) {
        Ok(r) => r,
        Err(e) => {
            rep.mismatch("generated program does not compile", json!({"src": src, "error": e, "seed": seed, "index": idx}));
            return;
        }
    };
    let mut agree = 0;
    let mut panics = 0;
    for (inp, (ev, jit)) in inputs.iter().zip(results) {
        rep.evaluations += 1;
        match (&ev, jit) {
            (Err(_), _) => {
                panics += 1;
                rep.hist("outcome", "eval-panic");
            }
            (Ok(Some((t, b))), Some(j)) => {
                if canon(t, *b) == canon(t, j) {
                    agree += 1;
                    rep.hist("outcome", "agree");
                } else {
                    rep.hist("outcome", "DISAGREE");
                    rep.violation(
                        "evaluator completed with a value different from the JIT's",
                        "compound",
                        json!({"src": src, "ty": ty.name(), "ret": ret.name(), "args": inp,
                               "eval": [t, b], "jit": j, "seed": seed, "index": idx}),
                    );
                }
            }
            _ => rep.hist("outcome", "eval-none"),
        }
    }
    rep.hist("program-size", format!("{}", src.len() / 40 * 40));
    if agree > 0 {
        rep.class(format!("prog:{}", src));
    }
    if idx % 37 == 0 {
        rep.sample(json!({"src": src, "agree": agree, "eval_panics": panics}));
    }
}

fn main() {
    let args: Vec<String> = std::env::args().collect();
    // the evaluator's loud stops are expected: keep stderr quiet
    std::panic::set_hook(Box::new(|_| {}));
    let mut rep = Report::default();
    match args.get(1).map(|s| s.as_str()) {
        Some("run") => {
            let seed: u64 = args.get(2).and_then(|s| s.parse().ok()).unwrap_or(1);
            let thorough = args.get(3).map(|s| s == "thorough").unwrap_or(false);
            let tier = if thorough { "thorough" } else { "quick" };
            let seed_s = seed.to_string();
            let t = std::time::Duration::from_secs(900);
            use rotov_harness::worker::{Ended, run_batches};
            // class `mem`: boundary tables first, then frame tables, then random histories
            run_batches(&["mem", &seed_s, tier], 1, 1, t, &mut rep,
                |rep: &mut Report, _idx: u64, how: &Ended| {
                    rep.violation(
                        "process died while driving the evaluator's Memory (an access neither completed nor panicked)",
                        "mem crash",
                        json!({"ended": format!("{how:?}"), "seed": seed}),
                    );
                });
            // class `flow`: every batch is a fresh process (fresh hash seeds for the match tables)
            run_batches(&["flow", &seed_s, tier], flow::total(thorough), 28, t, &mut rep,
                |rep: &mut Report, idx: u64, how: &Ended| {
                    let case = flow::case_for(seed, idx, thorough);
                    rep.violation(
                        "process died (trap/abort) in compiled code for a program the evaluator ran to completion on the same input, or in the evaluator itself",
                        "flow crash",
                        json!({"src": case.src, "seed": seed, "index": idx, "ended": format!("{how:?}")}),
                    );
                });
            run_batches(&["single", &seed_s, tier], all_tys().len() as u64 + 1, 1, t, &mut rep,
                |rep: &mut Report, idx: u64, how: &Ended| {
                    rep.violation(
                        "process died while running single-instruction programs (the JIT trapped where the evaluator completed, or the evaluator aborted)",
                        &format!("single-op crash type#{idx}"),
                        json!({"type_index": idx, "ended": format!("{how:?}"), "seed": seed}),
                    );
                });
            run_batches(&["compound", &seed_s], if thorough { 6000 } else { 400 }, 100, t, &mut rep,
                |rep: &mut Report, idx: u64, how: &Ended| {
                    let mut p = Prng::for_case(seed, idx);
                    let (src, ty, ret) = gen_program(&mut p);
                    rep.violation(
                        "process died (trap/abort) in compiled code for a program the evaluator ran to completion on the same input, or in the evaluator itself",
                        "compound crash",
                        json!({"src": src, "ty": ty.name(), "ret": ret.name(), "seed": seed, "index": idx, "ended": format!("{how:?}")}),
                    );
                });
            rep.notes.push(format!("profile: dbg={DBG}"));
        }
        Some("worker") => {
            let seed: u64 = args[3].parse().unwrap();
            match args[2].as_str() {
                "single" => {
                    let thorough = args[4] == "thorough";
                    let from: u64 = args[5].parse().unwrap();
                    let mut drv = Driver::spawn().expect("lean driver");
                    let mut prng = Prng::for_case(seed, 1_000_000 + from);
                    single_ops(&mut rep, &mut drv, thorough, &mut prng, from as usize);
                }
                "compound" => {
                    let from: u64 = args[4].parse().unwrap();
                    let n: u64 = args[5].parse().unwrap();
                    compound(&mut rep, seed, n, from);
                }
                "mem" => {
                    let thorough = args[4] == "thorough";
                    println!("START 0");
                    // the Lean side is optional: without a driver the shadow oracle still decides
                    let mut drv = Driver::spawn().ok().filter(|_| true);
                    if let Some(d) = drv.as_mut() {
                        if d.ask("c20 mem a1") != "ptr0" {
                            rep.mismatch("Lean driver does not answer `c20 mem` requests (stale or failed build)", json!({}));
                            drv = None;
                        }
                    }
                    mem::run(&mut rep, &mut drv, seed, thorough);
                }
                "flow" => {
                    let thorough = args[4] == "thorough";
                    let from: u64 = args[5].parse().unwrap();
                    let n: u64 = args[6].parse().unwrap();
                    flow::run(&mut rep, seed, thorough, from, n);
                }
                _ => std::process::exit(64),
            }
        }
        Some("replay") => {
            let v: serde_json::Value = serde_json::from_str(&args[2]).expect("replay json");
            match v["kind"].as_str() {
                Some("mem") => {
                    mem::replay(&mut rep, v["ops"].as_str().expect("ops"));
                    rep.emit();
                    return;
                }
                Some("flow") => {
                    let inp: Vec<u64> = v["args"].as_array().unwrap().iter().map(|x| x.as_u64().unwrap()).collect();
                    let case = flow::FlowCase {
                        kind: "replay",
                        src: v["src"].as_str().unwrap().to_string(),
                        ty: parse_ty(v["ty"].as_str().unwrap()),
                        arity: inp.len(),
                        ret: parse_ty(v["ret"].as_str().unwrap()),
                        inputs: vec![inp.clone()],
                    };
                    let pt = flow::parse_perturb(v["perturb"].as_str().unwrap_or("none"));
                    // hash order varies per compilation: try several
                    for _ in 0..20 {
                        flow::check_case(&mut rep, &case, json!("replay"), Some((&inp, &pt)), None);
                        if !rep.impl_violations.is_empty() {
                            break;
                        }
                    }
                    println!("violations: {}", rep.impl_violations.len());
                    rep.emit();
                    return;
                }
                _ => {}
            }
            let src = v["src"].as_str().unwrap();
            let ty = parse_ty(v["ty"].as_str().unwrap());
            let ret = parse_ty(v["ret"].as_str().unwrap());
            let inp: Vec<u64> = v["args"].as_array().unwrap().iter().map(|x| x.as_u64().unwrap()).collect();
            let r = eval_then_jit(src, ty, inp.len(), ret, &[inp.clone()]).expect("compiles");
            let (ev, jit) = &r[0];
            println!("eval = {ev:?}\njit  = {jit:?}");
            if let (Ok(Some((t, b))), Some(j)) = (ev, jit) {
                if canon(t, *b) != canon(t, *j) {
                    rep.violation("evaluator completed with a value different from the JIT's", "replay", v.clone());
                }
            }
            rep.evaluations = 1;
        }
        _ => {
            eprintln!("usage: c20 run <seed> <quick|thorough> | c20 replay <json>");
            std::process::exit(64);
        }
    }
    rep.emit();
}

fn parse_ty(s: &str) -> STy {
    let mut all: Vec<STy> = INTS.to_vec();
    all.extend(FLOATS);
    all.push(STy::Bool);
    *all.iter().find(|t| t.name() == s).expect("type name")
}
