//! C14 correspondence: constants are evaluated once, in dependency order,
//! before any call.
//!
//! Generated dependency graphs of constants and functions (DAGs, plus
//! function-only cycles, plus graphs with an injected constant cycle or a
//! transitive context use) are spread over four modules in several declaration
//! orders and compiled with the real compiler. Every constant initialiser calls
//! the host function `emit(id)`, which logs.
//!
//! Checked on the real code (impl violations, keyed by situation):
//!   evaluated-twice / not-evaluated / order / evaluated-at-call-time / value /
//!   cycle-accepted / context-accepted / rejected-after-evaluation /
//!   valid-rejected / compile-panic / edge-missing
//! Checked against the Lean model (model mismatches): the hook's dump of the
//! reference graph goes to `rotov-driver c14 fco …`; `tarjan`'s components, the
//! result of `find_compilation_order` (order or which constant errs) and the
//! initialiser log must be exactly the model's, and the verified checker
//! `validOrder` must accept the real components.
//!
//! usage: c14 run <seed> <quick|thorough>
//!        c14 replay <json>     ({"seed":…, "index":…} or {"files":[[module, source]…]})

use roto::verif_hooks::c14::{Dump, NodeKind, take_dump};
use roto::{Context, FileSpec, FileTree, RotoString, Runtime, SourceFile, library};
use rotov_harness::driver::Driver;
use rotov_harness::{Prng, Report};
use serde_json::{Value, json};
use std::collections::{BTreeMap, BTreeSet};
use std::panic::{AssertUnwindSafe, catch_unwind};
use std::sync::Mutex;

const VARIANTS: u64 = 4;
const CX: u64 = 1_000_003;

static LOG: Mutex<Vec<u64>> = Mutex::new(Vec::new());

#[derive(Clone, Context)]
struct C14Ctx {
    pub cx: u64,
}

type Rt = Runtime<roto::Ctx<C14Ctx>>;

fn runtime() -> Rt {
    let lib = library! {
        /// logs the id, returns id + 1
        fn emit(id: u64) -> u64 {
            LOG.lock().unwrap().push(id);
            id + 1
        }
        /// decimal string to number
        fn num(s: RotoString) -> u64 {
            s.parse::<u64>().unwrap_or(u64::MAX)
        }
    };
    Runtime::from_lib(lib)
        .unwrap()
        .with_context_type::<C14Ctx>()
        .unwrap()
}

// ---------------------------------------------------------------- the case

/// module tree: pkg { ma { mc }, mb }
const MODS: [&str; 4] = ["pkg", "ma", "mb", "mc"];
const ABS: [&str; 4] = ["pkg", "pkg.ma", "pkg.mb", "pkg.ma.mc"];

/// path of module `to` as written inside module `from` (relative form)
fn rel_path(from: usize, to: usize) -> Option<String> {
    Some(match (from, to) {
        (a, b) if a == b => return None,
        (0, 1) => "ma".into(),
        (0, 2) => "mb".into(),
        (0, 3) => "ma.mc".into(),
        (1, 0) => "super".into(),
        (1, 2) => "super.mb".into(),
        (1, 3) => "mc".into(),
        (2, 0) => "super".into(),
        (2, 1) => "super.ma".into(),
        (2, 3) => "super.ma.mc".into(),
        (3, 0) => "super.super".into(),
        (3, 1) => "super".into(),
        (3, 2) => "super.super.mb".into(),
        _ => return None,
    })
}

#[derive(Clone, Debug)]
struct Ref {
    to: usize,
    /// syntactic shape the reference sits in
    style: u8,
    /// 0 shortest (bare / relative), 1 absolute, 2 module-level import, 3 local import
    path: u8,
    /// function → function edge taken only while `d > 0` (calls with `d - 1`)
    guarded: bool,
    /// depth argument a constant passes to a function
    depth: u64,
}

#[derive(Clone, Debug)]
struct Item {
    is_const: bool,
    /// number used in the name: `K<n>` / `f<n>`; also the id passed to `emit`
    n: usize,
    module: usize,
    uses_ctx: bool,
    refs: Vec<Ref>,
}

#[derive(Clone, Debug, PartialEq)]
enum Expect {
    Accept,
    Cycle(&'static str),
    Context(&'static str),
}

#[derive(Clone, Debug)]
struct Case {
    items: Vec<Item>,
    /// declaration order of the items (indices), per module filtered from this
    decl: Vec<usize>,
    expect: Expect,
}

const STYLE_NAMES: [&str; 8] = [
    "plain", "block", "if", "fstring", "method", "match", "while", "arith",
];

impl Item {
    fn name(&self) -> String {
        if self.is_const { format!("K{}", self.n) } else { format!("f{}", self.n) }
    }
}

/// reach[i][j]: a path of ≥ 1 edges from i to j
fn reach(items: &[Item]) -> Vec<Vec<bool>> {
    let n = items.len();
    let mut r = vec![vec![false; n]; n];
    for (i, it) in items.iter().enumerate() {
        for e in &it.refs {
            r[i][e.to] = true;
        }
    }
    for k in 0..n {
        for i in 0..n {
            if r[i][k] {
                for j in 0..n {
                    if r[k][j] {
                        r[i][j] = true;
                    }
                }
            }
        }
    }
    r
}

fn const_on_cycle(items: &[Item]) -> bool {
    let r = reach(items);
    (0..items.len()).any(|i| items[i].is_const && r[i][i])
}

/// a constant to inject a defect at: prefer one that reaches something
fn pick_root(p: &mut Prng, consts: &[usize], r: &[Vec<bool>]) -> usize {
    let rich: Vec<usize> = consts.iter().copied().filter(|&c| r[c].iter().any(|x| *x)).collect();
    if rich.is_empty() || p.chance(1, 8) { *p.pick(consts) } else { *p.pick(&rich) }
}

fn gen_ref(p: &mut Prng, to: usize, same_module: bool) -> Ref {
    let path = if same_module { if p.chance(1, 4) { 1 } else { 0 } } else { p.below(4) as u8 };
    Ref { to, style: p.below(8) as u8, path, guarded: false, depth: p.below(3) }
}

/// The graph of case `g` (shared by all its declaration-order variants).
fn gen_graph(seed: u64, g: u64) -> (Vec<Item>, Expect) {
    let mut p = Prng::for_case(seed, g);
    let n = 2 + p.below(8) as usize;
    let mut numbers: Vec<usize> = (0..n).collect();
    for i in (1..n).rev() {
        numbers.swap(i, p.below(i as u64 + 1) as usize);
    }
    let mut items: Vec<Item> = (0..n)
        .map(|i| Item {
            is_const: p.chance(3, 5),
            n: numbers[i],
            module: if p.chance(1, 4) { 0 } else { p.below(4) as usize },
            uses_ctx: false,
            refs: vec![],
        })
        .collect();
    if !items.iter().any(|i| i.is_const) {
        items[0].is_const = true;
    }
    // forward edges: item i may mention items j > i (hidden topological rank)
    let density = 1 + p.below(3);
    for i in 0..n {
        for j in i + 1..n {
            if items[i].refs.len() < 3 && p.chance(density, 5) {
                let r = gen_ref(&mut p, j, items[i].module == items[j].module);
                items[i].refs.push(r);
            }
        }
    }
    // function-only cycles (self recursion, mutual recursion), guarded by `d`
    let back = p.below(3);
    for _ in 0..back {
        let i = p.below(n as u64) as usize;
        let j = p.below(i as u64 + 1) as usize;
        if items[i].is_const || items[j].is_const || items[i].refs.len() >= 4 {
            continue;
        }
        let mut r = gen_ref(&mut p, j, items[i].module == items[j].module);
        r.guarded = true;
        items[i].refs.push(r);
        if const_on_cycle(&items) {
            items[i].refs.pop();
        }
    }
    let r = reach(&items);
    let consts: Vec<usize> = (0..n).filter(|&i| items[i].is_const).collect();
    let roll = p.below(20);
    let mut expect = Expect::Accept;
    if roll < 5 {
        // inject a cycle through a constant
        let c = pick_root(&mut p, &consts, &r);
        let mut from: Vec<usize> = (0..n).filter(|&i| r[c][i]).collect();
        if from.is_empty() || p.chance(1, 6) {
            from = vec![c];
        }
        let a = *p.pick(&from);
        let mut e = gen_ref(&mut p, c, items[a].module == items[c].module);
        e.guarded = false;
        items[a].refs.push(e);
        // classify the shortest description of the cycle
        let rr = reach(&items);
        let on_cycle: Vec<usize> = (0..n).filter(|&i| (i == c) || (rr[c][i] && rr[i][c])).collect();
        let kind = if a == c {
            "direct"
        } else if on_cycle.iter().map(|&i| items[i].module).collect::<BTreeSet<_>>().len() > 1 {
            "across-modules"
        } else if on_cycle.iter().any(|&i| !items[i].is_const) {
            "via-functions"
        } else {
            "via-constants"
        };
        expect = Expect::Cycle(kind);
    } else if roll < 9 {
        // a context use some constant reaches
        let c = pick_root(&mut p, &consts, &r);
        let from: Vec<usize> = (0..n).filter(|&i| r[c][i]).collect();
        let a = if from.is_empty() || p.chance(1, 6) { c } else { *p.pick(&from) };
        items[a].uses_ctx = true;
        let kind = if a == c {
            "direct"
        } else if items[a].is_const {
            "via-constant"
        } else {
            "via-function"
        };
        expect = Expect::Context(kind);
    }
    // context uses no constant reaches are fine
    for i in 0..n {
        if !items[i].is_const && !consts.iter().any(|&c| r[c][i]) && p.chance(1, 3) {
            // (`r` is the reachability before injection; injection only adds
            // edges *into* a constant from something it reaches, or marks a use)
            let rr = reach(&items);
            if !consts.iter().any(|&c| rr[c][i]) {
                items[i].uses_ctx = true;
            }
        }
    }
    (items, expect)
}

fn gen_case(seed: u64, index: u64) -> Case {
    let g = index / VARIANTS;
    let v = index % VARIANTS;
    let (mut items, expect) = gen_graph(seed, g);
    let mut p = Prng::for_case(seed ^ 0xC14C_14C1, index);
    let n = items.len();
    let mut decl: Vec<usize> = (0..n).collect();
    match v {
        0 => {}                 // hidden rank order: users first
        1 => decl.reverse(),    // dependencies first
        _ => {
            for i in (1..n).rev() {
                decl.swap(i, p.below(i as u64 + 1) as usize);
            }
            // variants ≥ 2 also move items to other modules and rewrite the styles
            for it in items.iter_mut() {
                if p.chance(1, 2) {
                    it.module = p.below(4) as usize;
                }
            }
            let mods: Vec<usize> = items.iter().map(|i| i.module).collect();
            for it in items.iter_mut() {
                let m = it.module;
                for r in it.refs.iter_mut() {
                    let g = r.guarded;
                    let d = r.depth;
                    *r = gen_ref(&mut p, r.to, mods[r.to] == m);
                    r.guarded = g;
                    r.depth = d;
                }
            }
        }
    }
    // the cycle classification depends on the modules: recompute
    let expect = match expect {
        Expect::Cycle(k) if k != "direct" => {
            let rr = reach(&items);
            let cyc: Vec<usize> = (0..n).filter(|&i| rr[i][i]).collect();
            let comp_of_const: Vec<usize> = cyc
                .iter()
                .copied()
                .filter(|&i| cyc.iter().any(|&c| items[c].is_const && (c == i || (rr[c][i] && rr[i][c]))))
                .collect();
            let k = if comp_of_const.iter().map(|&i| items[i].module).collect::<BTreeSet<_>>().len() > 1 {
                "across-modules"
            } else if comp_of_const.iter().any(|&i| !items[i].is_const) {
                "via-functions"
            } else {
                "via-constants"
            };
            Expect::Cycle(k)
        }
        e => e,
    };
    Case { items, decl, expect }
}

// ------------------------------------------------------------ source text

struct Files {
    /// (module index, source)
    files: Vec<(usize, String)>,
}

fn render(case: &Case) -> Files {
    let items = &case.items;
    let mut imports: Vec<BTreeSet<String>> = vec![BTreeSet::new(); 4];
    let mut bodies: Vec<Vec<String>> = vec![vec![]; 4];
    for &i in &case.decl {
        let it = &items[i];
        let m = it.module;
        let mut terms: Vec<String> = vec![];
        if it.is_const {
            terms.push(format!("emit({})", it.n));
        } else {
            terms.push(format!("{}", 100 + it.n));
        }
        if it.uses_ctx {
            terms.push("cx".into());
        }
        for r in &it.refs {
            let t = &items[r.to];
            let tn = t.name();
            let abs = format!("{}.{}", ABS[t.module], tn);
            let short = match rel_path(m, t.module) {
                None => tn.clone(),
                Some(mp) => format!("{mp}.{tn}"),
            };
            let mut local_import = None;
            let path = match r.path {
                0 => short,
                1 => abs,
                2 if t.module != m => {
                    imports[m].insert(format!("import {abs};"));
                    tn.clone()
                }
                3 if t.module != m => {
                    local_import = Some(format!("import {short};"));
                    tn.clone()
                }
                _ => short,
            };
            let val = if t.is_const {
                path
            } else if it.is_const {
                format!("{path}({})", r.depth)
            } else if r.guarded {
                format!("{path}(d - 1)")
            } else {
                format!("{path}(d)")
            };
            let e = match r.style {
                0 => val.clone(),
                1 => format!("{{ let t = {val}; t }}"),
                2 => format!("(if 1 == 1 {{ {val} }} else {{ 0 }})"),
                3 => format!("num(f\"{{{val}}}\")"),
                4 => format!("num({val}.to_string())"),
                5 => format!("(match Option.Some({val}) {{ Some(v) => v, None => 0, }})"),
                6 => format!(
                    "{{ let acc: u64 = 0; let i: u64 = 0; while i < 1 {{ acc = acc + {val}; i = i + 1; }} acc }}"
                ),
                _ => format!("({val} + 0)"),
            };
            let e = match local_import {
                Some(imp) => format!("{{ {imp} {e} }}"),
                None => e,
            };
            let e = if r.guarded { format!("(if d > 0 {{ {e} }} else {{ 0 }})") } else { e };
            terms.push(e);
        }
        let body = terms.join(" + ");
        if it.is_const {
            bodies[m].push(format!("const {}: u64 = {};", it.name(), body));
        } else {
            bodies[m].push(format!("fn {}(d: u64) -> u64 {{ {} }}", it.name(), body));
        }
    }
    // accessors for the constants live in pkg, after everything else
    for it in items.iter().filter(|i| i.is_const) {
        bodies[0].push(format!(
            "fn rd_{}(d: u64) -> u64 {{ {}.{} }}",
            it.name(),
            ABS[it.module],
            it.name()
        ));
    }
    let files = (0..4)
        .map(|m| {
            let mut s = String::new();
            for i in &imports[m] {
                s.push_str(i);
                s.push('\n');
            }
            for b in &bodies[m] {
                s.push_str(b);
                s.push('\n');
            }
            (m, s)
        })
        .collect();
    Files { files }
}

fn tree(files: &[(usize, String)]) -> FileTree {
    let sf = |m: usize| SourceFile {
        name: format!("{}.roto", MODS[m]),
        module_name: MODS[m].into(),
        contents: files.iter().find(|f| f.0 == m).map(|f| f.1.clone()).unwrap_or_default(),
        location_offset: 0,
        children: vec![],
    };
    FileTree::file_spec(FileSpec::Directory(
        sf(0),
        vec![FileSpec::Directory(sf(1), vec![FileSpec::File(sf(3))]), FileSpec::File(sf(2))],
    ))
}

// ---------------------------------------------------------------- oracles

struct Oracle<'a> {
    items: &'a [Item],
    cval: Vec<Option<u64>>,
    fmemo: BTreeMap<(usize, u64), u64>,
}

impl Oracle<'_> {
    fn constant(&mut self, c: usize) -> u64 {
        if let Some(v) = self.cval[c] {
            return v;
        }
        let it = &self.items[c];
        let mut v = it.n as u64 + 1;
        for r in it.refs.clone() {
            v = v.wrapping_add(if self.items[r.to].is_const {
                self.constant(r.to)
            } else {
                self.function(r.to, r.depth)
            });
        }
        self.cval[c] = Some(v);
        v
    }
    fn function(&mut self, f: usize, d: u64) -> u64 {
        if let Some(v) = self.fmemo.get(&(f, d)) {
            return *v;
        }
        let it = &self.items[f];
        let mut v = 100 + it.n as u64;
        if it.uses_ctx {
            v = v.wrapping_add(CX);
        }
        for r in it.refs.clone() {
            v = v.wrapping_add(if self.items[r.to].is_const {
                self.constant(r.to)
            } else if r.guarded {
                if d > 0 { self.function(r.to, d - 1) } else { 0 }
            } else {
                self.function(r.to, d)
            });
        }
        self.fmemo.insert((f, d), v);
        v
    }
}

fn dump_request(d: &Dump) -> String {
    let kinds: String = d
        .nodes
        .iter()
        .map(|n| match n.kind {
            NodeKind::Constant => 'c',
            NodeKind::Function => 'f',
            NodeKind::Context => 'x',
            NodeKind::Other => 'o',
        })
        .collect();
    let edges = if d.edges.is_empty() {
        "-".to_string()
    } else {
        d.edges
            .iter()
            .map(|(k, ts)| format!("{k}:{}", ts.iter().map(|t| t.to_string()).collect::<Vec<_>>().join(",")))
            .collect::<Vec<_>>()
            .join(";")
    };
    format!("c14 fco {} {edges}", if kinds.is_empty() { "-".into() } else { kinds })
}

fn nats(l: &[usize]) -> String {
    l.iter().map(|x| x.to_string()).collect::<Vec<_>>().join(",")
}

/// Compare the hook's dump and the observed log with the Lean model.
fn check_model(
    rep: &mut Report,
    drv: &mut Driver,
    d: &Dump,
    log: Option<&[u64]>,
    input: &Value,
) {
    let req = dump_request(d);
    let ans = drv.ask(&req);
    let field = |name: &str| -> String {
        ans.split(' ')
            .find_map(|w| w.strip_prefix(&format!("{name}=")))
            .unwrap_or("?")
            .to_string()
    };
    let real_comps = d.components.iter().map(|c| nats(c)).collect::<Vec<_>>().join(";");
    if field("comps") != real_comps {
        rep.mismatch(
            "tarjan: model components differ from the implementation's",
            json!({"case": input, "request": req, "model": field("comps"), "impl": real_comps}),
        );
    }
    let last = |s: &str| s.rsplit('.').next().unwrap_or(s).to_string();
    let real_out = match &d.order {
        Ok(o) => format!("ord:{}", nats(o)),
        Err(e) => {
            // name the constant the error points at
            let ident = e.split('`').nth(1).unwrap_or("?");
            let idx = d
                .nodes
                .iter()
                .position(|n| n.kind == NodeKind::Constant && last(&n.name) == ident)
                .map(|i| i.to_string())
                .unwrap_or("?".into());
            if e.contains("recursively defined") {
                format!("rec:{idx}")
            } else if e.contains("context variable") {
                format!("ctx:{idx}")
            } else {
                format!("other:{e}")
            }
        }
    };
    if field("out") != real_out {
        rep.mismatch(
            "find_compilation_order: model result differs from the implementation's",
            json!({"case": input, "request": req, "model": field("out"), "impl": real_out}),
        );
    }
    let cert = drv.ask(&format!(
        "{} {}",
        req.replacen("c14 fco", "c14 cert", 1),
        if real_comps.is_empty() { "-" } else { &real_comps }
    ));
    if cert == "valid=1-but-not-scc" {
        rep.mismatch(
            "the implementation's components are a valid order but not the strongly connected components (checker validScc)",
            json!({"case": input, "request": req, "components": real_comps}),
        );
    } else if cert != "valid=1" {
        rep.violation(
            "the verified checker validOrder rejects the implementation's components: an item is missing, duplicated, or placed before something it references",
            "order:certificate",
            json!({"case": input, "request": req, "components": real_comps}),
        );
    }
    if let (Ok(_), Some(log)) = (&d.order, log) {
        // the model's initialiser log, as `emit` ids
        let model_log = field("cg");
        let real_log = format!(
            "log:{}",
            log.iter().map(|x| x.to_string()).collect::<Vec<_>>().join(",")
        );
        let model_log_ids = match model_log.strip_prefix("log:") {
            Some(l) => format!(
                "log:{}",
                l.split(',')
                    .filter(|s| !s.is_empty())
                    .map(|s| {
                        let i: usize = s.parse().unwrap_or(usize::MAX);
                        d.nodes
                            .get(i)
                            .map(|n| last(&n.name).trim_start_matches('K').to_string())
                            .unwrap_or("?".into())
                    })
                    .collect::<Vec<_>>()
                    .join(",")
            ),
            None => model_log.clone(),
        };
        if model_log_ids != real_log {
            rep.mismatch(
                "codegen loop: the model's initialiser log differs from the observed one",
                json!({"case": input, "request": req, "model": model_log_ids, "impl": real_log}),
            );
        }
    }
}

fn files_json(f: &Files) -> Value {
    json!(f.files.iter().map(|(m, s)| json!([MODS[*m], s])).collect::<Vec<_>>())
}

fn describe(e: &Expect) -> String {
    match e {
        Expect::Accept => "accept".into(),
        Expect::Cycle(k) => format!("cycle:{k}"),
        Expect::Context(k) => format!("context:{k}"),
    }
}

fn run_case(rep: &mut Report, drv: &mut Driver, seed: u64, index: u64) {
    let case = gen_case(seed, index);
    let files = render(&case);
    let input = json!({"seed": seed, "index": index, "expect": describe(&case.expect), "files": files_json(&files)});
    rep.evaluations += 1;
    let items = &case.items;
    let n = items.len();
    rep.hist("items", n.to_string());
    rep.hist("expect", describe(&case.expect));
    rep.hist("variant", (index % VARIANTS).to_string());
    rep.hist("modules-used", items.iter().map(|i| i.module).collect::<BTreeSet<_>>().len().to_string());
    for it in items {
        for r in &it.refs {
            rep.hist(
                "ref-style",
                format!(
                    "{}→{} {}",
                    if it.is_const { "const" } else { "fn" },
                    if items[r.to].is_const { "const" } else { "fn" },
                    STYLE_NAMES[r.style as usize]
                ),
            );
            rep.hist(
                "ref-path",
                match (r.path, it.module == items[r.to].module) {
                    (1, _) => "absolute",
                    (_, true) => "bare",
                    (0, false) => "relative",
                    (2, false) => "module-import",
                    _ => "local-import",
                },
            );
        }
    }

    LOG.lock().unwrap().clear();
    let _ = take_dump();
    let rt = runtime();
    let compiled = catch_unwind(AssertUnwindSafe(|| tree(&files.files).compile(&rt)));
    let log: Vec<u64> = LOG.lock().unwrap().clone();
    let dump = take_dump();

    // ---- the hook's graph against the generated one (edge collection)
    if let Some(d) = &dump {
        let pos = |name: &str| d.nodes.iter().position(|x| x.name == name);
        for it in items {
            let from = format!("{}.{}", ABS[it.module], it.name());
            for r in &it.refs {
                let t = &items[r.to];
                let to = format!("{}.{}", ABS[t.module], t.name());
                let present = match (pos(&from), pos(&to)) {
                    (Some(a), Some(b)) => d.edges.iter().any(|(k, ts)| *k == a && ts.contains(&b)),
                    _ => false,
                };
                if !present {
                    rep.violation(
                        "a reference from one item to another is missing from the reference graph the compilation order is computed from",
                        &format!(
                            "edge-missing:{}:{}",
                            if t.is_const { "const" } else { "fn" },
                            STYLE_NAMES[r.style as usize]
                        ),
                        json!({"case": input, "from": from, "to": to}),
                    );
                }
            }
            if it.uses_ctx {
                let present = pos(&from).is_some_and(|a| {
                    d.edges.iter().any(|(k, ts)| {
                        *k == a && ts.iter().any(|t| d.nodes[*t].kind == NodeKind::Context)
                    })
                });
                if !present {
                    rep.violation(
                        "a use of a context variable is missing from the reference graph",
                        "edge-missing:context",
                        json!({"case": input, "from": from}),
                    );
                }
            }
        }
    }

    let class;
    match compiled {
        Err(_) => {
            rep.violation(
                "the compiler panicked on a generated program",
                &format!("compile-panic:{}", describe(&case.expect)),
                json!({"case": input, "log": log}),
            );
            class = "panic".to_string();
            if let Some(d) = &dump {
                check_model(rep, drv, d, None, &input);
            }
        }
        Ok(Err(report)) => {
            let text = format!("{report}");
            let kind = if text.contains("recursively defined") {
                "cycle"
            } else if text.contains("depends on a context variable") {
                "context"
            } else {
                "other"
            };
            class = format!("rejected:{kind}");
            if !log.is_empty() {
                rep.violation(
                    "a program was rejected after a constant initialiser had already run",
                    "rejected-after-evaluation",
                    json!({"case": input, "log": log, "error": kind}),
                );
            }
            match (&case.expect, kind) {
                (Expect::Cycle(_), "cycle") | (Expect::Context(_), "context") => {}
                (Expect::Accept, _) => rep.violation(
                    "a program whose constants form a DAG and reach no context variable was rejected",
                    &format!("valid-rejected:{kind}"),
                    json!({"case": input, "error": strip_ansi(&text)}),
                ),
                (e, _) => rep.mismatch(
                    "generated invalid program was rejected for another reason than intended (generator)",
                    json!({"case": input, "expected": describe(e), "error": strip_ansi(&text)}),
                ),
            }
            if let Some(d) = &dump {
                check_model(rep, drv, d, None, &input);
            } else if kind != "other" {
                rep.mismatch("no dump recorded for a program rejected by find_compilation_order", input.clone());
            }
        }
        Ok(Ok(mut pkg)) => {
            class = "compiled".to_string();
            match &case.expect {
                Expect::Cycle(k) => rep.violation(
                    "a constant that depends on itself was accepted",
                    &format!("cycle-accepted:{k}"),
                    json!({"case": input, "log": log}),
                ),
                Expect::Context(k) => rep.violation(
                    "a constant that transitively reads a context variable was accepted",
                    &format!("context-accepted:{k}"),
                    json!({"case": input, "log": log}),
                ),
                Expect::Accept => {
                    // exactly once
                    let mut count: BTreeMap<u64, usize> = BTreeMap::new();
                    for id in &log {
                        *count.entry(*id).or_default() += 1;
                    }
                    for it in items.iter().filter(|i| i.is_const) {
                        match count.get(&(it.n as u64)).copied().unwrap_or(0) {
                            1 => {}
                            0 => rep.violation(
                                "a constant's initialiser did not run during compile",
                                "not-evaluated",
                                json!({"case": input, "constant": it.name(), "log": log}),
                            ),
                            _ => rep.violation(
                                "a constant's initialiser ran more than once during compile",
                                "evaluated-twice",
                                json!({"case": input, "constant": it.name(), "log": log}),
                            ),
                        }
                    }
                    // dependencies first
                    let r = reach(items);
                    let at = |i: usize| log.iter().position(|x| *x == items[i].n as u64);
                    for c in (0..n).filter(|&i| items[i].is_const) {
                        for dd in (0..n).filter(|&i| items[i].is_const && r[c][i]) {
                            if let (Some(pc), Some(pd)) = (at(c), at(dd)) {
                                if pd >= pc {
                                    rep.violation(
                                        "a constant was evaluated before a constant it depends on",
                                        "order",
                                        json!({"case": input, "constant": items[c].name(), "dependency": items[dd].name(), "log": log}),
                                    );
                                }
                            }
                        }
                    }
                    // afterwards: same values, nothing evaluated again
                    let mut o = Oracle { items, cval: vec![None; n], fmemo: BTreeMap::new() };
                    let mut ctx = C14Ctx { cx: CX };
                    for round in 0..2 {
                        for i in 0..n {
                            let it = &items[i];
                            if it.is_const {
                                let want = o.constant(i);
                                let name = format!("rd_{}", it.name());
                                match pkg.get_function::<fn(u64) -> u64>(&name) {
                                    Ok(f) => {
                                        let got = f.call(&mut ctx, round);
                                        if got != want {
                                            rep.violation(
                                                "a constant read after compile does not have the value its initialiser computes from its dependencies",
                                                "value:constant",
                                                json!({"case": input, "constant": it.name(), "got": got, "want": want}),
                                            );
                                        }
                                    }
                                    Err(e) => rep.mismatch("accessor not found (harness)", json!({"case": input, "name": name, "error": format!("{e}")})),
                                }
                            } else {
                                let fname = format!("{}.{}", ABS[it.module], it.name());
                                let fname = fname.trim_start_matches("pkg.").to_string();
                                for d in 0..3u64 {
                                    let want = o.function(i, d);
                                    match pkg.get_function::<fn(u64) -> u64>(&fname) {
                                        Ok(f) => {
                                            let got = f.call(&mut ctx, d);
                                            if got != want {
                                                rep.violation(
                                                    "a function called after compile does not observe the values the constants were given",
                                                    "value:function",
                                                    json!({"case": input, "function": it.name(), "d": d, "got": got, "want": want}),
                                                );
                                            }
                                        }
                                        Err(e) => rep.mismatch("function not found (harness)", json!({"case": input, "name": it.name(), "error": format!("{e}")})),
                                    }
                                }
                            }
                        }
                    }
                    let after: Vec<u64> = LOG.lock().unwrap().clone();
                    if after != log {
                        rep.violation(
                            "calling functions after compile ran a constant initialiser again",
                            "evaluated-at-call-time",
                            json!({"case": input, "log_after_compile": log, "log_after_calls": after}),
                        );
                    }
                }
            }
            match &dump {
                Some(d) => check_model(rep, drv, d, Some(&log), &input),
                None => rep.mismatch("no dump recorded for a compiled program", input.clone()),
            }
            drop(pkg);
        }
    }
    // class: what was generated × what happened × shape of the graph
    let nconst = items.iter().filter(|i| i.is_const).count();
    let nedges: usize = items.iter().map(|i| i.refs.len()).sum();
    let fcycle = {
        let r = reach(items);
        (0..n).any(|i| !items[i].is_const && r[i][i])
    };
    rep.class(format!(
        "{}|{}|c{}f{}e{}|fcycle={}|mods={}|v{}",
        describe(&case.expect),
        class,
        nconst,
        n - nconst,
        nedges.min(9),
        fcycle as u8,
        items.iter().map(|i| i.module).collect::<BTreeSet<_>>().len(),
        (index % VARIANTS).min(2),
    ));
    if index % 97 == 0 {
        rep.sample(json!({"case": input, "outcome": class, "log": log,
            "impl_order": dump.as_ref().map(|d| match &d.order { Ok(o) => json!(o.iter().map(|i| d.nodes[*i].name.clone()).collect::<Vec<_>>()), Err(e) => json!({"error": e}) })}));
    }
}

fn strip_ansi(s: &str) -> String {
    let mut out = String::new();
    let mut chars = s.chars();
    while let Some(c) = chars.next() {
        if c == '\u{1b}' {
            for d in chars.by_ref() {
                if d.is_ascii_alphabetic() {
                    break;
                }
            }
        } else {
            out.push(c);
        }
    }
    out
}

/// Replay explicit files: report what the compiler does and run the generic
/// checks that need no generated graph (log empty on rejection, model tie).
fn replay_files(rep: &mut Report, drv: &mut Driver, v: &Value) {
    let files: Vec<(usize, String)> = v["files"]
        .as_array()
        .unwrap()
        .iter()
        .map(|p| {
            let m = MODS.iter().position(|x| *x == p[0].as_str().unwrap()).unwrap();
            (m, p[1].as_str().unwrap().to_string())
        })
        .collect();
    LOG.lock().unwrap().clear();
    let rt = runtime();
    let res = catch_unwind(AssertUnwindSafe(|| tree(&files).compile(&rt).map(|_| ())));
    let log = LOG.lock().unwrap().clone();
    println!("compile: {}", match &res { Err(_) => "PANIC".into(), Ok(Err(e)) => format!("rejected\n{}", strip_ansi(&format!("{e}"))), Ok(Ok(())) => "ok".into() });
    println!("log: {log:?}");
    if let Some(d) = take_dump() {
        println!("order: {:?}", d.order.as_ref().map(|o| o.iter().map(|i| d.nodes[*i].name.clone()).collect::<Vec<_>>()));
        check_model(rep, drv, &d, if matches!(res, Ok(Ok(()))) { Some(&log) } else { None }, v);
    }
    rep.evaluations += 1;
}

fn main() {
    let args: Vec<String> = std::env::args().collect();
    std::panic::set_hook(Box::new(|_| {}));
    let mut rep = Report::default();
    match args.get(1).map(|s| s.as_str()) {
        Some("run") => {
            let seed: u64 = args.get(2).and_then(|s| s.parse().ok()).unwrap_or(1);
            let thorough = args.get(3).map(|s| s == "thorough").unwrap_or(false);
            let graphs: u64 = if thorough { 10_000 } else { 500 };
            let seed_s = seed.to_string();
            use rotov_harness::worker::{Ended, run_batches};
            run_batches(
                &[&seed_s],
                graphs * VARIANTS,
                400,
                std::time::Duration::from_secs(600),
                &mut rep,
                |rep: &mut Report, idx: u64, how: &Ended| {
                    let case = gen_case(seed, idx);
                    let files = render(&case);
                    rep.violation(
                        "the process died (abort/trap/timeout) while compiling or calling a generated program",
                        &format!("compile-crash:{}", describe(&case.expect)),
                        json!({"seed": seed, "index": idx, "ended": format!("{how:?}"), "files": files_json(&files)}),
                    );
                },
            );
        }
        Some("worker") => {
            let seed: u64 = args[2].parse().unwrap();
            let from: u64 = args[3].parse().unwrap();
            let n: u64 = args[4].parse().unwrap();
            let mut drv = Driver::spawn().expect("lean driver");
            for idx in from..from + n {
                println!("START {idx}");
                run_case(&mut rep, &mut drv, seed, idx);
                // a later case may kill the process: keep what has been found so far
                if (idx - from) % 25 == 24 && idx + 1 < from + n {
                    rep.emit();
                }
            }
        }
        Some("replay") => {
            let v: Value = serde_json::from_str(&args[2]).expect("replay json");
            let v = if v.get("case").is_some() { v["case"].clone() } else { v };
            let mut drv = Driver::spawn().expect("lean driver");
            if let (Some(seed), Some(index)) = (v["seed"].as_u64(), v["index"].as_u64()) {
                let case = gen_case(seed, index);
                for (m, s) in &render(&case).files {
                    println!("--- {}.roto\n{s}", MODS[*m]);
                }
                println!("expect: {}", describe(&case.expect));
                run_case(&mut rep, &mut drv, seed, index);
            } else {
                replay_files(&mut rep, &mut drv, &v);
            }
            for x in &rep.impl_violations {
                println!("VIOLATION {} [{}]", x["what"], x["key"]);
            }
            for x in &rep.model_mismatches {
                println!("MISMATCH {}", x["what"]);
            }
        }
        _ => {
            eprintln!("usage: c14 run <seed> <quick|thorough> | c14 replay <json>");
            std::process::exit(64);
        }
    }
    rep.emit();
}
