//! C14 correspondence: constants are evaluated once, in dependency order,
//! before any call.
//!
//! Generated dependency graphs of constants and functions (DAGs, plus
//! function-only cycles, plus graphs with an injected constant cycle or a
//! transitive context use) are spread over four modules in several declaration
//! orders and compiled with the real compiler. Every constant initialiser calls
//! the host function `emit(id)`, which logs.
//!
//! Checked on the real code (impl violations, keyed by situation):
//!   evaluated-twice / not-evaluated / order / evaluated-at-call-time / value /
//!   cycle-accepted / context-accepted / rejected-after-evaluation /
//!   valid-rejected / compile-panic / edge-missing
//! Checked against the Lean model (model mismatches): the hook's dump of the
//! reference graph goes to `rotov-driver c14 fco …`; `tarjan`'s components, the
//! result of `find_compilation_order` (order or which constant errs) and the
//! initialiser log must be exactly the model's, and the verified checker
//! `validOrder` must accept the real components.
//!
//! usage: c14 run <seed> <quick|thorough>
//!        c14 replay <json>     ({"seed":…, "index":…} or {"files":[[module, source]…]})

use roto::verif_hooks::c14::{Dump, LirItem, NodeKind, take_const_layouts, take_dump, take_lir, typecheck_only};
use roto::{Context, FileSpec, FileTree, RotoString, Runtime, SourceFile, Val, Verdict, library};
use rotov_harness::driver::Driver;
use rotov_harness::{Prng, Report};
use serde_json::{Value, json};
use std::collections::{BTreeMap, BTreeSet};
use std::panic::{AssertUnwindSafe, catch_unwind};
use std::sync::Mutex;

const VARIANTS: u64 = 4;
const CX: u64 = 1_000_003;

static LOG: Mutex<Vec<u64>> = Mutex::new(Vec::new());

#[derive(Clone, Context)]
struct C14Ctx {
    pub cx: u64,
    /// the decimal digits of `CX`
    pub cs: RotoString,
}

fn the_ctx() -> C14Ctx {
    C14Ctx { cx: CX, cs: CX.to_string().as_str().into() }
}

/// a registered type of size zero
#[derive(Clone, Copy, Debug, PartialEq)]
struct Zt;

type Rt = Runtime<roto::Ctx<C14Ctx>>;

fn runtime() -> Rt {
    let lib = library! {
        /// logs the id, returns id + 1
        fn emit(id: u64) -> u64 {
            LOG.lock().unwrap().push(id);
            id + 1
        }
        /// decimal string to number
        fn num(s: RotoString) -> u64 {
            s.parse::<u64>().unwrap_or(u64::MAX)
        }
        /// identity (a value in argument position)
        fn idu(x: u64) -> u64 {
            x
        }
        /// `Some(x)` (a value inside a match examinee)
        fn opt(x: u64) -> Option<u64> {
            Some(x)
        }
        /// logs the id, returns nothing (an effect whose result has no size)
        fn emitu(id: u64) {
            LOG.lock().unwrap().push(id);
        }
        /// a registered type without any data
        #[copy] type Zt = Val<Zt>;
        /// logs the id, returns the one value of the zero-sized registered type
        fn mkz(id: u64) -> Val<Zt> {
            LOG.lock().unwrap().push(id);
            Val(Zt)
        }
        /// the one value of the zero-sized registered type (no log)
        fn zt() -> Val<Zt> {
            Val(Zt)
        }
        /// a zero-sized value in argument position
        fn zid(z: Val<Zt>) -> u64 {
            let _ = z;
            0
        }
    };
    Runtime::from_lib(lib)
        .unwrap()
        .with_context_type::<C14Ctx>()
        .unwrap()
}

/// at most three violations per key and worker process: the report keeps the first 200 only,
/// and a defect that hits many cases should not crowd out the keys of the other families
fn viol(rep: &mut Report, what: &str, key: &str, input: Value) {
    static SEEN: Mutex<BTreeMap<String, usize>> = Mutex::new(BTreeMap::new());
    let mut seen = SEEN.lock().unwrap();
    let n = seen.entry(key.to_string()).or_default();
    *n += 1;
    if *n <= 3 {
        rep.violation(what, key, input);
    }
}

// ---------------------------------------------------------------- the case

/// module tree: pkg { ma { mc }, mb }
const MODS: [&str; 4] = ["pkg", "ma", "mb", "mc"];
const ABS: [&str; 4] = ["pkg", "pkg.ma", "pkg.mb", "pkg.ma.mc"];

/// path of module `to` as written inside module `from` (relative form)
fn rel_path(from: usize, to: usize) -> Option<String> {
    Some(match (from, to) {
        (a, b) if a == b => return None,
        (0, 1) => "ma".into(),
        (0, 2) => "mb".into(),
        (0, 3) => "ma.mc".into(),
        (1, 0) => "super".into(),
        (1, 2) => "super.mb".into(),
        (1, 3) => "mc".into(),
        (2, 0) => "super".into(),
        (2, 1) => "super.ma".into(),
        (2, 3) => "super.ma.mc".into(),
        (3, 0) => "super.super".into(),
        (3, 1) => "super".into(),
        (3, 2) => "super.super.mb".into(),
        _ => return None,
    })
}

#[derive(Clone, Debug)]
struct Ref {
    to: usize,
    /// syntactic shape the reference sits in
    style: u8,
    /// 0 shortest (bare / relative), 1 absolute, 2 module-level import, 3 local import
    path: u8,
    /// function → function edge taken only while `d > 0` (calls with `d - 1`)
    guarded: bool,
    /// depth argument a constant passes to a function
    depth: u64,
    /// how a typed constant is read (index into the read forms of its type, modulo)
    form: u8,
    /// reads of a constant: how many read sites the mention has and on which paths they lie
    /// (index into `MULTI`; 0 = one read on the straight path)
    multi: u8,
}

#[derive(Clone, Debug)]
struct Item {
    is_const: bool,
    /// number used in the name: `K<n>` / `f<n>`; also the id passed to `emit`
    n: usize,
    module: usize,
    uses_ctx: bool,
    /// which use-site form the context read takes (index into `CTX_FORMS`)
    ctx_form: u8,
    /// constants: the type of the constant (index into `TY_NAMES`)
    ty: u8,
    /// constants of a compound type: `Some(before)` adds `const A<n>: T = K<n>;`
    /// (a constant that is nothing but a copy of a constant), declared before / after it
    alias: Option<bool>,
    /// a term that builds a local compound value and clones / compares it (index into `LOCAL_NAMES`; 0 none)
    local: u8,
    /// constants: how the accessor `rd_K<n>` is written: bit 0 = as a `filtermap` (else `fn`),
    /// bit 1 = at the start of pkg (else at its end), bit 2 = a `test t_K<n>` item reads the constant too,
    /// bit 3 = accessor and test item live in the constant's own module (else in pkg)
    acc: u8,
    /// constants: where the effect `emit(n)` of the initialiser sits (index into `INIT_NAMES`)
    init: u8,
    refs: Vec<Ref>,
}

/// types of constants: the initialiser computes a `u64` and wraps it; from `ZST` on the
/// value carries nothing of it: `()`, a record without fields, a record of `()`, a registered
/// type without data are laid out in zero bytes (measured: histogram `const-layout`), `()?` is
/// an `Option` of a zero-sized payload
const TY_NAMES: [&str; 11] = ["u64", "String", "String?", "record", "enum", "List[String]", "()", "empty-record", "record-of-unit", "()?", "Zt"];
/// first type whose values carry no number
const ZST: u8 = 6;
/// types the generator takes to be laid out in zero bytes (the hook's layout sizes must agree)
fn zero_sized(ty: u8) -> bool {
    matches!(ty, 6 | 7 | 8 | 10)
}
/// types whose name depends on the module they are declared in
fn module_type(ty: u8) -> bool {
    matches!(ty, 3 | 4 | 7 | 8)
}

/// Where the one observable effect of a constant's initialiser — the host call logging `n` —
/// sits: a term of the sum the initialiser computes (the historical shape); the value of the
/// initialiser is the host call itself (`emitu(n)`, `mkz(n)`, `U { u: emitu(n) }`, `emit(n)`);
/// a statement of a block whose value is written after it (`{ emitu(n); … () }`); a script
/// function the initialiser calls (`ini_K<n>()`, whose body is the host call); a block with the
/// effect whose value is a read of another constant of the same type (the first reference,
/// when it is one; otherwise rendered as `block`).
const INIT_NAMES: [&str; 5] = ["sum-term", "direct-host-call", "block", "via-script-function", "via-constant"];

/// the constant whose value an initialiser of shape `via-constant` hands on
fn via_const(items: &[Item], it: &Item) -> Option<usize> {
    if !it.is_const || it.init != 4 {
        return None;
    }
    let r = it.refs.first()?;
    let t = &items[r.to];
    (t.is_const && t.ty == it.ty && (!module_type(t.ty) || t.module == it.module)).then_some(r.to)
}

/// read forms per type: (name, template with `$P` for the path), all of type `u64`
const READ_FORMS: [&[(&str, &str)]; 11] = [
    &[("bare", "$P"), ("argument", "idu($P)")],
    &[
        ("argument", "num($P)"),
        ("method", "num($P.to_uppercase())"),
        ("fstring", "num(f\"{$P}\")"),
        ("copy", "{ let c = $P; num(c) }"),
    ],
    &[
        ("match", "(match $P { Some(s) => num(s), None => 0, })"),
        ("copy-match", "{ let c = $P; (match c { Some(s) => num(s), None => 0, }) }"),
    ],
    &[
        ("copy-field", "{ let c = $P; c.n }"),
        ("copy-field-argument", "{ let c = $P; num(c.s) }"),
        ("copy-field-method", "{ let c = $P; num(c.s.to_uppercase()) }"),
        ("copy-copy", "{ let c = $P; let e = c; num(e.s) + c.n - c.n }"),
        ("eq", "{ let c = $P; (if c == $P { c.n } else { 0 }) }"),
        // a field of the constant itself (`path_value` with fields: the constant is copied
        // into a temporary at the site and the field is read from the copy)
        ("field", "$P.n"),
        ("field-argument", "num($P.s)"),
        ("field-method", "num($P.s.to_uppercase())"),
    ],
    &[
        ("match", "(match $P { A(s) => num(s), B => 0, })"),
        ("copy-match", "{ let c = $P; (match c { A(s) => num(s), B => 0, }) }"),
    ],
    &[
        ("get-match", "(match $P.get(0) { Some(s) => num(s), None => 0, })"),
        ("copy-get", "{ let c = $P; (match c.get(0) { Some(s) => num(s), None => 0, }) }"),
    ],
    // values without a number: every read is worth 0
    &[("statement", "{ $P; 0 }"), ("copy", "{ let c = $P; c; 0 }"), ("eq", "(if $P == $P { 0 } else { 1 })")],
    &[("copy", "{ let c = $P; 0 }"), ("statement", "{ $P; 0 }"), ("eq", "(if $P == $P { 0 } else { 1 })")],
    &[("field", "{ $P.u; 0 }"), ("copy-field", "{ let c = $P; c.u; 0 }"), ("eq", "(if $P == $P { 0 } else { 1 })")],
    &[
        ("match", "(match $P { Some(u) => 0, None => 1, })"),
        ("copy-match", "{ let c = $P; (match c { Some(u) => 0, None => 1, }) }"),
    ],
    &[("argument", "zid($P)"), ("copy", "{ let c = $P; zid(c) }"), ("eq", "(if $P == $P { 0 } else { 1 })")],
];

/// use-site forms of a context variable: (name, variable, expression of value `CX`)
const CTX_FORMS: [(&str, &str, &str); 13] = [
    ("bare", "cx", "cx"),
    ("method", "cx", "num(cx.to_string())"),
    ("argument", "cx", "idu(cx)"),
    ("fstring", "cx", "num(f\"{cx}\")"),
    ("str-method", "cs", "num(cs.to_uppercase())"),
    ("str-argument", "cs", "num(cs)"),
    ("str-fstring", "cs", "num(f\"{cs}\")"),
    ("match-examinee", "cx", "(match opt(cx) { Some(v) => v, None => 0, })"),
    ("block", "cx", "{ let t = { let u = cx; u }; t }"),
    ("if-cond", "cx", "(if cx == 1000003 { 1000003 } else { 0 })"),
    ("while", "cx", "{ let acc: u64 = 0; let i: u64 = 0; while i < 1 { acc = acc + cx; i = i + 1; } acc }"),
    ("arith", "cx", "(cx + 0)"),
    ("method-in-match", "cx", "(match Option.Some(cx.to_string()) { Some(s) => num(s), None => 0, })"),
];

/// local compound values (each term is worth 0): (name, template with `$R`/`$E` = record / enum type of the module)
const LOCAL_NAMES: [(&str, &str); 7] = [
    ("none", ""),
    ("record-clone", "{ let r = $R { s: \"0\", n: 0 }; let c = r; num(c.s) + r.n }"),
    ("record-eq", "{ let r = $R { s: \"0\", n: 0 }; let q = r; (if r == q { 0 } else { 1 }) }"),
    ("option-clone", "{ let o: String? = Option.Some(\"0\"); let c = o; (match c { Some(s) => num(s), None => 1, }) + (match o { Some(s) => num(s), None => 1, }) }"),
    ("enum-clone", "{ let e = $E.A(\"0\"); let c = e; (match c { A(s) => num(s), B => 1, }) + (match e { A(s) => num(s), B => 1, }) }"),
    ("list-clone", "{ let l = [\"0\"]; let c = l; (match c.get(0) { Some(s) => num(s), None => 1, }) + (match l.get(0) { Some(s) => num(s), None => 1, }) }"),
    ("option-eq", "{ let o: String? = Option.Some(\"0\"); let q = o; (if o == q { 0 } else { 1 }) }"),
];

/// Several read sites of the same constant in one body, on different paths:
/// (name, template with `$V` = one read site, `$D` = the depth the body runs with).
/// The first site in source order is conditionally executed, a later one lies on
/// a path around it. `early-return` is rendered as a statement in front of the
/// function body (`if d > 1 { return $V + 7; }`) plus one ordinary read.
const MULTI: [(&str, &str); 8] = [
    ("single", "$V"),
    ("then-after", "((if $D > 0 { $V } else { 0 }) + $V)"),
    ("else-after", "((if $D > 0 { 0 } else { $V }) + $V)"),
    ("while-after", "{ let acc: u64 = 0; let i: u64 = 0; while i < $D { acc = acc + $V; i = i + 1; } acc + $V }"),
    ("match-arm-after", "((match (if $D > 0 { Option.Some($D) } else { Option.None }) { Some(v) => $V + v - v, None => 0, }) + $V)"),
    ("both-arms-after", "((if $D > 0 { $V } else { $V + 0 }) + $V)"),
    ("nested-after", "((if $D > 0 { let t = { let u = $V; u }; t } else { 0 }) + $V)"),
    ("early-return", "$V"),
];
const EARLY: u8 = 7;

/// how many times the value of the constant is counted when the body runs with depth `d`
fn multi_count(multi: u8, in_const: bool, d: u64) -> u64 {
    match (multi, in_const) {
        (0, _) => 1,
        (1, _) | (4, _) | (6, _) => if d > 0 { 2 } else { 1 },
        (2, _) => if d > 0 { 1 } else { 2 },
        (3, _) => d + 1,
        (5, _) => 2,
        // a constant initialiser has nothing to return from: rendered as `then-after`
        (_, true) => if d > 0 { 2 } else { 1 },
        (_, false) => 1,
    }
}

#[derive(Clone, Debug, PartialEq)]
enum Expect {
    Accept,
    Cycle(&'static str),
    Context(&'static str),
}

#[derive(Clone, Debug)]
struct Case {
    items: Vec<Item>,
    /// declaration order of the items (indices), per module filtered from this
    decl: Vec<usize>,
    expect: Expect,
}

const STYLE_NAMES: [&str; 15] = [
    "plain", "block", "if", "fstring", "method", "match", "while", "arith",
    // round 4: syntactic positions the type checker visits through other expression kinds
    "call-argument", "match-arm", "else", "assign", "list-literal", "and-rhs", "record-field",
];

impl Item {
    fn name(&self) -> String {
        if self.is_const { format!("K{}", self.n) } else { format!("f{}", self.n) }
    }
}

/// reach[i][j]: a path of ≥ 1 edges from i to j
fn reach(items: &[Item]) -> Vec<Vec<bool>> {
    let n = items.len();
    let mut r = vec![vec![false; n]; n];
    for (i, it) in items.iter().enumerate() {
        for e in &it.refs {
            r[i][e.to] = true;
        }
    }
    for k in 0..n {
        for i in 0..n {
            if r[i][k] {
                for j in 0..n {
                    if r[k][j] {
                        r[i][j] = true;
                    }
                }
            }
        }
    }
    r
}

fn const_on_cycle(items: &[Item]) -> bool {
    let r = reach(items);
    (0..items.len()).any(|i| items[i].is_const && r[i][i])
}

/// a constant to inject a defect at: prefer one that reaches something
fn pick_root(p: &mut Prng, consts: &[usize], r: &[Vec<bool>]) -> usize {
    let rich: Vec<usize> = consts.iter().copied().filter(|&c| r[c].iter().any(|x| *x)).collect();
    if rich.is_empty() || p.chance(1, 8) { *p.pick(consts) } else { *p.pick(&rich) }
}

fn gen_ref(p: &mut Prng, to: usize, same_module: bool) -> Ref {
    let path = if same_module { if p.chance(1, 4) { 1 } else { 0 } } else { p.below(4) as u8 };
    let multi = if p.chance(1, 3) { 1 + p.below(MULTI.len() as u64 - 1) as u8 } else { 0 };
    Ref { to, style: p.below(STYLE_NAMES.len() as u64) as u8, path, guarded: false, depth: p.below(3), form: p.below(12) as u8, multi }
}

fn plain_item(is_const: bool, n: usize, module: usize) -> Item {
    Item { is_const, n, module, uses_ctx: false, ctx_form: 0, ty: 0, alias: None, local: 0, acc: (n as u8 + module as u8) % 8, init: 0, refs: vec![] }
}

fn plain_ref(to: usize) -> Ref {
    Ref { to, style: 0, path: 0, guarded: false, depth: 1, form: 0, multi: 0 }
}

/// Class representatives, generated first on every run whatever the seed:
/// every context use-site form at every distance from a constant, every type
/// of constant with every read form behind 0–2 calls, every kind of local
/// compound value in a function a constant needs.
fn boundary_count() -> u64 {
    let forms: usize = READ_FORMS.iter().map(|f| f.len()).sum();
    (CTX_FORMS.len() * 5 + forms * 3 + (LOCAL_NAMES.len() - 1) * 2 + multi_family() + scc_family(false) + init_family() + lead_family() + style_family()) as u64
}

/// Constants of every layout class × where the effect of the initialiser sits × who depends
/// on whom: five types whose values carry no data (four of them laid out in zero bytes) and
/// two sized ones; the effect as the value itself / a statement of a block / in a script
/// function / in a block that hands on another constant; the constant alone, read by another
/// constant, reading another constant, read through a function a constant calls.
const INIT_TYPES: [u8; 7] = [6, 7, 8, 9, 10, 0, 1];

fn init_family() -> usize {
    INIT_TYPES.len() * 4 * 4
}

fn init_graph(g: usize) -> (Vec<Item>, Expect) {
    let place = g % 4;
    let init = 1 + ((g / 4) % 4) as u8;
    let ty = INIT_TYPES[g / 16];
    let m = |k: usize| (g / 4 + k) % 4;
    // `typed`: the constant the case is about
    let (mut items, typed) = match place {
        0 => (vec![plain_item(true, 0, m(0))], 0),
        // K0 → K1: read by another constant
        1 => (vec![plain_item(true, 0, m(0)), plain_item(true, 1, m(1))], 1),
        // K0 → K1: reads another constant
        2 => (vec![plain_item(true, 0, m(0)), plain_item(true, 1, m(1))], 0),
        // K0 → f1 → K2: read through a function a constant calls
        _ => (vec![plain_item(true, 0, m(0)), plain_item(false, 1, m(1)), plain_item(true, 2, m(2))], 2),
    };
    let n = items.len();
    for i in 0..n - 1 {
        items[i].refs.push(plain_ref(i + 1));
        items[i].refs[0].form = (g / 2) as u8;
    }
    items[typed].ty = ty;
    items[typed].init = init;
    if place == 2 {
        // the other way round as well: the dependency has the effect in a block
        items[1].init = 2;
    }
    if init == 4 {
        // the constant whose value is handed on: same type (same module, where the type is
        // declared per module), its own effect in a script function / in a block
        let mut dep = plain_item(true, n, items[typed].module);
        dep.ty = ty;
        dep.init = if g % 2 == 0 { 3 } else { 2 };
        let mut r = plain_ref(n);
        r.form = (g / 2) as u8;
        items[typed].refs.insert(0, r);
        items.push(dep);
    }
    (items, Expect::Accept)
}

/// A ring of two mutually recursive functions one of which reads the context, reached by the
/// constant only through a lead — another constant, or a function outside the ring — that
/// calls the member that does not read: every assignment of the name numbers to the four
/// roles × two module patterns.
fn lead_family() -> usize {
    2 * factorial(4) * 2
}

fn lead_graph(g: usize) -> (Vec<Item>, Expect) {
    let lead_is_const = g % 2 == 0;
    let modpat = (g / 2) % 2;
    let perm = nth_perm(4, g / 4);
    let (mk, mf) = if modpat == 0 { (2, 0) } else { (0, 0) };
    // K → lead → other ⇄ reader
    let mut items = vec![
        plain_item(true, perm[0], mk),
        plain_item(lead_is_const, perm[1], if lead_is_const { mk } else { mf }),
        plain_item(false, perm[2], mf),
        plain_item(false, perm[3], mf),
    ];
    items[0].acc |= 8;
    items[1].acc |= 8;
    items[0].refs.push(plain_ref(1));
    items[1].refs.push(plain_ref(2));
    let mut a = plain_ref(3);
    a.guarded = true;
    items[2].refs.push(a);
    let mut b = plain_ref(2);
    b.guarded = true;
    items[3].refs.push(b);
    items[3].uses_ctx = true;
    items[3].ctx_form = (g % CTX_FORMS.len()) as u8;
    (items, Expect::Context(if lead_is_const { "via-constant-then-function-cycle" } else { "via-function-then-function-cycle" }))
}

/// Every syntactic position a reference can stand in (`STYLE_NAMES`) × what refers to what:
/// a constant reading a constant, a constant calling a function, a function a constant calls
/// reading a constant (the position is in the function's body).
fn style_family() -> usize {
    STYLE_NAMES.len() * 3
}

fn style_graph(g: usize) -> (Vec<Item>, Expect) {
    let style = (g % STYLE_NAMES.len()) as u8;
    let place = g / STYLE_NAMES.len();
    let m = |k: usize| (g + k) % 4;
    let mut items = match place {
        // K0 → K1
        0 => vec![plain_item(true, 0, m(0)), plain_item(true, 1, m(1))],
        // K0 → f1
        1 => vec![plain_item(true, 0, m(0)), plain_item(false, 1, m(1))],
        // K0 → f1 → K2
        _ => vec![plain_item(true, 0, m(0)), plain_item(false, 1, m(1)), plain_item(true, 2, m(2))],
    };
    let n = items.len();
    for i in 0..n - 1 {
        items[i].refs.push(plain_ref(i + 1));
    }
    items[n - 2].refs[0].style = style;
    (items, Expect::Accept)
}

/// several read sites of one constant on different paths: shape × type of the constant × where the body runs
fn multi_family() -> usize {
    (MULTI.len() - 1) * TY_NAMES.len() * 3
}

fn multi_graph(g: usize) -> (Vec<Item>, Expect) {
    let place = g % 3;
    let ty = (g / 3) % TY_NAMES.len();
    let multi = 1 + (g / 3 / TY_NAMES.len()) as u8;
    let m = |k: usize| (g + k) % 4;
    let mut items = match place {
        // K0 → K1, the initialiser of K0 has the read sites
        2 => vec![plain_item(true, 0, m(0)), plain_item(true, 1, m(1))],
        // K0 → f1 → K2, f1 has the read sites; K0 calls it with depth 0 (place 0) or 2 (place 1)
        _ => vec![plain_item(true, 0, m(0)), plain_item(false, 1, m(1)), plain_item(true, 2, m(2))],
    };
    let n = items.len();
    for i in 0..n - 1 {
        items[i].refs.push(plain_ref(i + 1));
    }
    items[0].refs[0].depth = if place == 1 { 2 } else { 0 };
    if place == 2 {
        items[0].refs[0].depth = (g / 3) as u64 % 3;
    }
    items[n - 2].refs[0].multi = multi;
    items[n - 2].refs[0].form = (g / 7) as u8;
    items[n - 1].ty = ty as u8;
    (items, Expect::Accept)
}

fn factorial(n: usize) -> usize {
    (1..=n).product()
}

fn nth_perm(n: usize, mut k: usize) -> Vec<usize> {
    let mut pool: Vec<usize> = (0..n).collect();
    let mut out = vec![];
    for i in (1..=n).rev() {
        let f = factorial(i - 1);
        out.push(pool.remove((k / f) % i));
        k %= f;
    }
    out
}

/// A constant that reaches a context read through a cycle of mutually recursive
/// functions: ring size × which member the constant calls (the reader is member
/// 0) × reader reads directly / through a helper outside the ring × every
/// assignment of the name numbers to the roles (the order in which the SCC pass
/// and the context check visit the items is the order of their names) × module
/// pattern (all in pkg / constant in a later module / functions in a later
/// module). `extended` (thorough tier and search) adds rings of four and the
/// helper variants of rings of three.
fn scc_shapes(extended: bool) -> Vec<(usize, usize, bool, usize)> {
    // (ring size, entry member, via helper, number of module patterns)
    let mut v = vec![(2, 0, false, 3), (2, 1, false, 3), (2, 0, true, 3), (2, 1, true, 3), (3, 1, false, 2), (3, 2, false, 2)];
    if extended {
        v.extend([(3, 1, true, 3), (3, 2, true, 3), (4, 1, false, 2), (4, 2, false, 2), (4, 3, false, 2)]);
    }
    v
}

fn scc_family(extended: bool) -> usize {
    scc_shapes(extended).iter().map(|&(s, _, _, mp)| factorial(s + 1) * mp).sum()
}

fn scc_graph(mut g: usize, extended: bool) -> (Vec<Item>, Expect) {
    let g0 = g;
    for (s, entry, helper, mp) in scc_shapes(extended) {
        let count = factorial(s + 1) * mp;
        if g >= count {
            g -= count;
            continue;
        }
        let perm = nth_perm(s + 1, g / mp);
        let modpat = g % mp;
        let (mk, mf) = match modpat {
            0 => (2, 0), // functions in pkg, constant in pkg.mb: the SCC pass starts at a ring member
            1 => (0, 0),
            _ => (0, 3), // constant in pkg, functions in pkg.ma.mc
        };
        let mut items = vec![plain_item(true, perm[0], mk)];
        // the accessor lives with the constant: nothing in pkg leads to the ring
        items[0].acc |= 8;
        for i in 0..s {
            let mut f = plain_item(false, perm[1 + i], mf);
            let mut r = plain_ref(1 + (i + 1) % s);
            r.guarded = true;
            f.refs.push(r);
            items.push(f);
        }
        items[0].refs.push(plain_ref(1 + entry));
        items[0].refs[0].depth = (g0 % 3) as u64;
        let reader = if helper {
            items.push(plain_item(false, s + 1, (mf + g0) % 4));
            items[1].refs.push(plain_ref(s + 1));
            s + 1
        } else {
            1
        };
        items[reader].uses_ctx = true;
        items[reader].ctx_form = (g0 % CTX_FORMS.len()) as u8;
        return (items, Expect::Context("via-function-cycle"));
    }
    unreachable!("scc_graph index out of range")
}

fn boundary_graph(g: u64) -> (Vec<Item>, Expect) {
    let g0 = g as usize;
    let mut g = g as usize;
    let m = |k: usize| (g0 + k) % 4;
    // --- context forms × placement
    if g < CTX_FORMS.len() * 5 {
        let form = (g / 5) as u8;
        let place = g % 5;
        let mut items = match place {
            // K0 itself
            0 => vec![plain_item(true, 0, m(0))],
            // K0 → f1
            1 => vec![plain_item(true, 0, m(0)), plain_item(false, 1, m(1))],
            // K0 → f1 → f2
            2 => vec![plain_item(true, 0, m(0)), plain_item(false, 1, m(1)), plain_item(false, 2, m(2))],
            // K0 → K1
            3 => vec![plain_item(true, 0, m(0)), plain_item(true, 1, m(1))],
            // f0 → K1, f0 reads the context: fine
            _ => vec![plain_item(false, 0, m(0)), plain_item(true, 1, m(1))],
        };
        let n = items.len();
        for i in 0..n - 1 {
            items[i].refs.push(plain_ref(i + 1));
        }
        let at = if place == 4 { 0 } else { n - 1 };
        items[at].uses_ctx = true;
        items[at].ctx_form = form;
        let expect = match place {
            0 => Expect::Context("direct"),
            1 | 2 => Expect::Context("via-function"),
            3 => Expect::Context("via-constant"),
            _ => Expect::Accept,
        };
        return (items, expect);
    }
    g -= CTX_FORMS.len() * 5;
    // --- typed constants × read form × distance
    let forms: usize = READ_FORMS.iter().map(|f| f.len()).sum();
    if g < forms * 3 {
        let shape = g % 3;
        let mut k = g / 3;
        let mut ty = 0;
        while k >= READ_FORMS[ty].len() {
            k -= READ_FORMS[ty].len();
            ty += 1;
        }
        // the typed constant is the last item; its reader sits right before it
        let mut items = match shape {
            // K0 → K1
            0 => vec![plain_item(true, 0, m(0)), plain_item(true, 1, m(1))],
            // K0 → f1 → K2
            1 => vec![plain_item(true, 0, m(0)), plain_item(false, 1, m(1)), plain_item(true, 2, m(2))],
            // K0 → f1 → f2 → K3
            _ => vec![
                plain_item(true, 0, m(0)),
                plain_item(false, 1, m(1)),
                plain_item(false, 2, m(2)),
                plain_item(true, 3, m(3)),
            ],
        };
        let n = items.len();
        for i in 0..n - 1 {
            items[i].refs.push(plain_ref(i + 1));
        }
        items[n - 2].refs[0].form = k as u8;
        items[n - 1].ty = ty as u8;
        items[n - 1].alias = if ty == 0 { None } else if g % 2 == 0 { Some(true) } else { Some(false) };
        if shape == 0 {
            items[0].ty = ty as u8;
        }
        return (items, Expect::Accept);
    }
    g -= forms * 3;
    if g >= (LOCAL_NAMES.len() - 1) * 2 {
        g -= (LOCAL_NAMES.len() - 1) * 2;
        // --- several read sites of one constant on different paths
        if g < multi_family() {
            return multi_graph(g);
        }
        g -= multi_family();
        // --- context reads inside / behind a cycle of mutually recursive functions
        if g < scc_family(false) {
            return scc_graph(g, false);
        }
        g -= scc_family(false);
        // --- layout classes of constants × where the effect of the initialiser sits
        if g < init_family() {
            return init_graph(g);
        }
        g -= init_family();
        // --- a ring with a context read behind a lead
        if g < lead_family() {
            return lead_graph(g);
        }
        // --- every syntactic position of a reference × what is referred to
        return style_graph(g - lead_family());
    }
    // --- local compound values: in a function a constant calls / in the initialiser
    let local = (1 + g / 2) as u8;
    let mut items = vec![plain_item(true, 0, m(0)), plain_item(false, 1, m(1))];
    items[0].refs.push(plain_ref(1));
    items[if g % 2 == 0 { 1 } else { 0 }].local = local;
    (items, Expect::Accept)
}

/// graphs from `EXT_BASE` on are the extended table of function cycles (thorough tier, search)
const EXT_BASE: u64 = 1 << 40;

/// a class representative (table entry), not a random graph
fn is_rep(g: u64) -> bool {
    g < boundary_count() || g >= EXT_BASE
}

/// The graph of case `g` (shared by all its declaration-order variants).
fn gen_graph(seed: u64, g: u64) -> (Vec<Item>, Expect) {
    if g >= EXT_BASE {
        return scc_graph((g - EXT_BASE) as usize % scc_family(true), true);
    }
    if g < boundary_count() {
        return boundary_graph(g);
    }
    let g = g - boundary_count();
    let mut p = Prng::for_case(seed, g);
    let n = 2 + p.below(8) as usize;
    let mut numbers: Vec<usize> = (0..n).collect();
    for i in (1..n).rev() {
        numbers.swap(i, p.below(i as u64 + 1) as usize);
    }
    let mut items: Vec<Item> = (0..n)
        .map(|i| Item {
            is_const: p.chance(3, 5),
            n: numbers[i],
            module: if p.chance(1, 4) { 0 } else { p.below(4) as usize },
            uses_ctx: false,
            ctx_form: p.below(CTX_FORMS.len() as u64) as u8,
            ty: if p.chance(1, 2) { 0 } else { p.below(TY_NAMES.len() as u64) as u8 },
            alias: match p.below(6) { 0 => Some(true), 1 => Some(false), _ => None },
            local: if p.chance(1, 5) { 1 + p.below(LOCAL_NAMES.len() as u64 - 1) as u8 } else { 0 },
            acc: if p.chance(1, 2) { 0 } else { p.below(16) as u8 },
            init: if p.chance(1, 2) { 0 } else { p.below(INIT_NAMES.len() as u64) as u8 },
            refs: vec![],
        })
        .collect();
    for it in items.iter_mut() {
        if !it.is_const || it.ty == 0 {
            it.alias = None;
        }
    }
    if !items.iter().any(|i| i.is_const) {
        items[0].is_const = true;
    }
    // forward edges: item i may mention items j > i (hidden topological rank)
    let density = 1 + p.below(3);
    for i in 0..n {
        for j in i + 1..n {
            if items[i].refs.len() < 3 && p.chance(density, 5) {
                let r = gen_ref(&mut p, j, items[i].module == items[j].module);
                items[i].refs.push(r);
            }
        }
    }
    // function-only cycles (self recursion, mutual recursion), guarded by `d`
    let back = p.below(3);
    for _ in 0..back {
        let i = p.below(n as u64) as usize;
        let j = p.below(i as u64 + 1) as usize;
        if items[i].is_const || items[j].is_const || items[i].refs.len() >= 4 {
            continue;
        }
        let mut r = gen_ref(&mut p, j, items[i].module == items[j].module);
        r.guarded = true;
        items[i].refs.push(r);
        if const_on_cycle(&items) {
            items[i].refs.pop();
        }
    }
    // a deliberate ring of two or three functions (mutual recursion), every call guarded
    if p.chance(1, 3) {
        let fs: Vec<usize> = (0..n).filter(|&i| !items[i].is_const).collect();
        if fs.len() >= 2 {
            let k = if fs.len() >= 3 && p.chance(1, 3) { 3 } else { 2 };
            let start = p.below((fs.len() - k + 1) as u64) as usize;
            let ring: Vec<usize> = fs[start..start + k].to_vec();
            let mut added: Vec<usize> = vec![];
            for (a, &i) in ring.iter().enumerate() {
                let j = ring[(a + 1) % k];
                if !items[i].refs.iter().any(|r| r.to == j) {
                    let mut r = gen_ref(&mut p, j, items[i].module == items[j].module);
                    r.guarded = true;
                    items[i].refs.push(r);
                    added.push(i);
                }
            }
            if const_on_cycle(&items) {
                for i in added {
                    items[i].refs.pop();
                }
            }
        }
    }
    let r = reach(&items);
    let consts: Vec<usize> = (0..n).filter(|&i| items[i].is_const).collect();
    let roll = p.below(20);
    let mut expect = Expect::Accept;
    if roll < 5 {
        // inject a cycle through a constant
        let c = pick_root(&mut p, &consts, &r);
        let mut from: Vec<usize> = (0..n).filter(|&i| r[c][i]).collect();
        if from.is_empty() || p.chance(1, 6) {
            from = vec![c];
        }
        let a = *p.pick(&from);
        let mut e = gen_ref(&mut p, c, items[a].module == items[c].module);
        e.guarded = false;
        items[a].refs.push(e);
        // classify the shortest description of the cycle
        let rr = reach(&items);
        let on_cycle: Vec<usize> = (0..n).filter(|&i| (i == c) || (rr[c][i] && rr[i][c])).collect();
        let kind = if a == c {
            "direct"
        } else if on_cycle.iter().map(|&i| items[i].module).collect::<BTreeSet<_>>().len() > 1 {
            "across-modules"
        } else if on_cycle.iter().any(|&i| !items[i].is_const) {
            "via-functions"
        } else {
            "via-constants"
        };
        expect = Expect::Cycle(kind);
    } else if roll < 9 {
        // a context use some constant reaches
        let c = pick_root(&mut p, &consts, &r);
        let from: Vec<usize> = (0..n).filter(|&i| r[c][i]).collect();
        // prefer a member of a cycle of functions the constant reaches
        let cyc: Vec<usize> = from.iter().copied().filter(|&i| r[i][i]).collect();
        let a = if from.is_empty() || p.chance(1, 6) {
            c
        } else if !cyc.is_empty() && p.chance(1, 2) {
            *p.pick(&cyc)
        } else {
            *p.pick(&from)
        };
        items[a].uses_ctx = true;
        let kind = if a == c {
            "direct"
        } else if items[a].is_const {
            "via-constant"
        } else if r[a][a] {
            "via-function-cycle"
        } else {
            "via-function"
        };
        expect = Expect::Context(kind);
    }
    // context uses no constant reaches are fine
    for i in 0..n {
        if !items[i].is_const && !consts.iter().any(|&c| r[c][i]) && p.chance(1, 3) {
            // (`r` is the reachability before injection; injection only adds
            // edges *into* a constant from something it reaches, or marks a use)
            let rr = reach(&items);
            if !consts.iter().any(|&c| rr[c][i]) {
                items[i].uses_ctx = true;
            }
        }
    }
    (items, expect)
}

fn gen_case(seed: u64, index: u64) -> Case {
    let g = index / VARIANTS;
    let v = index % VARIANTS;
    let (mut items, expect) = gen_graph(seed, g);
    let mut p = Prng::for_case(seed ^ 0xC14C_14C1, index);
    let n = items.len();
    let mut decl: Vec<usize> = (0..n).collect();
    match v {
        0 => {}                 // hidden rank order: users first
        1 => decl.reverse(),    // dependencies first
        _ => {
            for i in (1..n).rev() {
                decl.swap(i, p.below(i as u64 + 1) as usize);
            }
            // variants ≥ 2 also move items to other modules and rewrite the styles
            for it in items.iter_mut() {
                if p.chance(1, 2) {
                    it.module = p.below(4) as usize;
                }
            }
            let mods: Vec<usize> = items.iter().map(|i| i.module).collect();
            for it in items.iter_mut() {
                let m = it.module;
                for r in it.refs.iter_mut() {
                    let g = r.guarded;
                    let d = r.depth;
                    let f = r.form;
                    let mu = r.multi;
                    *r = gen_ref(&mut p, r.to, mods[r.to] == m);
                    r.guarded = g;
                    r.depth = d;
                    if is_rep(index / VARIANTS) {
                        // a class representative keeps its read form and its read sites in every variant
                        r.form = f;
                        r.multi = mu;
                    }
                }
            }
        }
    }
    // the cycle classification depends on the modules: recompute
    let expect = match expect {
        Expect::Cycle(k) if k != "direct" => {
            let rr = reach(&items);
            let cyc: Vec<usize> = (0..n).filter(|&i| rr[i][i]).collect();
            let comp_of_const: Vec<usize> = cyc
                .iter()
                .copied()
                .filter(|&i| cyc.iter().any(|&c| items[c].is_const && (c == i || (rr[c][i] && rr[i][c]))))
                .collect();
            let k = if comp_of_const.iter().map(|&i| items[i].module).collect::<BTreeSet<_>>().len() > 1 {
                "across-modules"
            } else if comp_of_const.iter().any(|&i| !items[i].is_const) {
                "via-functions"
            } else {
                "via-constants"
            };
            Expect::Cycle(k)
        }
        e => e,
    };
    Case { items, decl, expect }
}

// ------------------------------------------------------------ source text

struct Files {
    /// (module index, source)
    files: Vec<(usize, String)>,
}

fn read_form(t: &Item, form: u8) -> (&'static str, &'static str) {
    let forms = READ_FORMS[t.ty as usize];
    forms[form as usize % forms.len()]
}

/// the name of a constant's type as written in module `m`
fn ty_name(ty: u8, m: usize) -> String {
    match ty {
        0 => "u64".into(),
        1 => "String".into(),
        2 => "String?".into(),
        3 => format!("R{m}"),
        4 => format!("E{m}"),
        5 => "List[String]".into(),
        6 => "()".into(),
        7 => format!("N{m}"),
        8 => format!("U{m}"),
        9 => "()?".into(),
        _ => "Zt".into(),
    }
}

/// a value of the type made from the number `v` (types from `ZST` on: the one value there is)
fn ty_value(ty: u8, m: usize, v: &str) -> String {
    match ty {
        0 => v.to_string(),
        1 => format!("{v}.to_string()"),
        2 => format!("Option.Some({v}.to_string())"),
        3 => format!("R{m} {{ s: {v}.to_string(), n: {v} }}"),
        4 => format!("E{m}.A({v}.to_string())"),
        5 => format!("[{v}.to_string()]"),
        6 => "()".into(),
        7 => format!("N{m} {{}}"),
        8 => format!("U{m} {{ u: () }}"),
        9 => "Option.Some(())".into(),
        _ => "zt()".into(),
    }
}

/// the shape the initialiser of a constant is rendered in: `via-constant` needs a first
/// reference that is a constant of the same type, `direct-host-call` a type that has a value
/// made by one host call
fn eff_init(items: &[Item], it: &Item) -> u8 {
    match it.init {
        4 if via_const(items, it).is_none() => 2,
        1 if matches!(it.ty, 2..=5) => 0,
        1 if it.ty == 7 => 2,
        i => i,
    }
}

/// The initialiser of a constant: `rest` are the terms of its sum other than the effect
/// (reads of constants, calls of functions, a context read, local values), `via` the path of
/// the constant whose value is handed on (shape `via-constant`).
fn const_init(it: &Item, shape: u8, rest: &[String], via: Option<&str>) -> String {
    let (n, m, ty) = (it.n, it.module, it.ty);
    let sum = |first: String| std::iter::once(first).chain(rest.iter().cloned()).collect::<Vec<_>>().join(" + ");
    let rest_only = if rest.is_empty() { "0".to_string() } else { rest.join(" + ") };
    match shape {
        0 => {
            let body = sum(format!("emit({n})"));
            if ty == 0 { body } else { format!("{{ let v: u64 = {body}; {} }}", ty_value(ty, m, "v")) }
        }
        1 => {
            // the value is the host call itself
            let (call, uses_v) = match ty {
                0 => (if rest.is_empty() { format!("emit({n})") } else { format!("emit({n}) + v") }, true),
                1 => (if rest.is_empty() { format!("emit({n}).to_string()") } else { format!("(emit({n}) + v).to_string()") }, true),
                6 => (format!("emitu({n})"), false),
                8 => (format!("U{m} {{ u: emitu({n}) }}"), false),
                9 => (format!("Option.Some(emitu({n}))"), false),
                _ => (format!("mkz({n})"), false),
            };
            let _ = uses_v;
            if rest.is_empty() { call } else { format!("{{ let v: u64 = {rest_only}; {call} }}") }
        }
        2 => format!("{{ emitu({n}); let v: u64 = {}; {} }}", sum((n + 1).to_string()), ty_value(ty, m, "v")),
        3 if ty == 6 && rest.is_empty() => format!("ini_K{n}()"),
        3 => format!("{{ ini_K{n}(); let v: u64 = {}; {} }}", sum((n + 1).to_string()), ty_value(ty, m, "v")),
        _ => format!("{{ emitu({n}); let v: u64 = {}; {} }}", sum((n + 1).to_string()), via.unwrap_or("()")),
    }
}

fn render(case: &Case) -> Files {
    let items = &case.items;
    let mut imports: Vec<BTreeSet<String>> = vec![BTreeSet::new(); 4];
    let mut bodies: Vec<Vec<String>> = vec![vec![]; 4];
    let mut needs_record = [false; 4];
    let mut needs_enum = [false; 4];
    let mut needs_empty = [false; 4];
    let mut needs_unitrec = [false; 4];
    for &i in &case.decl {
        let it = &items[i];
        let m = it.module;
        let mut terms: Vec<String> = vec![];
        let mut prefixes: Vec<String> = vec![];
        if !it.is_const {
            terms.push(format!("{}", 100 + it.n));
        }
        if it.uses_ctx {
            terms.push(CTX_FORMS[it.ctx_form as usize].2.into());
        }
        if it.local != 0 {
            let t = LOCAL_NAMES[it.local as usize].1;
            needs_record[m] |= t.contains("$R");
            needs_enum[m] |= t.contains("$E");
            terms.push(t.replace("$R", &format!("R{m}")).replace("$E", &format!("E{m}")));
        }
        for r in &it.refs {
            let t = &items[r.to];
            let tn = t.name();
            let abs = format!("{}.{}", ABS[t.module], tn);
            let short = match rel_path(m, t.module) {
                None => tn.clone(),
                Some(mp) => format!("{mp}.{tn}"),
            };
            let mut local_import = None;
            let path = match r.path {
                0 => short,
                1 => abs,
                2 if t.module != m => {
                    imports[m].insert(format!("import {abs};"));
                    tn.clone()
                }
                3 if t.module != m => {
                    local_import = Some(format!("import {short};"));
                    tn.clone()
                }
                _ => short,
            };
            let (val, simple) = if t.is_const {
                let (fname, tpl) = read_form(t, r.form);
                let simple = t.ty == 0 && fname == "bare";
                let site = tpl.replace("$P", &path);
                if r.multi == 0 {
                    (site, simple)
                } else {
                    // several read sites of the constant, on different paths of this body
                    let site = if simple { site } else { format!("({site})") };
                    let dexpr = if it.is_const { format!("idu({})", r.depth) } else { "d".to_string() };
                    let shape = if r.multi != EARLY {
                        r.multi as usize
                    } else if it.is_const {
                        1
                    } else {
                        let imp = match &local_import {
                            Some(imp) => format!("{imp} "),
                            None => String::new(),
                        };
                        prefixes.push(format!("if d > 1 {{ {imp}return {site} + 7; }}"));
                        0
                    };
                    let v = MULTI[shape].1.replace("$V", &site).replace("$D", &dexpr);
                    (v, simple && shape == 0)
                }
            } else if it.is_const {
                (format!("{path}({})", r.depth), true)
            } else if r.guarded {
                (format!("{path}(d - 1)"), true)
            } else {
                (format!("{path}(d)"), true)
            };
            // a read that is not a plain path / call is bound first, then put in the shape
            let (pre, val) = if simple { (String::new(), val) } else { (format!("let t0: u64 = {val}; "), "t0".to_string()) };
            let e = match r.style {
                0 => val.clone(),
                1 => format!("{{ let t = {val}; t }}"),
                2 => format!("(if 1 == 1 {{ {val} }} else {{ 0 }})"),
                3 => format!("num(f\"{{{val}}}\")"),
                4 => format!("num({val}.to_string())"),
                5 => format!("(match Option.Some({val}) {{ Some(v) => v, None => 0, }})"),
                6 => format!(
                    "{{ let acc: u64 = 0; let i: u64 = 0; while i < 1 {{ acc = acc + {val}; i = i + 1; }} acc }}"
                ),
                7 => format!("({val} + 0)"),
                // argument of a call
                8 => format!("idu({val})"),
                // body of a match arm (style 5 is the examinee)
                9 => format!("(match Option.Some(0) {{ Some(v) => {val} + v, None => 0, }})"),
                // else branch
                10 => format!("(if 1 == 0 {{ 0 }} else {{ {val} }})"),
                // right-hand side of an assignment
                11 => format!("{{ let t: u64 = 0; t = {val}; t }}"),
                // element of a list literal
                12 => format!("(match [{val}].get(0) {{ Some(v) => v, None => 0, }})"),
                // right operand of `&&`
                13 => format!("{{ let t: u64 = 0; if (1 == 1) && ({{ t = {val}; 1 == 1 }}) {{ t }} else {{ 0 }} }}"),
                // field of an anonymous record literal
                _ => format!("{{ let r = {{ n: {val} }}; r.n }}"),
            };
            let e = if pre.is_empty() { e } else { format!("{{ {pre}{e} }}") };
            let e = match local_import {
                Some(imp) => format!("{{ {imp} {e} }}"),
                None => e,
            };
            let e = if r.guarded { format!("(if d > 0 {{ {e} }} else {{ 0 }})") } else { e };
            terms.push(e);
        }
        let body = terms.join(" + ");
        if it.is_const {
            needs_record[m] |= it.ty == 3;
            needs_enum[m] |= it.ty == 4;
            needs_empty[m] |= it.ty == 7;
            needs_unitrec[m] |= it.ty == 8;
            let tyname = ty_name(it.ty, m);
            let shape = eff_init(items, it);
            let via = via_const(items, it).map(|d| format!("{}.{}", ABS[items[d].module], items[d].name()));
            let init = const_init(it, shape, &terms, via.as_deref());
            let helper = format!("fn ini_K{}() {{ emitu({}); }}", it.n, it.n);
            if shape == 3 && it.n % 2 == 0 {
                bodies[m].push(helper.clone());
            }
            let decl = format!("const {}: {} = {};", it.name(), tyname, init);
            let alias = format!("const A{}: {} = {};", it.n, tyname, it.name());
            match it.alias {
                Some(true) => {
                    bodies[m].push(alias);
                    bodies[m].push(decl);
                }
                Some(false) => {
                    bodies[m].push(decl);
                    bodies[m].push(alias);
                }
                None => bodies[m].push(decl),
            }
            if shape == 3 && it.n % 2 == 1 {
                bodies[m].push(helper);
            }
        } else {
            bodies[m].push(format!("fn {}(d: u64) -> u64 {{ {}{} }}", it.name(), prefixes.iter().map(|p| format!("{p} ")).collect::<String>(), body));
        }
    }
    // accessors for the constants live in pkg, before or after everything else,
    // as functions or filtermaps; some constants are also read by a test item
    let mut oracle = Oracle { items, cval: vec![None; items.len()], fmemo: BTreeMap::new() };
    let mut fronts: Vec<Vec<String>> = vec![vec![]; 4];
    for (i, it) in items.iter().enumerate().filter(|(_, i)| i.is_const) {
        // bit 3: the accessor (and the test item) live in the constant's own module instead of pkg
        let am = if it.acc & 8 == 8 { it.module } else { 0 };
        let mut names = vec![it.name()];
        if it.alias.is_some() {
            names.push(format!("A{}", it.n));
        }
        let want = if matches!(case.expect, Expect::Accept) { oracle.constant(i) } else { 0 };
        for name in names {
            let path = format!("{}.{}", ABS[it.module], name);
            let read = read_form(it, 0).1.replace("$P", &path);
            let mut out = vec![];
            if it.acc & 1 == 1 {
                // (`accept pkg.…` does not parse — `accept` followed by a path starting with the
                // keyword `pkg` — which belongs to C09; the read is bound first)
                out.push(format!("filtermap rd_{name}(d: u64) {{ let v: u64 = {read}; accept v }}"));
            } else {
                out.push(format!("fn rd_{name}(d: u64) -> u64 {{ {read} }}"));
            }
            if it.acc & 4 == 4 {
                out.push(format!("test t_{name} {{ if {read} != {want} {{ reject; }} accept }}"));
            }
            if it.acc & 2 == 2 {
                fronts[am].append(&mut out);
            } else {
                bodies[am].append(&mut out);
            }
        }
    }
    for m in 0..4 {
        let mut f = std::mem::take(&mut fronts[m]);
        f.append(&mut bodies[m]);
        bodies[m] = f;
    }
    let files = (0..4)
        .map(|m| {
            let mut s = String::new();
            for i in &imports[m] {
                s.push_str(i);
                s.push('\n');
            }
            if needs_record[m] {
                s.push_str(&format!("record R{m} {{ s: String, n: u64 }}\n"));
            }
            if needs_enum[m] {
                s.push_str(&format!("enum E{m} {{ A(String), B }}\n"));
            }
            if needs_empty[m] {
                s.push_str(&format!("record N{m} {{}}\n"));
            }
            if needs_unitrec[m] {
                s.push_str(&format!("record U{m} {{ u: () }}\n"));
            }
            for b in &bodies[m] {
                s.push_str(b);
                s.push('\n');
            }
            (m, s)
        })
        .collect();
    Files { files }
}

/// The dependency structure the generated program is known to have: kind of
/// every script item / context variable by full name, and who mentions whom.
fn known_structure(case: &Case) -> (BTreeMap<String, char>, BTreeSet<(String, String)>) {
    let items = &case.items;
    let mut kinds = BTreeMap::new();
    let mut edges = BTreeSet::new();
    let full = |it: &Item| format!("{}.{}", ABS[it.module], it.name());
    for it in items {
        let from = full(it);
        kinds.insert(from.clone(), if it.is_const { 'c' } else { 'f' });
        for r in &it.refs {
            edges.insert((from.clone(), full(&items[r.to])));
        }
        if it.uses_ctx {
            let var = format!("{}", CTX_FORMS[it.ctx_form as usize].1);
            kinds.insert(var.clone(), 'x');
            edges.insert((from.clone(), var));
        }
        if it.is_const && eff_init(items, it) == 3 {
            let ini = format!("{}.ini_K{}", ABS[it.module], it.n);
            kinds.insert(ini.clone(), 'f');
            edges.insert((from.clone(), ini));
        }
        if it.is_const {
            let am = acc_module(it);
            let rd = format!("{am}.rd_{}", it.name());
            kinds.insert(rd.clone(), 'f');
            edges.insert((rd, from.clone()));
            if it.acc & 4 == 4 {
                let t = format!("{am}.test#t_{}", it.name());
                kinds.insert(t.clone(), 'f');
                edges.insert((t, from.clone()));
            }
            if it.alias.is_some() {
                let a = format!("{}.A{}", ABS[it.module], it.n);
                kinds.insert(a.clone(), 'c');
                edges.insert((a.clone(), from.clone()));
                let rd = format!("{am}.rd_A{}", it.n);
                kinds.insert(rd.clone(), 'f');
                edges.insert((rd, a.clone()));
                if it.acc & 4 == 4 {
                    let t = format!("{am}.test#t_A{}", it.n);
                    kinds.insert(t.clone(), 'f');
                    edges.insert((t, a));
                }
            }
        }
    }
    (kinds, edges)
}

/// How many read sites of which constant every generated item has in its
/// source: (full name of the item, full name of the constant) → sites.
fn known_sites(case: &Case) -> BTreeMap<(String, String), usize> {
    let items = &case.items;
    let full = |it: &Item| format!("{}.{}", ABS[it.module], it.name());
    let mut m: BTreeMap<(String, String), usize> = BTreeMap::new();
    for it in items {
        for r in it.refs.iter().filter(|r| items[r.to].is_const) {
            let t = &items[r.to];
            let per_site = read_form(t, r.form).1.matches("$P").count();
            let shape = if r.multi != EARLY { r.multi } else if it.is_const { 1 } else { EARLY };
            let sites = if shape == EARLY { 2 } else { MULTI[shape as usize].1.matches("$V").count() };
            *m.entry((full(it), full(t))).or_default() += per_site * sites;
        }
        if let Some(d) = via_const(items, it) {
            // the value of the initialiser is one more read of that constant
            *m.entry((full(it), full(&items[d]))).or_default() += 1;
        }
        if it.is_const {
            let am = acc_module(it);
            let per_read = read_form(it, 0).1.matches("$P").count();
            let mut names = vec![it.name()];
            if it.alias.is_some() {
                names.push(format!("A{}", it.n));
                m.insert((format!("{}.A{}", ABS[it.module], it.n), full(it)), 1);
            }
            for name in names {
                let c = format!("{}.{name}", ABS[it.module]);
                m.insert((format!("{am}.rd_{name}"), c.clone()), per_read);
                if it.acc & 4 == 4 {
                    m.insert((format!("{am}.test#t_{name}"), c), per_read);
                }
            }
        }
    }
    m
}

/// The lowered bodies against the source: every read site of a constant is one
/// `ConstantAddress` of that constant in the body of the item it stands in — no
/// site shares the read of another one, whatever path it lies on.
fn check_read_sites(rep: &mut Report, case: &Case, lir: &[LirItem], input: &Value) {
    let want = known_sites(case);
    let mut got: BTreeMap<(String, String), usize> = BTreeMap::new();
    for i in lir {
        let name = match &i.constant {
            Some((full, _)) => full.clone(),
            None => i.name.clone(),
        };
        for (c, n) in i.consts.iter().zip(&i.const_reads) {
            *got.entry((name.clone(), c.clone())).or_default() += n;
        }
    }
    for (k, w) in &want {
        let g = got.get(k).copied().unwrap_or(0);
        if g != *w {
            rep.mismatch(
                "the lowered body of an item reads a constant (ConstantAddress) another number of times than the item has read sites of it",
                json!({"case": input, "item": k.0, "constant": k.1, "read_sites": w, "constant_address_instructions": g}),
            );
        }
    }
    for (k, g) in &got {
        if !want.contains_key(k) {
            rep.mismatch(
                "the lowered body of an item reads a constant the item does not mention (generator)",
                json!({"case": input, "item": k.0, "constant": k.1, "constant_address_instructions": g}),
            );
        }
    }
    rep.hist("lir-read-sites", format!("at most {} sites of one constant in one item", want.values().max().copied().unwrap_or(0)));
}

/// full name of the module the accessor / test item of a constant lives in
fn acc_module(it: &Item) -> &'static str {
    if it.acc & 8 == 8 { ABS[it.module] } else { "pkg" }
}

fn tree(files: &[(usize, String)]) -> FileTree {
    let sf = |m: usize| SourceFile {
        name: format!("{}.roto", MODS[m]),
        module_name: MODS[m].into(),
        contents: files.iter().find(|f| f.0 == m).map(|f| f.1.clone()).unwrap_or_default(),
        location_offset: 0,
        children: vec![],
    };
    FileTree::file_spec(FileSpec::Directory(
        sf(0),
        vec![FileSpec::Directory(sf(1), vec![FileSpec::File(sf(3))]), FileSpec::File(sf(2))],
    ))
}

// ---------------------------------------------------------------- oracles

struct Oracle<'a> {
    items: &'a [Item],
    cval: Vec<Option<u64>>,
    fmemo: BTreeMap<(usize, u64), u64>,
}

impl Oracle<'_> {
    fn constant(&mut self, c: usize) -> u64 {
        if let Some(v) = self.cval[c] {
            return v;
        }
        let it = &self.items[c];
        let mut v = it.n as u64 + 1;
        for r in it.refs.clone() {
            v = v.wrapping_add(if self.items[r.to].is_const {
                self.constant(r.to).wrapping_mul(multi_count(r.multi, true, r.depth))
            } else {
                self.function(r.to, r.depth)
            });
        }
        if let Some(d) = via_const(self.items, it) {
            // the initialiser hands on the value of that constant
            v = self.constant(d);
        }
        if it.ty >= ZST {
            // a value without a number: every read form is worth 0
            v = 0;
        }
        self.cval[c] = Some(v);
        v
    }
    fn function(&mut self, f: usize, d: u64) -> u64 {
        if let Some(v) = self.fmemo.get(&(f, d)) {
            return *v;
        }
        let it = &self.items[f];
        // `if d > 1 { return K + 7; }` in front of the body
        if d > 1 {
            if let Some(r) = it.refs.iter().find(|r| self.items[r.to].is_const && r.multi == EARLY) {
                let to = r.to;
                let v = self.constant(to).wrapping_add(7);
                self.fmemo.insert((f, d), v);
                return v;
            }
        }
        let mut v = 100 + it.n as u64;
        if it.uses_ctx {
            v = v.wrapping_add(CX);
        }
        for r in it.refs.clone() {
            v = v.wrapping_add(if self.items[r.to].is_const {
                self.constant(r.to).wrapping_mul(multi_count(r.multi, false, d))
            } else if r.guarded {
                if d > 0 { self.function(r.to, d - 1) } else { 0 }
            } else {
                self.function(r.to, d)
            });
        }
        self.fmemo.insert((f, d), v);
        v
    }
}

fn dump_request(d: &Dump) -> String {
    let kinds: String = d
        .nodes
        .iter()
        .map(|n| match n.kind {
            NodeKind::Constant => 'c',
            NodeKind::Function => 'f',
            NodeKind::Context => 'x',
            NodeKind::Other => 'o',
        })
        .collect();
    let edges = if d.edges.is_empty() {
        "-".to_string()
    } else {
        d.edges
            .iter()
            .map(|(k, ts)| format!("{k}:{}", ts.iter().map(|t| t.to_string()).collect::<Vec<_>>().join(",")))
            .collect::<Vec<_>>()
            .join(";")
    };
    format!("c14 fco {} {edges}", if kinds.is_empty() { "-".into() } else { kinds })
}

fn nats(l: &[usize]) -> String {
    l.iter().map(|x| x.to_string()).collect::<Vec<_>>().join(",")
}

/// Compare the hook's dump and the observed log with the Lean model.
fn check_model(
    rep: &mut Report,
    drv: &mut Driver,
    d: &Dump,
    log: Option<&[u64]>,
    input: &Value,
) {
    let req = dump_request(d);
    let ans = drv.ask(&req);
    let field = |name: &str| -> String {
        ans.split(' ')
            .find_map(|w| w.strip_prefix(&format!("{name}=")))
            .unwrap_or("?")
            .to_string()
    };
    let real_comps = d.components.iter().map(|c| nats(c)).collect::<Vec<_>>().join(";");
    if field("comps") != real_comps {
        rep.mismatch(
            "tarjan: model components differ from the implementation's",
            json!({"case": input, "request": req, "model": field("comps"), "impl": real_comps}),
        );
    }
    let last = |s: &str| s.rsplit('.').next().unwrap_or(s).to_string();
    let real_out = match &d.order {
        Ok(o) => format!("ord:{}", nats(o)),
        Err(e) => {
            // name the constant the error points at
            let ident = e.split('`').nth(1).unwrap_or("?");
            let idx = d
                .nodes
                .iter()
                .position(|n| n.kind == NodeKind::Constant && last(&n.name) == ident)
                .map(|i| i.to_string())
                .unwrap_or("?".into());
            if e.contains("recursively defined") {
                format!("rec:{idx}")
            } else if e.contains("context variable") {
                format!("ctx:{idx}")
            } else {
                format!("other:{e}")
            }
        }
    };
    if field("out") != real_out {
        rep.mismatch(
            "find_compilation_order: model result differs from the implementation's",
            json!({"case": input, "request": req, "model": field("out"), "impl": real_out}),
        );
    }
    let cert = drv.ask(&format!(
        "{} {}",
        req.replacen("c14 fco", "c14 cert", 1),
        if real_comps.is_empty() { "-" } else { &real_comps }
    ));
    if cert == "valid=1-but-not-scc" {
        rep.mismatch(
            "the implementation's components are a valid order but not the strongly connected components (checker validScc)",
            json!({"case": input, "request": req, "components": real_comps}),
        );
    } else if cert != "valid=1" {
        viol(rep, 
            "the verified checker validOrder rejects the implementation's components: an item is missing, duplicated, or placed before something it references",
            "order:certificate",
            json!({"case": input, "request": req, "components": real_comps}),
        );
    }
    if let (Ok(_), Some(log)) = (&d.order, log) {
        // the model's initialiser log, as `emit` ids
        let model_log = field("cg");
        let real_log = format!(
            "log:{}",
            log.iter().map(|x| x.to_string()).collect::<Vec<_>>().join(",")
        );
        let model_log_ids = match model_log.strip_prefix("log:") {
            Some(l) => format!(
                "log:{}",
                l.split(',')
                    .filter(|s| !s.is_empty())
                    .filter_map(|s| {
                        let i: usize = s.parse().unwrap_or(usize::MAX);
                        match d.nodes.get(i) {
                            // an alias constant `A<n>` has no `emit` of its own
                            Some(n) if last(&n.name).starts_with('A') => None,
                            Some(n) => Some(last(&n.name).trim_start_matches('K').to_string()),
                            None => Some("?".into()),
                        }
                    })
                    .collect::<Vec<_>>()
                    .join(",")
            ),
            None => model_log.clone(),
        };
        if model_log_ids != real_log {
            rep.mismatch(
                "codegen loop: the model's initialiser log differs from the observed one",
                json!({"case": input, "request": req, "model": model_log_ids, "impl": real_log}),
            );
        }
    }
}

fn files_json(f: &Files) -> Value {
    json!(f.files.iter().map(|(m, s)| json!([MODS[*m], s])).collect::<Vec<_>>())
}

fn describe(e: &Expect) -> String {
    match e {
        Expect::Accept => "accept".into(),
        Expect::Cycle(k) => format!("cycle:{k}"),
        Expect::Context(k) => format!("context:{k}"),
    }
}

/// The collected reference graph against the structure the program is known
/// to have (`c14 tie`): every known edge must have been collected — whatever
/// syntactic position the mention sits in — and nothing between known items
/// may have been collected that is not there.
fn check_edges(rep: &mut Report, drv: &mut Driver, case: &Case, d: &Dump, input: &Value) {
    let (kinds, edges) = known_structure(case);
    // hook numbering, plus known names the collected graph does not have at all
    let mut names: Vec<String> = d.nodes.iter().map(|n| n.name.clone()).collect();
    let mut kind_s: String = d
        .nodes
        .iter()
        .map(|n| match n.kind {
            NodeKind::Constant => 'c',
            NodeKind::Function => 'f',
            NodeKind::Context => 'x',
            NodeKind::Other => 'o',
        })
        .collect();
    // context variables are dumped under their full name: find them by last segment
    let last = |s: &str| s.rsplit('.').next().unwrap_or(s).to_string();
    let resolve = |names: &Vec<String>, k: &str, kind: char| -> Option<usize> {
        if kind == 'x' {
            names.iter().position(|n| last(n) == k && !n.starts_with("pkg."))
        } else {
            names.iter().position(|n| n == k)
        }
    };
    for (k, c) in &kinds {
        if resolve(&names, k, *c).is_none() {
            names.push(k.clone());
            kind_s.push(*c);
        }
    }
    let id = |k: &str| resolve(&names, k, *kinds.get(k).unwrap_or(&'o')).unwrap();
    let known_ids: BTreeSet<usize> = kinds.keys().map(|k| id(k)).collect();
    for (k, c) in &kinds {
        let i = id(k);
        if i < d.nodes.len() && kind_s.as_bytes()[i] as char != *c {
            rep.mismatch(
                "a generated item is recorded under another kind than it was generated as (generator)",
                json!({"case": input, "name": k, "generated": c.to_string(), "recorded": (kind_s.as_bytes()[i] as char).to_string()}),
            );
        }
    }
    let fmt = |m: &BTreeMap<usize, BTreeSet<usize>>| -> String {
        if m.is_empty() {
            "-".into()
        } else {
            m.iter()
                .map(|(k, ts)| format!("{k}:{}", ts.iter().map(|t| t.to_string()).collect::<Vec<_>>().join(",")))
                .collect::<Vec<_>>()
                .join(";")
        }
    };
    let mut t: BTreeMap<usize, BTreeSet<usize>> = BTreeMap::new();
    for k in kinds.keys().filter(|k| kinds[*k] != 'x') {
        t.entry(id(k)).or_default();
    }
    for (a, b) in &edges {
        t.entry(id(a)).or_default().insert(id(b));
    }
    // the collected graph restricted to known items; a constant / context
    // variable target that is not known stays in (and will show as extra)
    let mut c: BTreeMap<usize, BTreeSet<usize>> = BTreeMap::new();
    for (k, ts) in &d.edges {
        if !known_ids.contains(k) {
            if matches!(d.nodes[*k].kind, NodeKind::Constant | NodeKind::Function) && d.nodes[*k].name.starts_with("pkg") {
                rep.mismatch("the collected graph has a script item the generator does not know (generator)", json!({"case": input, "name": d.nodes[*k].name}));
            }
            continue;
        }
        let e = c.entry(*k).or_default();
        for x in ts {
            if known_ids.contains(x) || matches!(d.nodes[*x].kind, NodeKind::Constant | NodeKind::Context) {
                e.insert(*x);
            }
        }
    }
    let req = format!("c14 tie {kind_s} {} {}", fmt(&t), fmt(&c));
    let ans = drv.ask(&req);
    let field = |name: &str| -> String {
        ans.split(' ').find_map(|w| w.strip_prefix(&format!("{name}="))).unwrap_or("?").to_string()
    };
    let pairs = |s: &str| -> Vec<(usize, usize)> {
        s.split(',')
            .filter_map(|w| {
                let (a, b) = w.split_once('>')?;
                Some((a.parse().ok()?, b.parse().ok()?))
            })
            .collect()
    };
    let missing = field("missing");
    if missing == "?" || field("extra") == "?" {
        rep.mismatch("driver: bad answer to c14 tie", json!({"request": req, "answer": ans}));
        return;
    }
    // which use-site form does a missing edge belong to?
    for (a, b) in pairs(&missing) {
        let (from, to) = (names[a].clone(), names[b].clone());
        let site = case
            .items
            .iter()
            .find(|it| format!("{}.{}", ABS[it.module], it.name()) == from)
            .map(|it| {
                if kind_s.as_bytes()[b] as char == 'x' {
                    format!("context:{}", CTX_FORMS[it.ctx_form as usize].0)
                } else {
                    it.refs
                        .iter()
                        .find(|r| {
                            let t = &case.items[r.to];
                            format!("{}.{}", ABS[t.module], t.name()) == to
                        })
                        .map(|r| {
                            let t = &case.items[r.to];
                            if t.is_const {
                                format!("const:{}:{}:{}", TY_NAMES[t.ty as usize], read_form(t, r.form).0, STYLE_NAMES[r.style as usize])
                            } else {
                                format!("fn:{}", STYLE_NAMES[r.style as usize])
                            }
                        })
                        .unwrap_or("?".into())
                }
            })
            .unwrap_or_else(|| if from.contains(".A") { "const:alias".into() } else { "accessor".into() });
        viol(rep, 
            "an item mentions a constant / function / context variable, but the reference is missing from the graph the compilation order and the context check are computed from",
            &format!("edge-missing:{site}"),
            json!({"case": input, "from": from, "to": to, "request": req}),
        );
    }
    for (a, b) in pairs(&field("extra")) {
        rep.mismatch(
            "the collected reference graph has an edge between generated items that the generated program does not have",
            json!({"case": input, "from": names[a], "to": names[b], "request": req}),
        );
    }
    // what the property demands of this structure, by the model, against what was generated for
    let out = field("out");
    let want = match &case.expect {
        Expect::Accept => "ord",
        Expect::Cycle(_) => "rec",
        Expect::Context(_) => "ctx",
    };
    if !out.starts_with(want) {
        rep.mismatch(
            "the model's verdict on the generated dependency structure differs from the generator's intent (generator)",
            json!({"case": input, "model": out, "generated-as": describe(&case.expect), "request": req}),
        );
    }
}

/// the use-site form of the context read some constant reaches
fn reached_ctx_form(items: &[Item]) -> &'static str {
    let r = reach(items);
    (0..items.len())
        .find(|&i| items[i].uses_ctx && (items[i].is_const || (0..items.len()).any(|c| items[c].is_const && r[c][i])))
        .map(|i| CTX_FORMS[items[i].ctx_form as usize].0)
        .unwrap_or("?")
}

/// For a dumped graph with a cycle of functions one of whose members mentions
/// a context variable (directly, or a function outside the cycle that does):
/// did the SCC pass enter the cycle at that member (it is the root, popped
/// last) or at another one?
fn cycle_entry(d: &Dump) -> Option<&'static str> {
    let targets = |i: usize| d.edges.iter().find(|e| e.0 == i).map(|e| e.1.clone()).unwrap_or_default();
    let reads = |i: usize| targets(i).iter().any(|t| d.nodes[*t].kind == NodeKind::Context);
    for c in d.components.iter().filter(|c| c.len() > 1) {
        let reader = |i: usize| reads(i) || targets(i).iter().any(|t| !c.contains(t) && reads(*t));
        if c.iter().any(|&i| reader(i)) {
            let root = *c.last().unwrap();
            return Some(if reader(root) { "entered at the reading member" } else { "entered at another member" });
        }
    }
    None
}

fn symbol_class(s: &str) -> &'static str {
    if s.starts_with("::generated::clone_") {
        "generated-clone"
    } else if s.starts_with("::generated::drop_") {
        "generated-drop"
    } else if s.starts_with("::generated::eq_") {
        "generated-eq"
    } else {
        "script-function"
    }
}

/// The item list the code generator walked against the model's loop
/// (`c14 lir`): the loop must complete — when an initialiser runs, every
/// function it can reach has a body — and run the initialisers in the observed
/// order.
fn check_lir(rep: &mut Report, drv: &mut Driver, lir: &[LirItem], log: Option<&[u64]>, panicked: bool, input: &Value) {
    let pos_of = |s: &str| lir.iter().position(|i| i.name == s);
    let const_pos = |full: &str| lir.iter().position(|i| i.constant.as_ref().is_some_and(|c| c.0 == full));
    let opt = |o: Option<usize>| o.map(|x| x.to_string()).unwrap_or("u".into());
    let req = format!(
        "c14 lir {}",
        lir.iter()
            .map(|i| {
                let k = match &i.constant {
                    Some((_, drop)) => format!("c{}", opt(pos_of(drop))),
                    None => "f".into(),
                };
                format!(
                    "{k}/{}/{}",
                    i.funcs.iter().map(|f| opt(pos_of(f))).collect::<Vec<_>>().join(","),
                    i.consts.iter().map(|c| opt(const_pos(c))).collect::<Vec<_>>().join(",")
                )
            })
            .collect::<Vec<_>>()
            .join(";")
    );
    if lir.is_empty() {
        return;
    }
    let ans = drv.ask(&req);
    // the closed form `lirReady` must agree with the loop
    let (ans, ready) = match ans.rsplit_once(" ready=") {
        Some((a, r)) => (a.to_string(), r.to_string()),
        None => (ans.clone(), "?".into()),
    };
    if (ready == "1") != ans.starts_with("lir=ok:") || ready == "?" {
        rep.mismatch(
            "the closed form lirReady disagrees with the model's loop cgLir on a real item list",
            json!({"case": input, "request": req, "loop": ans, "ready": ready}),
        );
    }
    if let Some(order) = ans.strip_prefix("lir=ok:") {
        if panicked {
            rep.mismatch(
                "codegen loop over the lowered items: the model completes but the compiler panicked",
                json!({"case": input, "request": req}),
            );
        }
        if let Some(log) = log {
            let ids: Vec<String> = order
                .split(',')
                .filter(|s| !s.is_empty())
                .filter_map(|s| {
                    let i: usize = s.parse().ok()?;
                    let full = &lir.get(i)?.constant.as_ref()?.0;
                    let l = full.rsplit('.').next().unwrap_or(full);
                    l.strip_prefix('K').map(|n| n.to_string())
                })
                .collect();
            let real: Vec<String> = log.iter().map(|x| x.to_string()).collect();
            if ids != real {
                rep.mismatch(
                    "codegen loop over the lowered items: the model's initialiser order differs from the observed log",
                    json!({"case": input, "request": req, "model": ids, "impl": real}),
                );
            }
        }
    } else if let Some(k) = ans.strip_prefix("lir=panic@") {
        let k: usize = k.parse().unwrap_or(0);
        // the loop stops at item k: name what is not there yet
        let mut what = "?".to_string();
        let mut class = "?";
        if let Some(item) = lir.get(k) {
            let mut found = false;
            for j in 0..=k {
                for f in &lir[j].funcs {
                    if pos_of(f).is_none_or(|p| p > k) && !found {
                        what = format!("`{}` (item {j}) refers to `{f}`, which has no body when `{}` (item {k}) is evaluated", lir[j].name, item.name);
                        class = symbol_class(f);
                        found = true;
                    }
                }
            }
            if !found {
                if let Some((_, drop)) = &item.constant {
                    if pos_of(drop).is_none_or(|p| p > k) {
                        what = format!("the drop function `{drop}` of constant `{}` (item {k}) has no body when the constant is evaluated", item.name);
                        class = "constant-drop";
                        found = true;
                    }
                }
            }
            if !found {
                for c in &item.consts {
                    if const_pos(c).is_none_or(|p| p >= k) && !found {
                        what = format!("`{}` (item {k}) reads constant `{c}`, which has not been evaluated", item.name);
                        class = "constant-not-evaluated";
                        found = true;
                    }
                }
            }
        }
        viol(rep, 
            "in the item list handed to the code generator, a constant is evaluated before something its initialiser can reach has been defined",
            &format!("lir-order:{class}"),
            json!({"case": input, "what": what, "items": lir.iter().map(|i| i.name.clone()).collect::<Vec<_>>(), "request": req}),
        );
    } else {
        rep.mismatch("driver: bad answer to c14 lir", json!({"request": req, "answer": ans}));
    }
}

fn run_case(rep: &mut Report, drv: &mut Driver, seed: u64, index: u64) {
    let case = gen_case(seed, index);
    let files = render(&case);
    let input = json!({"seed": seed, "index": index, "expect": describe(&case.expect), "files": files_json(&files)});
    rep.evaluations += 1;
    let items = &case.items;
    let n = items.len();
    rep.hist("items", n.to_string());
    rep.hist("expect", describe(&case.expect));
    rep.hist("variant", (index % VARIANTS).to_string());
    rep.hist("stream", if index / VARIANTS >= EXT_BASE { "class-representatives (extended cycle table)" } else if is_rep(index / VARIANTS) { "class-representatives" } else { "random" });
    rep.hist("modules-used", items.iter().map(|i| i.module).collect::<BTreeSet<_>>().len().to_string());
    for it in items {
        if it.uses_ctx {
            rep.hist("context-form", CTX_FORMS[it.ctx_form as usize].0);
        }
        if it.local != 0 {
            rep.hist("local-compound", format!("{} in {}", LOCAL_NAMES[it.local as usize].0, if it.is_const { "const" } else { "fn" }));
        }
        if it.is_const {
            rep.hist("accessor", format!("{}{}{}", if it.acc & 1 == 1 { "filtermap" } else { "fn" }, if it.acc & 2 == 2 { " first" } else { " last" }, if it.acc & 4 == 4 { " +test" } else { "" }) + if it.acc & 8 == 8 { " (own module)" } else { "" });
            rep.hist("const-type", format!("{}{}", TY_NAMES[it.ty as usize], if it.alias.is_some() { " +alias" } else { "" }));
            rep.hist("const-init", format!("{} ({})", INIT_NAMES[eff_init(items, it) as usize], if zero_sized(it.ty) { "zero-sized type" } else if it.ty >= ZST { "Option of a zero-sized type" } else { "sized type" }));
        }
        for r in &it.refs {
            let t = &items[r.to];
            if t.is_const {
                rep.hist("const-read-form", format!("{}:{}", TY_NAMES[t.ty as usize], read_form(t, r.form).0));
                rep.hist("const-read-sites", format!("{} in {}", MULTI[r.multi as usize].0, if it.is_const { "const" } else { "fn" }));
            }
            rep.hist(
                "ref-style",
                format!(
                    "{}→{} {}",
                    if it.is_const { "const" } else { "fn" },
                    if items[r.to].is_const { "const" } else { "fn" },
                    STYLE_NAMES[r.style as usize]
                ),
            );
            rep.hist(
                "ref-path",
                match (r.path, it.module == items[r.to].module) {
                    (1, _) => "absolute",
                    (_, true) => "bare",
                    (0, false) => "relative",
                    (2, false) => "module-import",
                    _ => "local-import",
                },
            );
        }
    }
    let rt = runtime();

    // ---- phase 1: type check only; the collected graph against the known structure
    let _ = take_dump();
    let checked = catch_unwind(AssertUnwindSafe(|| typecheck_only(tree(&files.files), &rt)));
    let dump1 = take_dump();
    let mut entry = "-";
    if let Some(d) = &dump1 {
        check_edges(rep, drv, &case, d, &input);
        if let Some(e) = cycle_entry(d) {
            entry = e;
            rep.hist("context-behind-function-cycle", format!("{e}, {}", describe(&case.expect)));
        }
    } else if matches!(checked, Ok(Ok(()))) {
        rep.mismatch("no dump recorded for a type-checked program", input.clone());
    }
    if let (Ok(Ok(())), Expect::Context(k)) = (&checked, &case.expect) {
        // do not go on: the initialiser would be run without a context
        let form = reached_ctx_form(items);
        viol(rep, 
            "a constant that transitively reads a context variable passed the type checker (its initialiser would run at compile time without a context)",
            &format!("context-accepted:{k}:{form}"),
            json!({"case": input}),
        );
        if let Some(d) = &dump1 {
            check_model(rep, drv, d, None, &input);
        }
        rep.class(format!("{}|typechecked|{}|{}", describe(&case.expect), form, entry));
        return;
    }

    // ---- phase 2: the whole of compile
    LOG.lock().unwrap().clear();
    let _ = take_lir();
    let compiled = catch_unwind(AssertUnwindSafe(|| tree(&files.files).compile(&rt)));
    let log: Vec<u64> = LOG.lock().unwrap().clone();
    let dump = take_dump();
    let lir = take_lir();
    // the layout the code generator gives every generated constant: the types taken to be
    // zero-sized are, the others are not (so that the class is exercised, not assumed)
    if let Some(layouts) = take_const_layouts() {
        for it in items.iter().filter(|i| i.is_const) {
            let full = format!("{}.{}", ABS[it.module], it.name());
            match layouts.iter().find(|l| l.0 == full).and_then(|l| l.1) {
                Some((size, _)) => {
                    rep.hist("const-layout", format!("{}: {}", TY_NAMES[it.ty as usize], if size == 0 { "0 bytes" } else { "> 0 bytes" }));
                    if (size == 0) != zero_sized(it.ty) {
                        rep.mismatch(
                            "a generated constant is laid out in another size class than the generator takes its type to have (generator)",
                            json!({"case": input, "constant": full, "type": TY_NAMES[it.ty as usize], "size": size}),
                        );
                    }
                }
                None => rep.mismatch("no layout recorded for a generated constant", json!({"case": input, "constant": full})),
            }
        }
    }
    if let Some(l) = &lir {
        let ok = matches!(compiled, Ok(Ok(_)));
        check_lir(rep, drv, l, if ok { Some(&log) } else { None }, compiled.is_err(), &input);
        if ok {
            check_read_sites(rep, &case, l, &input);
        }
        for i in l {
            for f in &i.funcs {
                if f.starts_with("::generated::") {
                    rep.hist("lir-helper-refs", format!("{} from {}", symbol_class(f), if i.constant.is_some() { "initialiser" } else if i.name.starts_with("::generated::") { "helper" } else { "function" }));
                }
            }
        }
    } else if matches!(compiled, Ok(Ok(_))) {
        rep.mismatch("no item list recorded for a compiled program", input.clone());
    }

    let class;
    match compiled {
        Err(_) => {
            viol(rep, 
                "the compiler panicked on a generated program",
                &format!("compile-panic:{}", describe(&case.expect)),
                json!({"case": input, "log": log}),
            );
            class = "panic".to_string();
            if let Some(d) = &dump {
                check_model(rep, drv, d, None, &input);
            }
        }
        Ok(Err(report)) => {
            let text = format!("{report}");
            let kind = if text.contains("recursively defined") {
                "cycle"
            } else if text.contains("depends on a context variable") {
                "context"
            } else {
                "other"
            };
            class = format!("rejected:{kind}");
            if !log.is_empty() {
                viol(rep, 
                    "a program was rejected after a constant initialiser had already run",
                    "rejected-after-evaluation",
                    json!({"case": input, "log": log, "error": kind}),
                );
            }
            match (&case.expect, kind) {
                (Expect::Cycle(_), "cycle") | (Expect::Context(_), "context") => {}
                (Expect::Accept, _) => viol(rep, 
                    "a program whose constants form a DAG and reach no context variable was rejected",
                    &format!("valid-rejected:{kind}"),
                    json!({"case": input, "error": strip_ansi(&text)}),
                ),
                (e, _) => rep.mismatch(
                    "generated invalid program was rejected for another reason than intended (generator)",
                    json!({"case": input, "expected": describe(e), "error": strip_ansi(&text)}),
                ),
            }
            if let Some(d) = &dump {
                check_model(rep, drv, d, None, &input);
            } else if kind != "other" {
                rep.mismatch("no dump recorded for a program rejected by find_compilation_order", input.clone());
            }
        }
        Ok(Ok(mut pkg)) => {
            class = "compiled".to_string();
            match &case.expect {
                Expect::Cycle(k) => viol(rep, 
                    "a constant that depends on itself was accepted",
                    &format!("cycle-accepted:{k}"),
                    json!({"case": input, "log": log}),
                ),
                Expect::Context(k) => viol(rep, 
                    "a constant that transitively reads a context variable was accepted",
                    &format!("context-accepted:{k}"),
                    json!({"case": input, "log": log}),
                ),
                Expect::Accept => {
                    // exactly once
                    let mut count: BTreeMap<u64, usize> = BTreeMap::new();
                    for id in &log {
                        *count.entry(*id).or_default() += 1;
                    }
                    for it in items.iter().filter(|i| i.is_const) {
                        // which constant: its layout class, and where the effect sits in the initialiser
                        let which = format!(
                            "{}:{}",
                            if zero_sized(it.ty) { format!("zero-sized:{}", TY_NAMES[it.ty as usize]) } else { format!("sized:{}", TY_NAMES[it.ty as usize]) },
                            INIT_NAMES[eff_init(items, it) as usize]
                        );
                        match count.get(&(it.n as u64)).copied().unwrap_or(0) {
                            1 => {}
                            0 => viol(rep,
                                "a constant's initialiser did not run during compile",
                                &format!("not-evaluated:{which}"),
                                json!({"case": input, "constant": it.name(), "log": log}),
                            ),
                            _ => viol(rep,
                                "a constant's initialiser ran more than once during compile",
                                &format!("evaluated-twice:{which}"),
                                json!({"case": input, "constant": it.name(), "log": log}),
                            ),
                        }
                    }
                    // dependencies first
                    let r = reach(items);
                    let at = |i: usize| log.iter().position(|x| *x == items[i].n as u64);
                    for c in (0..n).filter(|&i| items[i].is_const) {
                        for dd in (0..n).filter(|&i| items[i].is_const && r[c][i]) {
                            if let (Some(pc), Some(pd)) = (at(c), at(dd)) {
                                if pd >= pc {
                                    viol(rep, 
                                        "a constant was evaluated before a constant it depends on",
                                        &format!(
                                            "order:{}-after-{}",
                                            if zero_sized(items[dd].ty) { "zero-sized-dependency" } else { "sized-dependency" },
                                            if zero_sized(items[c].ty) { "zero-sized" } else { "sized" }
                                        ),
                                        json!({"case": input, "constant": items[c].name(), "dependency": items[dd].name(), "log": log}),
                                    );
                                }
                            }
                        }
                    }
                    // afterwards: same values, nothing evaluated again
                    let mut o = Oracle { items, cval: vec![None; n], fmemo: BTreeMap::new() };
                    let mut ctx = the_ctx();
                    for round in 0..2 {
                        for i in 0..n {
                            let it = &items[i];
                            if it.is_const {
                                let want = o.constant(i);
                                let am = format!("{}.", acc_module(it));
                                let am = am.strip_prefix("pkg.").unwrap_or(&am).to_string();
                                let mut names = vec![format!("{am}rd_{}", it.name())];
                                if it.alias.is_some() {
                                    names.push(format!("{am}rd_A{}", it.n));
                                }
                                for name in names {
                                    let got = if it.acc & 1 == 1 {
                                        pkg.get_function::<fn(u64) -> Verdict<u64, ()>>(&name).map(|f| match f.call(&mut ctx, round) {
                                            Verdict::Accept(v) => v,
                                            Verdict::Reject(()) => u64::MAX,
                                        })
                                    } else {
                                        pkg.get_function::<fn(u64) -> u64>(&name).map(|f| f.call(&mut ctx, round))
                                    };
                                    match got {
                                        Ok(got) => {
                                            if got != want {
                                                viol(rep, 
                                                    "a constant read after compile does not have the value its initialiser computes from its dependencies",
                                                    "value:constant",
                                                    json!({"case": input, "constant": name, "got": got, "want": want}),
                                                );
                                            }
                                        }
                                        Err(e) => rep.mismatch("accessor not found (harness)", json!({"case": input, "name": name, "error": format!("{e}")})),
                                    }
                                }
                            } else {
                                let fname = format!("{}.{}", ABS[it.module], it.name());
                                let fname = fname.trim_start_matches("pkg.").to_string();
                                for d in 0..3u64 {
                                    let want = o.function(i, d);
                                    match pkg.get_function::<fn(u64) -> u64>(&fname) {
                                        Ok(f) => {
                                            let got = f.call(&mut ctx, d);
                                            if got != want {
                                                viol(rep, 
                                                    "a function called after compile does not observe the values the constants were given",
                                                    "value:function",
                                                    json!({"case": input, "function": it.name(), "d": d, "got": got, "want": want}),
                                                );
                                            }
                                        }
                                        Err(e) => rep.mismatch("function not found (harness)", json!({"case": input, "name": it.name(), "error": format!("{e}")})),
                                    }
                                }
                            }
                        }
                    }
                    // the test items see the same values
                    let tests: Vec<_> = pkg.get_tests().collect();
                    let ntests = items.iter().filter(|i| i.is_const && i.acc & 4 == 4).map(|i| 1 + i.alias.is_some() as usize).sum::<usize>();
                    if tests.len() != ntests {
                        rep.mismatch("number of test items differs from the generated one (harness)", json!({"case": input, "got": tests.len(), "want": ntests}));
                    }
                    for t in &tests {
                        if t.run(&mut ctx).is_err() {
                            viol(rep, 
                                "a test item reading a constant after compile does not see the value its initialiser computes from its dependencies",
                                "value:test",
                                json!({"case": input, "test": t.name()}),
                            );
                        }
                    }
                    drop(tests);
                    let after: Vec<u64> = LOG.lock().unwrap().clone();
                    if after != log {
                        viol(rep, 
                            "calling functions after compile ran a constant initialiser again",
                            "evaluated-at-call-time",
                            json!({"case": input, "log_after_compile": log, "log_after_calls": after}),
                        );
                    }
                }
            }
            match &dump {
                Some(d) => check_model(rep, drv, d, Some(&log), &input),
                None => rep.mismatch("no dump recorded for a compiled program", input.clone()),
            }
            drop(pkg);
        }
    }
    // class: what was generated × what happened × shape of the graph
    let nconst = items.iter().filter(|i| i.is_const).count();
    let nedges: usize = items.iter().map(|i| i.refs.len()).sum();
    let fcycle = {
        let r = reach(items);
        (0..n).any(|i| !items[i].is_const && r[i][i])
    };
    let compound = items.iter().any(|i| (i.is_const && i.ty != 0) || i.local != 0);
    let ctxform = if matches!(case.expect, Expect::Context(_)) {
        reached_ctx_form(items)
    } else {
        items.iter().find(|i| i.uses_ctx).map(|i| CTX_FORMS[i.ctx_form as usize].0).unwrap_or("-")
    };
    let sites = items
        .iter()
        .flat_map(|i| i.refs.iter().map(move |r| (i, r)))
        .find(|(_, r)| items[r.to].is_const && r.multi != 0)
        .map(|(i, r)| format!("{}:{}", MULTI[r.multi as usize].0, if i.is_const { "c" } else { "f" }))
        .unwrap_or("-".into());
    let init = items
        .iter()
        .filter(|i| i.is_const)
        .find(|i| eff_init(items, i) != 0 || i.ty >= ZST)
        .map(|i| format!("{}:{}", INIT_NAMES[eff_init(items, i) as usize], TY_NAMES[i.ty as usize]))
        .unwrap_or("-".into());
    rep.class(format!(
        "{}|{}|c{}f{}e{}|fcycle={}|mods={}|v{}|compound={}|ctx={}|entry={entry}|sites={sites}|init={init}",
        describe(&case.expect),
        class,
        nconst,
        n - nconst,
        nedges.min(9),
        fcycle as u8,
        items.iter().map(|i| i.module).collect::<BTreeSet<_>>().len(),
        (index % VARIANTS).min(2),
        compound as u8,
        ctxform,
    ));
    if index % 97 == 0 {
        rep.sample(json!({"case": input, "outcome": class, "log": log,
            "impl_order": dump.as_ref().map(|d| match &d.order { Ok(o) => json!(o.iter().map(|i| d.nodes[*i].name.clone()).collect::<Vec<_>>()), Err(e) => json!({"error": e}) }),
            "lir_items": lir.as_ref().map(|l| l.iter().map(|i| i.name.clone()).collect::<Vec<_>>())}));
    }
}

/// The order in which the SCC pass and the context check visit the items is the
/// order of their `ResolvedName`s, i.e. (module scope, identifier), and
/// identifiers compare by their number in a process-wide interner — by when the
/// process first saw them. So that a case behaves the same in a batch and when
/// replayed alone, every process first type checks one fixed program that
/// mentions every name the generator uses, in a fixed order.
fn warm_up() {
    let mut s = String::new();
    for n in 0..12 {
        s.push_str(&format!("fn f{n}(d: u64) -> u64 {{ d }}\nconst K{n}: u64 = {n};\nconst A{n}: u64 = K{n};\n"));
    }
    for n in 0..12 {
        s.push_str(&format!("fn rd_K{n}(d: u64) -> u64 {{ K{n} }}\nfn rd_A{n}(d: u64) -> u64 {{ A{n} }}\ntest t_K{n} {{ accept }}\ntest t_A{n} {{ accept }}\n"));
    }
    // (names added later come after everything above: the order of the older names is unchanged)
    for n in 0..12 {
        s.push_str(&format!("fn ini_K{n}() {{ }}\n"));
    }
    let rt = runtime();
    let _ = catch_unwind(AssertUnwindSafe(|| typecheck_only(tree(&[(0, s)]), &rt)));
    let _ = take_dump();
}

fn on_crash(seed: u64, base: u64) -> impl FnMut(&mut Report, u64, &rotov_harness::worker::Ended) {
    move |rep: &mut Report, idx: u64, how: &rotov_harness::worker::Ended| {
        let idx = base + idx;
        let case = gen_case(seed, idx);
        let files = render(&case);
        viol(rep, 
            "the process died (abort/trap/timeout) while compiling or calling a generated program",
            &format!("compile-crash:{}", describe(&case.expect)),
            json!({"seed": seed, "index": idx, "ended": format!("{how:?}"), "files": files_json(&files)}),
        );
    }
}

fn strip_ansi(s: &str) -> String {
    let mut out = String::new();
    let mut chars = s.chars();
    while let Some(c) = chars.next() {
        if c == '\u{1b}' {
            for d in chars.by_ref() {
                if d.is_ascii_alphabetic() {
                    break;
                }
            }
        } else {
            out.push(c);
        }
    }
    out
}

/// Replay explicit files: report what the compiler does and run the generic
/// checks that need no generated graph (log empty on rejection, model tie).
fn replay_files(rep: &mut Report, drv: &mut Driver, v: &Value) {
    let files: Vec<(usize, String)> = v["files"]
        .as_array()
        .unwrap()
        .iter()
        .map(|p| {
            let m = MODS.iter().position(|x| *x == p[0].as_str().unwrap()).unwrap();
            (m, p[1].as_str().unwrap().to_string())
        })
        .collect();
    LOG.lock().unwrap().clear();
    let rt = runtime();
    let res = catch_unwind(AssertUnwindSafe(|| tree(&files).compile(&rt).map(|_| ())));
    let log = LOG.lock().unwrap().clone();
    println!("compile: {}", match &res { Err(_) => "PANIC".into(), Ok(Err(e)) => format!("rejected\n{}", strip_ansi(&format!("{e}"))), Ok(Ok(())) => "ok".into() });
    println!("log: {log:?}");
    if let Some(d) = take_dump() {
        println!("order: {:?}", d.order.as_ref().map(|o| o.iter().map(|i| d.nodes[*i].name.clone()).collect::<Vec<_>>()));
        check_model(rep, drv, &d, if matches!(res, Ok(Ok(()))) { Some(&log) } else { None }, v);
    }
    if let Some(l) = take_lir() {
        println!("lir items: {:?}", l.iter().map(|i| i.name.clone()).collect::<Vec<_>>());
        for i in l.iter().filter(|i| !i.consts.is_empty()) {
            println!("  {} reads {:?} x {:?}", i.name, i.consts, i.const_reads);
        }
        check_lir(rep, drv, &l, if matches!(res, Ok(Ok(()))) { Some(&log) } else { None }, res.is_err(), v);
    }
    rep.evaluations += 1;
}

fn main() {
    let args: Vec<String> = std::env::args().collect();
    if std::env::var("C14_SHOW_PANICS").is_err() {
        std::panic::set_hook(Box::new(|_| {}));
    }
    let mut rep = Report::default();
    match args.get(1).map(|s| s.as_str()) {
        Some("run") => {
            let seed: u64 = args.get(2).and_then(|s| s.parse().ok()).unwrap_or(1);
            let thorough = args.get(3).map(|s| s == "thorough").unwrap_or(false);
            // the class representatives first, then random graphs
            let graphs: u64 = boundary_count() + if thorough { 10_000 } else { 1_500 };
            let seed_s = seed.to_string();
            use rotov_harness::worker::run_batches;
            let crash = |base: u64| on_crash(seed, base);
            if thorough {
                // the extended table of function cycles (rings of up to four, every name order) first
                run_batches(
                    &[&seed_s, "ext"],
                    scc_family(true) as u64 * VARIANTS,
                    400,
                    std::time::Duration::from_secs(600),
                    &mut rep,
                    crash(EXT_BASE * VARIANTS),
                );
            }
            run_batches(&[&seed_s], graphs * VARIANTS, 400, std::time::Duration::from_secs(600), &mut rep, crash(0));
        }
        Some("worker") => {
            let seed: u64 = args[2].parse().unwrap();
            // `worker <seed> [ext] <from> <n>`: `ext` = indices counted from the extended table
            let (base, a) = if args[3] == "ext" { (EXT_BASE * VARIANTS, 4) } else { (0, 3) };
            let from: u64 = args[a].parse().unwrap();
            let n: u64 = args[a + 1].parse().unwrap();
            let mut drv = Driver::spawn().expect("lean driver");
            warm_up();
            for i in from..from + n {
                // (`START` carries the index relative to the stream: `run_batches` resumes from it)
                println!("START {i}");
                let idx = base + i;
                run_case(&mut rep, &mut drv, seed, idx);
                // a later case may kill the process: keep what has been found so far
                if (i - from) % 25 == 24 && i + 1 < from + n {
                    rep.emit();
                }
            }
        }
        Some("replay") => {
            let v: Value = serde_json::from_str(&args[2]).expect("replay json");
            let v = if v.get("case").is_some() { v["case"].clone() } else { v };
            let mut drv = Driver::spawn().expect("lean driver");
            warm_up();
            if let (Some(seed), Some(index)) = (v["seed"].as_u64(), v["index"].as_u64()) {
                let case = gen_case(seed, index);
                for (m, s) in &render(&case).files {
                    println!("--- {}.roto\n{s}", MODS[*m]);
                }
                println!("expect: {}", describe(&case.expect));
                run_case(&mut rep, &mut drv, seed, index);
            } else {
                replay_files(&mut rep, &mut drv, &v);
            }
            for x in &rep.impl_violations {
                println!("VIOLATION {} [{}]", x["what"], x["key"]);
            }
            for x in &rep.model_mismatches {
                println!("MISMATCH {}", x["what"]);
            }
        }
        _ => {
            eprintln!("usage: c14 run <seed> <quick|thorough> | c14 replay <json>");
            std::process::exit(64);
        }
    }
    rep.emit();
}
