//! C19 correspondence: the real test runner (`Package::run_tests`, `get_tests`,
//! `get_function`) and the real `roto` binary against the property's oracle and
//! the Lean model (`lean/Driver/C19.lean` over `Generated/TestRunner.lean`).
//!
//! usage: c19 run <seed> <quick|thorough>
//!        c19 replay <json>          ({"part":"api"|"cli"|"history","seed":…,"index":…})
//! env:   ROTO_BIN = the `roto` binary built from the repository under test
//!        (without it the CLI part is reported as a broken correspondence).

use roto::{Context, Ctx, FileSpec, FileTree, NoCtx, Runtime, SourceFile, Verdict, library};
use rotov_harness::driver::{Driver, hex};
use rotov_harness::worker::{Ended, run_batches};
use rotov_harness::{Prng, Report};
use serde_json::{Value, json};
use std::collections::BTreeMap;
use std::sync::Mutex;
use std::time::{Duration, Instant};

const DBG: bool = cfg!(debug_assertions);

static LOG: Mutex<Vec<u32>> = Mutex::new(Vec::new());

fn take_log() -> Vec<u32> {
    std::mem::take(&mut *LOG.lock().unwrap())
}

fn runtime() -> Runtime<NoCtx> {
    Runtime::from_lib(library! {
        fn emit(id: u32) {
            LOG.lock().unwrap().push(id);
        }
    })
    .expect("runtime with emit")
}

/// The context of the second runtime: `Package<Ctx<C>>::run_tests(ctx)` is a sibling entry
/// point of `Package<NoCtx>::run_tests()` and must aggregate in the same way.
#[derive(Clone, Context)]
struct HostCtx {
    pub k: i32,
}

fn runtime_ctx() -> Runtime<Ctx<HostCtx>> {
    runtime().with_context_type::<HostCtx>().expect("runtime with context")
}

/// Run `f` with stdout pointed at /dev/null (the runner prints a line per test).
fn quiet<T>(f: impl FnOnce() -> T) -> T {
    use std::io::Write;
    let _ = std::io::stdout().flush();
    /// puts stdout back also when `f` panics (a panicking runner is caught and reported per case)
    struct Restore(i32, i32);
    impl Drop for Restore {
        fn drop(&mut self) {
            use std::io::Write;
            let _ = std::io::stdout().flush();
            unsafe {
                libc::dup2(self.0, 1);
                libc::close(self.0);
                libc::close(self.1);
            }
        }
    }
    let _restore = unsafe {
        let saved = libc::dup(1);
        let null = libc::open(c"/dev/null".as_ptr(), libc::O_WRONLY);
        libc::dup2(null, 1);
        Restore(saved, null)
    };
    f()
}

// ---------------------------------------------------------------- generator

#[derive(Clone, Debug)]
struct TestDecl {
    name: String,
    id: u32,
    accept: bool,
    form: u64,
}

#[derive(Clone, Debug)]
struct FnDecl {
    name: String,
    id: u32,
    ret_i32: bool,
}

#[derive(Clone, Debug)]
enum Item {
    Test(TestDecl),
    Fn(FnDecl),
    Raw(String),
}

#[derive(Clone, Debug)]
struct ModGen {
    path: Vec<String>,
    items: Vec<Item>,
}

#[derive(Clone, Debug)]
struct Case {
    mods: Vec<ModGen>,
    /// why the script must be rejected by the compiler (None = must compile)
    must_fail: Option<&'static str>,
}

const NAMES: [&str; 12] = ["a", "b", "x", "main", "check", "t1", "Z", "_u", "ab", "a_b", "test_x", "b2"];
/// module names; `pkg` is the root's own name: a submodule may be called that too (a directory
/// `pkg/` with a `mod.roto`), and its items then have keys `pkg.pkg.…`, names `pkg.…`
const MODS: [&str; 8] = ["m", "util", "sub", "zz", "t_", "tests", "xpkg", "pkg"];

/// forms `>= GLUE_FORM` of a test body use the record `Gl_` declared by `GLUE_DECLS` in the same module
const GLUE_FORM: u64 = 100;
/// a record with a string field, and functions that copy and compare it: the function table of
/// the compiled package then also holds compiler-generated functions (`eq`, `clone`, `drop` glue)
const GLUE_DECLS: &str = "record Gl_ { n: u32, s: String }\n\nfn gl_mk(n: u32) -> Gl_ {\n    Gl_ { n: n, s: \"g\" }\n}\n\nfn gl_same(a: Gl_, b: Gl_) -> bool {\n    let c = a;\n    c == b\n}\n";

/// give every test block of the modules selected by `pick` a body that needs glue
fn with_glue(mut case: Case, pick: impl Fn(usize) -> bool) -> Case {
    for (i, m) in case.mods.iter_mut().enumerate() {
        if !pick(i) {
            continue;
        }
        for it in m.items.iter_mut() {
            if let Item::Test(t) = it {
                t.form = GLUE_FORM + t.form % 3;
            }
        }
        m.items.insert(0, Item::Raw(GLUE_DECLS.to_string()));
    }
    case
}

fn effect(cli: bool, id: u32) -> String {
    if cli { format!("print(\"<<T{id}>>\");") } else { format!("emit({id});") }
}

impl TestDecl {
    fn src(&self, cli: bool) -> String {
        let e = effect(cli, self.id);
        if self.form >= GLUE_FORM {
            // the body compares / copies / drops values of the module's record `Gl_` (a number and
            // a string): the compiler generates `eq`, `clone` and `drop` glue for the type, which
            // lives in the same function table as the test blocks
            let (n, cmp) = (self.id % 1000, if self.accept { "==" } else { "!=" });
            let body = match self.form % 3 {
                0 => format!("let x = Gl_ {{ n: {n}, s: \"k\" }};\n    let y = x;\n    if x {cmp} y {{ accept }} else {{ reject }}"),
                1 => format!("let x = gl_mk({n});\n    if gl_same(x, x) {cmp} true {{ accept }} else {{ reject }}"),
                _ => format!("let x = Some(Gl_ {{ n: {n}, s: \"q\" }});\n    if x {cmp} x {{ accept }} else {{ reject }}"),
            };
            return format!("test {} {{\n    {e}\n    {body}\n}}\n", self.name);
        }
        let body = match (self.form % 3, self.accept) {
            (0, true) => "accept".to_string(),
            (0, false) => "reject".to_string(),
            (1, true) => "if 1 == 1 { accept } else { reject }".to_string(),
            (1, false) => "if 1 != 1 { accept } else { reject }".to_string(),
            (_, true) => "if 1 != 1 { reject; }\n    accept".to_string(),
            (_, false) => "if 1 == 1 { reject; }\n    accept".to_string(),
        };
        format!("test {} {{\n    {e}\n    {body}\n}}\n", self.name)
    }
}

impl FnDecl {
    fn src(&self, cli: bool) -> String {
        let e = effect(cli, self.id);
        if self.ret_i32 {
            format!("fn {}() -> i32 {{\n    {e}\n    7\n}}\n", self.name)
        } else {
            format!("fn {}() {{\n    {e}\n}}\n", self.name)
        }
    }
}

impl ModGen {
    fn src(&self, cli: bool) -> String {
        let mut s = String::new();
        for it in &self.items {
            match it {
                Item::Test(t) => s.push_str(&t.src(cli)),
                Item::Fn(f) => s.push_str(&f.src(cli)),
                Item::Raw(r) => s.push_str(r),
            }
            s.push('\n');
        }
        s
    }
    fn tests(&self) -> Vec<&TestDecl> {
        self.items.iter().filter_map(|i| if let Item::Test(t) = i { Some(t) } else { None }).collect()
    }
    fn fns(&self) -> Vec<&FnDecl> {
        self.items.iter().filter_map(|i| if let Item::Fn(f) = i { Some(f) } else { None }).collect()
    }
    fn key(&self, last: &str) -> String {
        let mut s = String::from("pkg");
        for p in &self.path {
            s.push('.');
            s.push_str(p);
        }
        s.push('.');
        s.push_str(last);
        s
    }
}

fn gen_case(p: &mut Prng, allow_invalid: bool) -> Case {
    let mut next_id = 1u32;
    let mut mods = vec![];
    let nsub = p.below(4);
    let mut paths: Vec<Vec<String>> = vec![vec![]];
    let mut used = vec![];
    for _ in 0..nsub {
        let m = p.pick(&MODS).to_string();
        if used.contains(&m) {
            continue;
        }
        used.push(m.clone());
        paths.push(vec![m.clone()]);
        if p.chance(1, 3) {
            // a grandchild (may reuse a sibling's or the parent's name) …
            let g = p.pick(&MODS).to_string();
            paths.push(vec![m.clone(), g.clone()]);
            if p.chance(1, 2) {
                // … and a great-grandchild: a test block may live at any depth
                let h = p.pick(&MODS).to_string();
                paths.push(vec![m.clone(), g, h]);
            }
        }
    }
    let mut must_fail = None;
    let shape = p.below(10);
    for path in paths {
        let ntests = match shape {
            0 => 0,
            1 => p.below(2),
            2..=7 => p.below(5),
            _ => p.below(9),
        };
        let mut items = vec![];
        let mut tnames: Vec<String> = vec![];
        for _ in 0..ntests {
            let mut name = p.pick(&NAMES).to_string();
            if tnames.contains(&name) {
                name = format!("{name}{}", p.below(1000));
                if tnames.contains(&name) {
                    continue;
                }
            }
            tnames.push(name.clone());
            let accept = match shape {
                8 => true,
                9 => p.chance(1, 2),
                _ => p.chance(3, 4),
            };
            items.push(Item::Test(TestDecl { name, id: next_id, accept, form: p.below(3) }));
            next_id += 1;
        }
        // functions, preferably colliding with a test's name
        let nfns = p.below(4);
        let mut fnames: Vec<String> = vec![];
        for _ in 0..nfns {
            let name = if !tnames.is_empty() && p.chance(2, 3) {
                p.pick(&tnames).clone()
            } else {
                p.pick(&NAMES).to_string()
            };
            if fnames.contains(&name) {
                continue;
            }
            fnames.push(name.clone());
            items.push(Item::Fn(FnDecl { name, id: next_id, ret_i32: p.chance(1, 3) }));
            next_id += 1;
        }
        // shuffle the declaration order
        for i in (1..items.len()).rev() {
            let j = p.below(i as u64 + 1) as usize;
            items.swap(i, j);
        }
        if allow_invalid && must_fail.is_none() {
            let only_tests: Vec<&String> = tnames.iter().filter(|t| !fnames.contains(t)).collect();
            match p.below(14) {
                0 if !tnames.is_empty() => {
                    // a second test of an existing name in this module
                    let name = p.pick(&tnames).clone();
                    let at = p.below(items.len() as u64 + 1) as usize;
                    items.insert(at, Item::Test(TestDecl { name, id: 9000, accept: true, form: 0 }));
                    must_fail = Some("duplicate test");
                }
                1 if !only_tests.is_empty() => {
                    // a script function calling a test by its plain name
                    let name = (*p.pick(&only_tests)).clone();
                    items.push(Item::Raw(format!("fn caller_() {{\n    {name}();\n}}\n")));
                    must_fail = Some("script calls a test by name");
                }
                2 if !tnames.is_empty() => {
                    let name = p.pick(&tnames).clone();
                    items.push(Item::Raw(format!("fn caller_() {{\n    test#{name}();\n}}\n")));
                    must_fail = Some("script spells test#name");
                }
                _ => {}
            }
        }
        mods.push(ModGen { path, items });
    }
    let case = Case { mods, must_fail };
    // (drawn last, so that the rest of the case is the same as without this class)
    if p.chance(1, 3) {
        let mask = p.below(16) | 1 << p.below(4);
        return with_glue(case, |i| mask >> (i % 4) & 1 == 1);
    }
    case
}


// ------------------------------------------------------- boundary cases
//
// Class representatives that run FIRST in every stream (index < the table's
// length), whatever the seed: test blocks at every module depth (only in
// submodules, same name at every depth, module names that look like parts of a
// key), and failure counts around the widths a count could be truncated to
// (0, 1, 2, 255, 256, 257, 512; 65536 in the thorough/search run of the CLI).

fn bt(name: &str, id: u32, accept: bool) -> Item {
    Item::Test(TestDecl { name: name.to_string(), id, accept, form: id as u64 })
}

fn bf(name: &str, id: u32) -> Item {
    Item::Fn(FnDecl { name: name.to_string(), id, ret_i32: false })
}

fn bm(path: &[&str], items: Vec<Item>) -> ModGen {
    ModGen { path: path.iter().map(|s| s.to_string()).collect(), items }
}

/// `reject` rejecting and `accept` accepting test blocks, dealt round-robin over `paths`
/// (declared in numeric order, which is not the sorted order of their names)
fn counted(paths: &[&[&str]], reject: u32, accept: u32) -> Case {
    let mut mods: Vec<ModGen> = paths.iter().map(|p| bm(p, vec![])).collect();
    let n = mods.len();
    let (mut left_r, mut left_a) = (reject, accept);
    for i in 0..reject + accept {
        // the accepting ones are spread between the rejecting ones
        let acc = if left_a > 0 && (left_r == 0 || i % 2 == 1) {
            left_a -= 1;
            true
        } else {
            left_r -= 1;
            false
        };
        mods[i as usize % n].items.push(Item::Test(TestDecl { name: format!("t{i}"), id: i + 1, accept: acc, form: 0 }));
    }
    Case { mods, must_fail: None }
}

const DEEP: [&[&str]; 4] = [&[], &["m"], &["m", "util"], &["m", "util", "sub"]];

fn boundary_api(k: u64) -> Option<Case> {
    let c = |mods| Some(Case { mods, must_fail: None });
    match k {
        // tests only in submodules, one per depth 1..3, the deepest one rejects
        0 => c(vec![
            bm(&[], vec![bf("a", 1)]),
            bm(&["m"], vec![bt("a", 2, true)]),
            bm(&["m", "util"], vec![bt("a", 3, true)]),
            bm(&["m", "util", "sub"], vec![bt("b", 4, false)]),
        ]),
        // the same, every block accepts (the run must succeed)
        1 => c(vec![
            bm(&[], vec![bf("a", 1)]),
            bm(&["m"], vec![bt("a", 2, true)]),
            bm(&["m", "util"], vec![bt("a", 3, true)]),
            bm(&["m", "util", "sub"], vec![bt("b", 4, true)]),
        ]),
        // one name at every depth (and a function of that name); only depth 2 rejects
        2 => c(vec![
            bm(&[], vec![bt("t1", 1, true), bf("t1", 2)]),
            bm(&["util"], vec![bf("t1", 3), bt("t1", 4, true)]),
            bm(&["util", "sub"], vec![bt("t1", 5, false)]),
            bm(&["util", "sub", "zz"], vec![bt("t1", 6, true), bf("t1", 7)]),
        ]),
        // accepting tests in the root, the only rejecting one in a child
        3 => c(vec![bm(&[], vec![bt("a", 1, true), bt("b", 2, true)]), bm(&["sub"], vec![bt("a", 3, false)])]),
        // module and item names that look like pieces of a key
        4 => c(vec![
            bm(&[], vec![bf("test_x", 1), bt("test_x", 2, true)]),
            bm(&["tests"], vec![bt("tests", 3, true), bf("tests_", 4)]),
            bm(&["xpkg"], vec![bt("pkg_", 5, false), bf("test_x", 6)]),
            bm(&["xpkg", "tests"], vec![bt("x", 7, true), bt("xpkg", 8, false)]),
        ]),
        // siblings, the rejecting block in the module that sorts last / first
        5 => c(vec![bm(&[], vec![]), bm(&["m"], vec![bt("a", 1, true)]), bm(&["util"], vec![bt("a", 2, true)]), bm(&["zz"], vec![bt("a", 3, false)])]),
        6 => c(vec![bm(&[], vec![bt("z", 1, true)]), bm(&["m"], vec![bt("a", 2, false)]), bm(&["zz"], vec![bt("a", 3, true)])]),
        // failure counts
        7 => Some(counted(&[&[]], 0, 3)),
        8 => Some(counted(&[&[]], 1, 0)),
        9 => Some(counted(&[&[]], 2, 0)),
        10 => Some(counted(&[&[]], 255, 0)),
        11 => Some(counted(&[&[]], 256, 0)),
        12 => Some(counted(&[&[]], 257, 0)),
        13 => Some(counted(&[&[]], 512, 0)),
        14 => Some(counted(&[&[]], 256, 5)),
        15 => Some(counted(&DEEP, 256, 0)),
        16 => Some(counted(&DEEP, 0, 40)),
        // a submodule named like the root (`pkg`): its items have the keys `pkg.pkg.…` and the
        // names `pkg.…`, which look like the qualified spelling of the root's items.
        // one block name in the root (accepts) and in `pkg` (rejects); `entry` only in `pkg`
        17 => c(vec![
            bm(&[], vec![bt("check", 1, true), bf("check", 2)]),
            bm(&["pkg"], vec![bt("check", 3, false), bf("entry", 4)]),
        ]),
        // the other way round, and `pkg` inside `pkg`
        18 => c(vec![
            bm(&[], vec![bt("check", 1, false)]),
            bm(&["pkg"], vec![bt("check", 2, true), bf("start", 5)]),
            bm(&["pkg", "pkg"], vec![bt("check", 3, true), bf("start", 4)]),
        ]),
        // a block that exists only in `pkg` (nothing of that name in the root)
        19 => c(vec![bm(&[], vec![bf("helper", 1)]), bm(&["pkg"], vec![bt("only_here", 2, false)])]),
        // `pkg` below another module and a module below `pkg` that mirrors a root-level one
        20 => c(vec![
            bm(&[], vec![bt("a", 1, true)]),
            bm(&["m"], vec![bt("a", 2, true)]),
            bm(&["m", "pkg"], vec![bt("a", 3, false)]),
            bm(&["pkg"], vec![bf("a", 4), bt("b", 5, true)]),
            bm(&["pkg", "m"], vec![bt("a", 6, true), bf("go", 7)]),
        ]),
        // names that differ only in the case of their letters, or in the leading zeros of a
        // number: equal under a case-folding / "natural" sort key, so only the full key orders
        // them (and a map keyed by such a key would hold one of them only)
        21 => c(case_only_names()),
        // compiler-generated functions in the table: every block's body needs `eq`/`clone`/`drop`
        // glue of a record with a string (root only; every module of a deep package; only the
        // submodules, with a function named like a block)
        22 => Some(with_glue(Case { mods: vec![bm(&[], vec![bt("a", 100, true), bt("b", 101, false), bt("c", 102, true), bf("a", 4)])], must_fail: None }, |_| true)),
        23 => Some(with_glue(boundary_api(2).unwrap(), |_| true)),
        24 => Some(with_glue(boundary_api(0).unwrap(), |i| i > 0)),
        25 => Some(with_glue(counted(&DEEP, 3, 9), |i| i % 2 == 1)),
        _ => None,
    }
}

fn case_only_names() -> Vec<ModGen> {
    vec![
        bm(&[], vec![bt("roundtrip", 1, true), bt("RoundTrip", 2, true), bt("ROUNDTRIP", 3, true), bt("Roundtrip", 4, true), bt("roundTrip", 5, true), bt("other", 6, true), bf("Other", 11)]),
        bm(&["m"], vec![bt("ab", 7, true), bt("aB", 8, true), bt("Ab", 9, false), bt("AB", 10, true)]),
        // … and names that differ only in how a number is written (equal under a "natural" key)
        // … non-ASCII names (the order is that of the UTF-8 bytes; case pairs outside ASCII)
        bm(&["util"], vec![bt("é", 19, true), bt("É", 20, true), bt("e", 21, true), bt("ǆx", 22, true), bt("ǅx", 23, true), bt("Ǆx", 24, true), bt("z", 25, true)]),
        bm(&["zz"], vec![bt("t_1", 12, true), bt("t_01", 13, false), bt("t_001", 14, true), bt("case7", 15, true), bt("case07", 16, true), bt("t_10", 17, true), bt("t_2", 18, true)]),
    ]
}

const N_API_BOUNDARY: u64 = 26;

fn api_case_for(seed: u64, idx: u64) -> Case {
    match boundary_api(idx) {
        Some(c) => c,
        None => gen_case(&mut Prng::for_case(seed, idx), true),
    }
}

fn file_tree(case: &Case) -> FileTree {
    fn sf(name: &str, module: &str, contents: String) -> SourceFile {
        SourceFile {
            name: name.to_string(),
            module_name: module.to_string(),
            contents,
            location_offset: 0,
            children: Vec::new(),
        }
    }
    // the modules below `path`, recursively (a module with children is a Directory)
    fn spec(case: &Case, m: &ModGen) -> FileSpec {
        let kids: Vec<FileSpec> = case
            .mods
            .iter()
            .filter(|g| g.path.len() == m.path.len() + 1 && g.path[..m.path.len()] == m.path[..])
            .map(|g| spec(case, g))
            .collect();
        let (fname, module) = match m.path.last() {
            None => ("pkg.roto".to_string(), "pkg".to_string()),
            Some(last) => (disk_path(case, m).trim_start_matches("script/").to_string(), last.clone()),
        };
        let f = sf(&fname, &module, m.src(false));
        if kids.is_empty() && !m.path.is_empty() { FileSpec::File(f) } else { FileSpec::Directory(f, kids) }
    }
    let root = case.mods.iter().find(|m| m.path.is_empty()).unwrap();
    FileTree::file_spec(spec(case, root))
}

/// where the module lives in a package directory on disk (`roto <cmd> script/`)
fn disk_path(case: &Case, m: &ModGen) -> String {
    if m.path.is_empty() {
        return "script/pkg.roto".to_string();
    }
    let has_children = case.mods.iter().any(|g| g.path.len() == m.path.len() + 1 && g.path[..m.path.len()] == m.path[..]);
    // a module called `pkg` cannot be a file `pkg.roto`: file discovery reserves that file name (and
    // `mod.roto`) at every level of the package directory — it is a directory `pkg/` with a `mod.roto`
    if has_children || m.path.last().is_some_and(|l| l == "pkg" || l == "mod") { format!("script/{}/mod.roto", m.path.join("/")) } else { format!("script/{}.roto", m.path.join("/")) }
}

fn case_json(case: &Case, cli: bool) -> Value {
    let files: BTreeMap<String, String> = case
        .mods
        .iter()
        .map(|m| (if m.path.is_empty() { "pkg".to_string() } else { m.path.join("/") }, abbreviate(&m.src(cli))))
        .collect();
    json!({"files": files, "must_fail": case.must_fail})
}

/// `<hexkey>:<s><v>` entries of the table the generator expects.
fn entries(case: &Case) -> Vec<String> {
    let mut out = vec![];
    for m in &case.mods {
        for t in m.tests() {
            out.push(format!("{}:t{}", hex(&m.key(&format!("test#{}", t.name))), if t.accept { 'A' } else { 'R' }));
        }
        for f in m.fns() {
            out.push(format!("{}:{}A", hex(&m.key(&f.name)), if f.ret_i32 { 'o' } else { 'e' }));
        }
    }
    out
}

fn unhex(s: &str) -> String {
    if s == "-" {
        return String::new();
    }
    let b: Vec<u8> = (0..s.len() / 2).map(|i| u8::from_str_radix(&s[2 * i..2 * i + 2], 16).unwrap_or(b'?')).collect();
    String::from_utf8_lossy(&b).to_string()
}


// ------------------------------------------------------------- the model
//
// The Lean driver speaks for the tree's regenerated definitions.  When the
// extraction failed (search mode) it cannot be built: the implementation is
// then compared with the property's oracle only, and the missing model is
// reported once as a broken correspondence — never as a violation.

struct Model {
    drv: Option<Driver>,
    complained: bool,
}

impl Model {
    fn spawn() -> Model {
        let off = std::env::var("C19_MODEL").map(|v| v == "off").unwrap_or(false);
        let mut drv = if off { None } else { Driver::spawn().ok() };
        // a driver that does not answer the protocol is as good as none
        if let Some(d) = drv.as_mut() {
            let ok = std::panic::catch_unwind(std::panic::AssertUnwindSafe(|| d.ask("c19 keys"))).map(|a| a.starts_with("ok")).unwrap_or(false);
            if !ok {
                drv = None;
            }
        }
        Model { drv, complained: false }
    }
    fn ask(&mut self, rep: &mut Report, req: &str) -> Option<String> {
        match self.drv.as_mut() {
            Some(d) => Some(d.ask(req)),
            None => {
                if !self.complained {
                    self.complained = true;
                    rep.mismatch("the Lean driver of the current tree is not available: implementation compared with the oracle only", json!({}));
                }
                None
            }
        }
    }
}

/// long sources are abbreviated in witnesses (the case replays from seed and index)
fn abbreviate(s: &str) -> String {
    if s.len() <= 1500 {
        s.to_string()
    } else {
        let cut = (0..=1200).rev().find(|i| s.is_char_boundary(*i)).unwrap_or(0);
        format!("{}… [{} bytes in all]", &s[..cut], s.len())
    }
}

// ------------------------------------------------------------------ API part

fn existing_keys(pkg: &mut roto::Package<NoCtx>) -> Vec<String> {
    match pkg.get_function::<fn()>("$no$such$") {
        Ok(_) => vec![],
        Err(e) => e
            .to_string()
            .lines()
            .filter_map(|l| l.strip_prefix(" - ").map(|s| s.to_string()))
            .collect(),
    }
}

fn api_case(rep: &mut Report, drv: &mut Model, seed: u64, idx: u64) {
    let case = api_case_for(seed, idx);
    let cj = json!({"part": "api", "seed": seed, "index": idx, "boundary": idx < N_API_BOUNDARY, "case": case_json(&case, false)});
    rep.evaluations += 1;
    let rt = runtime();
    let all_tests: Vec<(String, &TestDecl)> = case
        .mods
        .iter()
        .flat_map(|m| m.tests().into_iter().map(move |t| (m.key(&format!("test#{}", t.name)), t)))
        .collect();
    let nmods = case.mods.len();
    rep.hist("modules", nmods.to_string());
    rep.hist("tests", format!("{}", all_tests.len().min(12)));
    let collisions = case
        .mods
        .iter()
        .map(|m| m.fns().iter().filter(|f| m.tests().iter().any(|t| t.name == f.name)).count())
        .sum::<usize>();
    rep.hist("fn/test name collisions", collisions.min(4).to_string());
    let compiled = quiet(|| std::panic::catch_unwind(std::panic::AssertUnwindSafe(|| file_tree(&case).compile(&rt).map_err(|e| e.to_string()))));
    let compiled = match compiled {
        Ok(c) => c,
        Err(_) => {
            rep.violation("the compiler panicked on a generated test script", "compile panic", cj);
            return;
        }
    };
    let mut pkg = match (compiled, case.must_fail) {
        (Err(_), Some(why)) => {
            rep.class(format!("rejected|{why}"));
            rep.hist("outcome", format!("compile error ({why})"));
            return;
        }
        (Ok(_), Some(why)) => {
            let key = match why {
                "duplicate test" => "two tests of one name accepted",
                _ => "test block reachable from script code",
            };
            rep.violation(&format!("script must be rejected ({why}) but compiled"), key, cj);
            return;
        }
        (Err(e), None) => {
            rep.mismatch("generated script does not compile", json!({"case": cj, "error": e}));
            return;
        }
        (Ok(pkg), None) => pkg,
    };
    // ---- the real function table, the model's prediction on it
    let keys = existing_keys(&mut pkg);
    // entries that are neither a block nor a script function: compiler-generated glue.  The
    // theorems (`discovery_exact`, `run_package_truthful`) allow any such entries whose keys hold
    // no `#`; that assumption is checked on every real table.
    let declared: Vec<String> = case.mods.iter().flat_map(|m| m.fns().into_iter().map(move |f| m.key(&f.name))).collect();
    let glue: Vec<&String> = keys.iter().filter(|k| !k.contains("test#") && !declared.contains(k) && !k.ends_with(".gl_mk") && !k.ends_with(".gl_same") && !k.ends_with(".caller_")).collect();
    rep.hist("glue entries in the function table", match glue.len() { 0 => "0", 1..=3 => "1-3", 4..=9 => "4-9", _ => "10+" });
    if let Some(g) = glue.iter().find(|k| k.contains('#')) {
        rep.mismatch(
            "a compiler-generated entry of the function table has a `#` in its key (assumption of discovery_exact)",
            json!({"case": cj, "key": g}),
        );
    }
    if !glue.is_empty() {
        rep.class(format!("glue|{}|{}", nmods, glue.len().min(12)));
        if !rep.notes.iter().any(|n| n.starts_with("glue keys")) {
            rep.notes.push(format!("glue keys, e.g. (api case {idx}): {}", glue.iter().take(6).map(|s| s.as_str()).collect::<Vec<_>>().join(" ")));
        }
    }
    let testlike: Vec<&String> = keys.iter().filter(|k| k.contains("test#")).collect();
    let mut want: Vec<String> = all_tests.iter().map(|(k, _)| k.clone()).collect();
    want.sort();
    let mut have: Vec<String> = testlike.iter().map(|s| (*s).clone()).collect();
    have.sort();
    if want != have {
        rep.violation(
            "the function table does not hold exactly one test#-key per test block",
            "function table misses or invents a test block",
            json!({"case": cj, "expected": want, "found": have}),
        );
    }
    let req = format!("c19 keys {}", keys.iter().map(|k| hex(k)).collect::<Vec<_>>().join(" "));
    let ans = drv.ask(rep, req.trim_end());
    let predicted: Option<Vec<String>> = ans.as_ref().map(|a| a.split(' ').skip(1).map(unhex).collect());
    if let Some(a) = &ans {
        if !a.starts_with("ok") {
            rep.mismatch("Lean keys request failed", json!({"request": abbreviate(&req), "answer": abbreviate(a)}));
        }
    }
    let id_of: BTreeMap<&str, u32> = all_tests.iter().map(|(k, t)| (k.as_str(), t.id)).collect();
    let predicted_ids: Option<Vec<u32>> =
        predicted.as_ref().map(|p| p.iter().filter_map(|k| id_of.get(k.as_str()).copied()).collect());

    // ---- get_tests
    let names: Vec<String> = pkg.get_tests().map(|t| t.name().to_string()).collect();
    let lean_tests = drv.ask(rep, format!("c19 tests {} {}", DBG as u8, entries(&case).join(" ")).trim_end());
    if names.len() != all_tests.len() {
        rep.violation(
            "get_tests does not return one case per test block",
            "get_tests count",
            json!({"case": cj, "names": names}),
        );
    }
    if let Some(lean_tests) = &lean_tests {
        let lean_names: Vec<String> =
            lean_tests.split(' ').skip(1).map(|x| unhex(x.split(':').next().unwrap_or(""))).collect();
        if !lean_tests.starts_with("ok") || lean_names != names {
            rep.mismatch(
                "get_tests names differ from the model",
                json!({"case": cj, "real": names, "lean": abbreviate(lean_tests)}),
            );
        }
    }

    // ---- run_tests, twice, and on a second compilation
    take_log();
    let r1 = quiet(|| pkg.run_tests());
    let l1 = take_log();
    let r2 = quiet(|| pkg.run_tests());
    let l2 = take_log();
    let (r3, l3) = match quiet(|| file_tree(&case).compile(&rt)) {
        Ok(mut pkg2) => {
            let r = quiet(|| pkg2.run_tests());
            (r, take_log())
        }
        Err(_) => (Err(()), vec![]),
    };
    // the sibling entry point: the same package compiled for a runtime with a context
    let (r4, l4) = if all_tests.len() <= 64 {
        let rtc = runtime_ctx();
        match quiet(|| file_tree(&case).compile(&rtc)) {
            Ok(mut pkgc) => {
                take_log();
                let r = quiet(|| pkgc.run_tests(HostCtx { k: 7 }));
                (Some(r), take_log())
            }
            Err(e) => {
                rep.mismatch("generated script does not compile for a runtime with a context", json!({"case": cj, "error": e.to_string()}));
                (None, vec![])
            }
        }
    } else {
        (None, vec![])
    };
    let all_accept = all_tests.iter().all(|(_, t)| t.accept);
    // discovery per module: how many blocks each module declares and how many of them ran
    let per_module: BTreeMap<String, (usize, usize)> = case
        .mods
        .iter()
        .map(|m| {
            let ts = m.tests();
            (m.key(""), (ts.len(), ts.iter().filter(|t| l1.contains(&t.id)).count()))
        })
        .collect();
    let witness = json!({"case": cj, "result": format!("{r1:?}"), "log": l1,
        "rejecting_blocks": all_tests.iter().filter(|(_, t)| !t.accept).count(),
        "per_module [declared, ran]": per_module,
        "outcomes": all_tests.iter().take(40).map(|(k, t)| json!([k, t.id, if t.accept {"accept"} else {"reject"}])).collect::<Vec<_>>()});
    match (r1.is_ok(), all_accept) {
        (true, false) => rep.violation("run_tests returned Ok although a test rejected", "run_tests ok despite reject", witness.clone()),
        (false, true) => rep.violation("run_tests returned Err although every test accepted", "run_tests err without reject", witness.clone()),
        _ => {}
    }
    let mut reported = 0;
    for (k, t) in &all_tests {
        let n = l1.iter().filter(|x| **x == t.id).count();
        if n != 1 && reported < 3 {
            reported += 1;
            if n == 0 {
                rep.violation(&format!("test {k} did not run"), "test did not run", witness.clone());
            } else {
                rep.violation(&format!("test {k} ran {n} times in one run_tests"), "test ran twice", witness.clone());
            }
        }
    }
    for (module, (declared, ran)) in &per_module {
        if ran < declared {
            rep.class(format!("undiscovered|depth {}", module.matches('.').count() - 1));
        }
    }
    if l1.iter().any(|id| !all_tests.iter().any(|(_, t)| t.id == *id)) {
        rep.violation("a non-test function body ran during run_tests", "function ran as test", witness.clone());
    }
    // ---- the host's own runner: `Package::get_tests()` + `TestCase::run` (public API; the
    // cases one by one).  The i-th handle must carry the name of the i-th block in sorted key
    // order, run exactly that block's body, and report exactly that block's verdict.
    if all_tests.len() <= 64 {
        let mut sorted: Vec<&(String, &TestDecl)> = all_tests.iter().collect();
        sorted.sort_by(|a, b| a.0.cmp(&b.0));
        take_log();
        let cases: Vec<_> = pkg.get_tests().collect();
        let mut per_case = vec![];
        for tc in &cases {
            let r = quiet(|| tc.run(&mut NoCtx));
            per_case.push((tc.name().to_string(), r.is_ok(), take_log()));
        }
        rep.hist("entry points (host runner: get_tests + TestCase::run)", cases.len().min(12).to_string());
        for (i, (name, ok, log)) in per_case.iter().enumerate() {
            let Some((key, decl)) = sorted.get(i) else { break };
            let want_name = key.replace("test#", "");
            if *name != want_name || *ok != decl.accept || *log != vec![decl.id] {
                rep.violation(
                    &format!("the {i}-th test case of get_tests() (name `{name}`) is not the block {key}: it must be called `{want_name}`, run the body {} once and return {}; it ran {log:?} and returned {}", decl.id, if decl.accept { "Ok" } else { "Err" }, if *ok { "Ok" } else { "Err" }),
                    "test case handle is not its block",
                    json!({"case": cj, "index": i, "key": key, "handle": [name, ok, log]}),
                );
                break;
            }
        }
    }
    if l1 != l2 || r1 != r2 {
        rep.violation(
            "two run_tests calls on one package differ",
            "test order differs between runs",
            json!({"case": cj, "first": l1, "second": l2}),
        );
    }
    if let Some(r4) = r4 {
        rep.hist("entry points", "NoCtx and Ctx");
        match (r4.is_ok(), all_accept) {
            (true, false) => rep.violation(
                "Package<Ctx<C>>::run_tests returned Ok although a test rejected",
                "run_tests (context runtime) ok despite reject",
                json!({"witness": witness, "context_result": format!("{r4:?}"), "context_log": l4}),
            ),
            (false, true) => rep.violation(
                "Package<Ctx<C>>::run_tests returned Err although every test accepted",
                "run_tests (context runtime) err without reject",
                json!({"witness": witness, "context_result": format!("{r4:?}"), "context_log": l4}),
            ),
            _ => {}
        }
        let mut sorted_ids: Vec<u32> = l4.clone();
        sorted_ids.sort();
        let mut want_ids: Vec<u32> = all_tests.iter().map(|(_, t)| t.id).collect();
        want_ids.sort();
        if sorted_ids != want_ids {
            rep.violation(
                "Package<Ctx<C>>::run_tests did not run every test block exactly once",
                "run_tests (context runtime) blocks not run exactly once",
                json!({"witness": witness, "context_log": l4}),
            );
        } else if l4 != l1 && l1.len() == all_tests.len() {
            rep.violation(
                "the run order differs between the runtime without and with a context (order must depend on the names only)",
                "test order differs between runtimes",
                json!({"witness": witness, "context_log": l4}),
            );
        }
    }
    if l1 != l3 || r1 != r3 {
        rep.violation(
            "run_tests on two compilations of the same script differ (order must depend on the names only)",
            "test order differs between compilations",
            json!({"case": cj, "first": l1, "second": l3}),
        );
    }
    if let Some(predicted_ids) = &predicted_ids {
        if &l1 != predicted_ids {
            rep.mismatch(
                "execution order differs from the model's sorted order of the real table's keys",
                json!({"case": cj, "real": l1, "model": predicted_ids}),
            );
        }
    }
    if let Some(lean_run) = drv.ask(rep, format!("c19 run {} {}", DBG as u8, entries(&case).join(" ")).trim_end()) {
        let mut w = lean_run.split(' ');
        let lean_res = w.next().unwrap_or("");
        let lean_ids: Vec<u32> = w.filter_map(|k| id_of.get(unhex(k).as_str()).copied()).collect();
        if lean_res != if r1.is_ok() { "Ok" } else { "Err" } || lean_ids != l1 {
            rep.mismatch(
                "run_tests differs from the generated model's run_tests",
                json!({"case": cj, "real": [format!("{r1:?}"), format!("{l1:?}")], "lean": abbreviate(&lean_run)}),
            );
        }
    }

    // ---- get_function on every function (most collide with a test) and on test-only names
    for m in &case.mods {
        let prefix = if m.path.is_empty() { String::new() } else { format!("{}.", m.path.join(".")) };
        for f in m.fns() {
            let name = format!("{prefix}{}", f.name);
            take_log();
            let ok = if f.ret_i32 {
                pkg.get_function::<fn() -> i32>(&name).map(|g| { g.call(); }).is_ok()
            } else {
                pkg.get_function::<fn()>(&name).map(|g| g.call()).is_ok()
            };
            let l = take_log();
            if !ok || l != vec![f.id] {
                rep.violation(
                    &format!("get_function(\"{name}\") is not the function of that name"),
                    "get_function on a colliding name is not the function",
                    json!({"case": cj, "name": name, "retrieved": ok, "log": l, "expected_id": f.id}),
                );
            }
            if !f.ret_i32 && pkg.get_function::<fn() -> Verdict<(), ()>>(&name).is_ok() {
                rep.violation(
                    &format!("get_function::<fn() -> Verdict>(\"{name}\") succeeded: the test shadows the function"),
                    "test shadows function",
                    json!({"case": cj, "name": name}),
                );
            }
            let lean = drv.ask(rep, format!("c19 getfn {} {} {}", if f.ret_i32 { 'o' } else { 'e' }, hex(&name), entries(&case).join(" ")).trim_end());
            if lean.as_ref().is_some_and(|l| !l.starts_with("ok ")) {
                rep.mismatch("model get_function differs", json!({"case": cj, "name": name, "lean": lean}));
            }
            if m.tests().iter().any(|t| t.name == f.name) {
                rep.class(format!("collision|{}|{}", f.name, m.path.len()));
            }
        }
        for t in m.tests() {
            if m.fns().iter().any(|f| f.name == t.name) {
                continue;
            }
            let name = format!("{prefix}{}", t.name);
            if pkg.get_function::<fn() -> Verdict<(), ()>>(&name).is_ok() || pkg.get_function::<fn()>(&name).is_ok() {
                rep.violation(
                    &format!("get_function(\"{name}\") reaches the test block of that name"),
                    "test reachable under a function's name",
                    json!({"case": cj, "name": name}),
                );
            }
            let lean = drv.ask(rep, format!("c19 getfn t {} {}", hex(&name), entries(&case).join(" ")).trim_end());
            if lean.as_ref().is_some_and(|l| l != "missing") {
                rep.mismatch("model get_function differs", json!({"case": cj, "name": name, "lean": lean}));
            }
        }
    }
    // ---- other spellings of the same names: the qualified form `pkg.<path>.<f>` and the name with
    // its first segment dropped.  What they resolve to is decided by the table alone (names are
    // paths from the root: the key is `pkg.` + name): the function of a submodule called `pkg` /
    // of the root, or nothing.  Compared with that and with the generated model.
    let fn_by_key: BTreeMap<String, &FnDecl> =
        case.mods.iter().flat_map(|m| m.fns().into_iter().map(move |f| (m.key(&f.name), f))).collect();
    let mut probes: Vec<String> = vec![];
    for k in fn_by_key.keys() {
        probes.push(k.clone()); // `pkg.<path>.<f>` as a NAME
        if let Some((_, rest)) = k["pkg.".len()..].split_once('.') {
            probes.push(rest.to_string());
        }
    }
    probes.sort();
    probes.dedup();
    for name in probes.iter().take(12) {
        let expect = fn_by_key.get(&format!("pkg.{name}"));
        take_log();
        let real = match pkg.get_function::<fn()>(name) {
            Ok(g) => {
                g.call();
                let l = take_log();
                match l.as_slice() {
                    [id] => fn_by_key.iter().find(|(_, f)| f.id == *id).map(|(k, _)| format!("ok {}", hex(k))).unwrap_or(format!("ok ?{id}")),
                    _ => format!("ok ?{l:?}"),
                }
            }
            Err(e) => if e.to_string().contains("does not exist") { "missing".to_string() } else { "mistyped".to_string() },
        };
        let want = match expect {
            None => "missing".to_string(),
            Some(f) if f.ret_i32 => "mistyped".to_string(),
            Some(_) => format!("ok {}", hex(&format!("pkg.{name}"))),
        };
        rep.hist("get_function spelling", if expect.is_some() { "names a function" } else { "names nothing" });
        if real != want {
            rep.violation(
                &format!("get_function(\"{name}\") does not resolve the name as a path from the root of the package"),
                "get_function resolves a name to another module's function",
                json!({"case": cj, "name": name, "real": real.replace("ok ", "ok 0x"), "expected": want.replace("ok ", "ok 0x"),
                    "expected_key": format!("pkg.{name}")}),
            );
        }
        let lean = drv.ask(rep, format!("c19 getfn e {} {}", hex(name), entries(&case).join(" ")).trim_end());
        if lean.as_ref().is_some_and(|l| *l != real) {
            rep.mismatch("model get_function differs on a qualified / shortened name", json!({"case": cj, "name": name, "real": real, "lean": lean}));
        }
    }
    let sig: Vec<String> = all_tests.iter().map(|(k, t)| format!("{}{}", k, if t.accept { '+' } else { '-' })).collect();
    rep.class(format!("run|{}|{}", nmods, sig.join(",")));
    rep.hist("outcome", if r1.is_ok() { "run_tests Ok" } else { "run_tests Err" });
    if idx % 40 == 0 {
        rep.sample(json!({"case": cj, "result": format!("{r1:?}"), "log": l1, "names": names}));
    }
}

// ------------------------------------------------------------------ CLI part

const SITUATIONS: [&str; 13] = [
    "valid", "valid", "syntax error", "type error", "rejecting test", "no main", "main with parameters",
    "main with return type", "duplicate test", "missing file", "directory package", "type error in test", "no tests",
];

struct CliCase {
    situation: String,
    cmd: &'static str,
    function: Option<String>,
    case: Case,
    /// extra source appended to the root module
    root_extra: String,
    directory: bool,
    read_ok: bool,
    parse_ok: bool,
    type_ok: bool,
    /// entry function → `e` (good), `o` (mistyped); absent = missing
    entry_sig: Option<char>,
    entry_name: String,
}

fn gen_cli(p: &mut Prng) -> CliCase {
    let situation = *p.pick(&SITUATIONS);
    let cmd = *p.pick(&["check", "test", "run", "run", "test"]);
    let mut case = gen_case(p, false);
    let directory = situation == "directory package" || p.chance(1, 4);
    if !directory {
        case.mods.retain(|m| m.path.is_empty());
    }
    // the generator's `main` collisions are removed: the entry is added below
    for m in case.mods.iter_mut() {
        m.items.retain(|i| !matches!(i, Item::Fn(f) if f.name == "main"));
    }
    let mut root_extra = String::new();
    let (mut read_ok, mut parse_ok, mut type_ok) = (true, true, true);
    let mut entry_sig = Some('e');
    let mut entry_name = "main".to_string();
    let mut function = None;
    if p.chance(1, 5) {
        entry_name = p.pick(&["start", "go", "x9"]).to_string();
        function = Some(entry_name.clone());
    }
    // the entry may be named by a path: a function of a submodule, the root's entry spelled with
    // the root's own name in front (names nothing, unless a submodule is called `pkg` and has it),
    // or a path into a module that does not have it
    if directory && p.chance(1, 3) {
        let subs: Vec<String> = case
            .mods
            .iter()
            .filter(|m| !m.path.is_empty())
            .flat_map(|m| m.fns().into_iter().map(move |f| format!("{}.{}", m.path.join("."), f.name)))
            .collect();
        let first_sub = case.mods.iter().find(|m| !m.path.is_empty()).map(|m| m.path.join("."));
        function = Some(match (p.below(3), first_sub) {
            (0, _) if !subs.is_empty() => p.pick(&subs).clone(),
            (1, _) | (_, None) => format!("pkg.{entry_name}"),
            (_, Some(m)) => format!("{m}.{entry_name}"),
        });
    }
    let entry = format!("fn {entry_name}() {{\n    print(\"<<ENTRY>>\");\n}}\n");
    match situation {
        "syntax error" => {
            root_extra.push_str(&entry);
            root_extra.push_str(*p.pick::<&str>(&["fn broken( {\n}\n", "test {\n accept\n}\n", "fn f() { let = 3; }\n", "test a#b { accept }\n"]));
            parse_ok = false;
        }
        "type error" => {
            root_extra.push_str(&entry);
            root_extra.push_str(*p.pick::<&str>(&["fn bad() -> i32 {\n    \"s\"\n}\n", "fn bad() {\n    undefined_fn();\n}\n", "fn bad() -> bool {\n    1 + true\n}\n"]));
            type_ok = false;
        }
        "type error in test" => {
            root_extra.push_str(&entry);
            root_extra.push_str(*p.pick::<&str>(&["test bad_ {\n    7\n}\n", "test bad_ {\n    let x: i32 = \"s\";\n    accept\n}\n"]));
            type_ok = false;
        }
        "duplicate test" => {
            root_extra.push_str(&entry);
            root_extra.push_str("test dup_ {\n    accept\n}\ntest dup_ {\n    accept\n}\n");
            type_ok = false;
        }
        "rejecting test" => {
            root_extra.push_str(&entry);
            let root = case.mods.iter_mut().find(|m| m.path.is_empty()).unwrap();
            root.items.push(Item::Test(TestDecl { name: "rej_".into(), id: 7777, accept: false, form: p.below(3) }));
        }
        "no main" => entry_sig = None,
        "main with parameters" => {
            root_extra.push_str(&format!("fn {entry_name}(x: i32) {{\n    print(\"<<ENTRY>>\");\n}}\n"));
            entry_sig = Some('o');
        }
        "main with return type" => {
            root_extra.push_str(&format!("fn {entry_name}() -> i32 {{\n    print(\"<<ENTRY>>\");\n    3\n}}\n"));
            entry_sig = Some('o');
        }
        "missing file" => read_ok = false,
        "no tests" => {
            for m in case.mods.iter_mut() {
                m.items.retain(|i| !matches!(i, Item::Test(_)));
            }
            root_extra.push_str(&entry);
        }
        _ => root_extra.push_str(&entry),
    }
    if !parse_ok || !type_ok || !read_ok {
        // the model's world needs no table then
    }
    CliCase { situation: situation.to_string(), cmd, function, case, root_extra, directory, read_ok, parse_ok, type_ok, entry_sig, entry_name }
}

/// CLI boundary table: `roto test` on failure counts around the widths an exit status could be
/// truncated to, on packages whose test blocks live only below the root, and `check`/`run` on
/// scripts with rejecting blocks (which must not matter to them).  The last entry has 65536 blocks.
fn boundary_cli(k: u64) -> Option<CliCase> {
    let mkf = |situation: String, cmd: &'static str, case: Case, directory: bool, function: Option<&str>| {
        Some(CliCase {
            situation,
            cmd,
            function: function.map(|f| f.to_string()),
            case,
            root_extra: "fn main() {\n    print(\"<<ENTRY>>\");\n}\n".to_string(),
            directory,
            read_ok: true,
            parse_ok: true,
            type_ok: true,
            entry_sig: Some('e'),
            entry_name: "main".to_string(),
        })
    };
    let mk = |situation: String, cmd: &'static str, case: Case, directory: bool| mkf(situation, cmd, case, directory, None);
    const COUNTS: [u32; 7] = [0, 1, 2, 255, 256, 257, 512];
    if (k as usize) < COUNTS.len() {
        let n = COUNTS[k as usize];
        return mk(format!("{n} rejecting blocks"), "test", counted(&[&[]], n, if n == 0 { 2 } else { 0 }), false);
    }
    match k - COUNTS.len() as u64 {
        0 => mk("256 rejecting + 3 accepting blocks".into(), "test", counted(&[&[]], 256, 3), false),
        1 => mk("256 rejecting blocks over 4 module depths".into(), "test", counted(&DEEP, 256, 0), true),
        2 => mk("blocks only below the root, deepest rejects".into(), "test", boundary_api(0).unwrap(), true),
        3 => mk("blocks only below the root, all accept".into(), "test", boundary_api(1).unwrap(), true),
        4 => mk("one name at every depth, depth 2 rejects".into(), "test", boundary_api(2).unwrap(), true),
        5 => mk("key-like module names".into(), "test", boundary_api(4).unwrap(), true),
        6 => mk("rejecting block in the last sibling".into(), "test", boundary_api(5).unwrap(), true),
        7 => mk("256 rejecting blocks".into(), "check", counted(&[&[]], 256, 0), false),
        8 => mk("256 rejecting blocks".into(), "run", counted(&[&[]], 256, 0), false),
        9 => mk("blocks only below the root, deepest rejects".into(), "run", boundary_api(0).unwrap(), true),
        10 => mk("65536 rejecting blocks".into(), "test", counted(&[&[]], 65536, 0), false),
        // a submodule called `pkg` (keys `pkg.pkg.…`, names `pkg.…`): its blocks run, its functions
        // are the entry points `pkg.<f>`, and `pkg.<f>` is NOT the root's `<f>`
        11 => mk("submodule called pkg, its block rejects".into(), "test", boundary_api(17).unwrap(), true),
        12 => mk("submodule called pkg, the root's block rejects".into(), "test", boundary_api(18).unwrap(), true),
        13 => mk("a block only in the submodule called pkg".into(), "test", boundary_api(19).unwrap(), true),
        14 => mkf("entry pkg.main: main is in the root, not in the submodule called pkg".into(), "run", boundary_api(17).unwrap(), true, Some("pkg.main")),
        15 => mkf("entry pkg.entry in the submodule called pkg".into(), "run", boundary_api(17).unwrap(), true, Some("pkg.entry")),
        16 => mkf("entry pkg.pkg.start two levels down".into(), "run", boundary_api(18).unwrap(), true, Some("pkg.pkg.start")),
        17 => mkf("entry m.main: no such module".into(), "run", boundary_api(17).unwrap(), true, Some("m.main")),
        18 => mkf("entry pkg.m.go in a module below pkg".into(), "run", boundary_api(20).unwrap(), true, Some("pkg.m.go")),
        19 => mk("pkg below m, m below pkg".into(), "test", boundary_api(20).unwrap(), true),
        20 => mk("names that differ only in letter case".into(), "test", boundary_api(21).unwrap(), true),
        21 => mk("glue functions in the table, root only".into(), "test", boundary_api(22).unwrap(), false),
        22 => mk("glue functions in the table, every depth".into(), "test", boundary_api(23).unwrap(), true),
        23 => mk("glue functions in the table".into(), "run", boundary_api(24).unwrap(), true),
        _ => None,
    }
}

const N_CLI_BOUNDARY: u64 = 31;
/// the 65536-block case: skipped by the quick tier (it is index 17 in every tier)
const GIANT_IDX: u64 = 17;

fn cli_case_for(seed: u64, idx: u64) -> CliCase {
    match boundary_cli(idx) {
        Some(c) => c,
        None => gen_cli(&mut Prng::for_case(seed ^ 0xC11C11, idx)),
    }
}

fn run_bin(bin: &str, args: &[&str], cwd: &std::path::Path, timeout: Duration) -> Result<(Option<i32>, String), String> {
    use std::io::Read;
    use std::process::{Command, Stdio};
    let mut child = Command::new(bin)
        .args(args)
        .current_dir(cwd)
        .stdin(Stdio::null())
        .stdout(Stdio::piped())
        .stderr(Stdio::null())
        .spawn()
        .map_err(|e| format!("cannot start {bin}: {e}"))?;
    let mut out = child.stdout.take().unwrap();
    let t = std::thread::spawn(move || {
        let mut s = String::new();
        let _ = out.read_to_string(&mut s);
        s
    });
    let start = Instant::now();
    loop {
        match child.try_wait().map_err(|e| e.to_string())? {
            Some(st) => {
                let s = t.join().unwrap_or_default();
                return Ok((st.code(), s));
            }
            None => {
                if start.elapsed() > timeout {
                    let _ = child.kill();
                    let _ = child.wait();
                    return Err("timeout".into());
                }
                std::thread::sleep(Duration::from_millis(2));
            }
        }
    }
}

fn cli_case(rep: &mut Report, drv: &mut Model, bin: &str, scratch: &std::path::Path, seed: u64, idx: u64) {
    let c = cli_case_for(seed, idx);
    rep.evaluations += 1;
    let dir = scratch.join(format!("case{idx}"));
    let _ = std::fs::remove_dir_all(&dir);
    std::fs::create_dir_all(&dir).unwrap();
    // write the script
    let target: String;
    let mut files: BTreeMap<String, String> = BTreeMap::new();
    if c.directory {
        target = "script".to_string();
        for m in &c.case.mods {
            let mut src = m.src(true);
            if m.path.is_empty() {
                src.push_str(&c.root_extra);
            }
            let rel = disk_path(&c.case, m);
            files.insert(rel, src);
        }
    } else {
        target = "script.roto".to_string();
        let root = c.case.mods.iter().find(|m| m.path.is_empty()).unwrap();
        files.insert(target.clone(), format!("{}{}", root.src(true), c.root_extra));
    }
    if c.read_ok {
        for (rel, src) in &files {
            let path = dir.join(rel);
            std::fs::create_dir_all(path.parent().unwrap()).unwrap();
            std::fs::write(&path, src).unwrap();
        }
    }
    let mut args: Vec<&str> = vec![c.cmd, &target];
    if c.cmd == "run" {
        if let Some(f) = &c.function {
            args.push(f);
        }
    }
    let cj = json!({"part": "cli", "seed": seed, "index": idx, "situation": c.situation, "argv": args,
        "files": if c.read_ok { json!(files.iter().map(|(k, v)| (k.clone(), abbreviate(v))).collect::<BTreeMap<_, _>>()) } else { json!({}) }});
    let nblocks: usize = c.case.mods.iter().map(|m| m.tests().len()).sum();
    let ran = run_bin(bin, &args, &dir, Duration::from_secs(if nblocks > 4096 { 1500 } else { 120 }));
    // the same invocation once more, in another process (another hash seed): which blocks run, in
    // which order, and the exit status may depend on the script only
    let again = if c.cmd == "test" && (2..=600).contains(&nblocks) && c.read_ok && c.parse_ok && c.type_ok {
        run_bin(bin, &args, &dir, Duration::from_secs(120)).ok()
    } else {
        None
    };
    let _ = std::fs::remove_dir_all(&dir);
    fn mark_seq(stdout: &str) -> Vec<u32> {
        stdout
            .split("<<T")
            .skip(1)
            .filter_map(|rest| rest.split_once(">>").and_then(|(d, _)| d.parse::<u32>().ok()))
            .collect()
    }
    if let (Ok((code1, out1)), Some((code2, out2))) = (&ran, &again) {
        rep.hist("cli test: invoked twice", "yes");
        if mark_seq(out1) != mark_seq(out2) || (*code1 == Some(0)) != (*code2 == Some(0)) {
            rep.violation(
                "two `roto test` invocations on the same script ran the blocks in different orders (or ended differently)",
                "cli test: two invocations differ",
                json!({"case": cj, "first": [format!("{code1:?}"), mark_seq(out1)], "second": [format!("{code2:?}"), mark_seq(out2)]}),
            );
        }
    }
    let (code, stdout) = match ran {
        Ok(x) => x,
        Err(e) => {
            rep.violation(&format!("roto {} did not finish: {e}", c.cmd), &format!("cli {} hangs or cannot start", c.cmd), cj);
            return;
        }
    };
    // ---- what the world looks like (model input) and the property's oracle
    let compile_error = !(c.read_ok && c.parse_ok && c.type_ok);
    let tests: Vec<(String, &TestDecl)> = c
        .case
        .mods
        .iter()
        .flat_map(|m| m.tests().into_iter().map(move |t| (m.key(&format!("test#{}", t.name)), t)))
        .collect();
    let any_reject = tests.iter().any(|(_, t)| !t.accept);
    let wanted_fn = if c.cmd == "run" { c.function.clone().unwrap_or("main".into()) } else { "main".into() };
    // what `run` looks up: the entry we planted, or a generated function of that name
    let mut ents = if compile_error { vec![] } else { entries(&c.case) };
    if !compile_error {
        if let Some(s) = c.entry_sig {
            ents.push(format!("{}:{}A", hex(&format!("pkg.{}", c.entry_name)), s));
        }
    }
    let found: Option<char> = ents.iter().find_map(|e| {
        let (k, sv) = e.split_once(':').unwrap();
        if unhex(k) == format!("pkg.{wanted_fn}") { sv.chars().next() } else { None }
    });
    let entry_bad = found != Some('e');
    let must_fail = match c.cmd {
        "check" => compile_error,
        "test" => compile_error || any_reject,
        _ => compile_error || entry_bad,
    };
    let why = if compile_error {
        "compile error"
    } else if c.cmd == "test" && any_reject {
        "rejecting test"
    } else if c.cmd == "run" && found.is_none() {
        "missing entry"
    } else if c.cmd == "run" && entry_bad {
        "mistyped entry"
    } else {
        "valid script"
    };
    rep.hist("cli situation", format!("{} / {}", c.cmd, c.situation));
    rep.class(format!("cli|{}|{}|{}|{}|entry depth {}", c.cmd, c.situation, why, c.directory, if c.cmd == "run" { wanted_fn.matches('.').count() } else { 0 }));
    let entry_runs = stdout.matches("<<ENTRY>>").count();
    let witness = json!({"case": cj, "exit": code, "stdout": stdout.chars().take(1500).collect::<String>(), "expected": if must_fail {"failure"} else {"success"}, "why": why,
        "blocks": tests.len(), "rejecting_blocks": tests.iter().filter(|(_, t)| !t.accept).count()});
    match code {
        None => rep.violation(&format!("roto {} was killed by a signal", c.cmd), &format!("cli {} killed by signal", c.cmd), witness.clone()),
        Some(0) if must_fail => rep.violation(
            &format!("roto {} exits 0 on {why}", c.cmd),
            &format!("cli {} exit 0 on {why}", c.cmd),
            witness.clone(),
        ),
        Some(n) if n != 0 && !must_fail => rep.violation(
            &format!("roto {} exits {n} on a {why}", c.cmd),
            &format!("cli {} fails on {why}", c.cmd),
            witness.clone(),
        ),
        _ => {}
    }
    // functions of the script other than the planted entry print a T-marker of their own: the one
    // that `run` was asked for (when it is one of them) runs once on success, every other never
    let all_fns: Vec<(String, &FnDecl)> =
        c.case.mods.iter().flat_map(|m| m.fns().into_iter().map(move |f| (m.key(&f.name), f))).collect();
    let fn_count = |id: u32| stdout.matches(&format!("<<T{id}>>")).count();
    let mut real_entries: Vec<String> = vec![];
    for (k, f) in &all_fns {
        let n = fn_count(f.id);
        let want = if c.cmd == "run" && !must_fail && *k == format!("pkg.{wanted_fn}") { 1 } else { 0 };
        for _ in 0..n {
            real_entries.push(k.clone());
        }
        if n != want {
            rep.violation(
                &format!("roto {} {wanted_fn}: the function {k} ran {n} times, expected {want}", c.cmd),
                &format!("cli {}: a function that is not the entry ran, or the entry ran {n} times", c.cmd),
                witness.clone(),
            );
        }
    }
    let want_entry = if c.cmd == "run" && !must_fail { 1 } else { 0 };
    // a generated function that happens to be the entry prints a T-marker, not ENTRY
    let entry_is_planted = found == Some('e') && wanted_fn == c.entry_name && c.entry_sig == Some('e');
    if entry_is_planted || want_entry == 0 {
        if entry_runs != want_entry {
            rep.violation(
                &format!("roto {}: the entry function ran {entry_runs} times, expected {want_entry}", c.cmd),
                &format!("cli {}: entry ran {entry_runs} times", c.cmd),
                witness.clone(),
            );
        }
    }
    // test bodies: under `test` (no compile error) each once in sorted-key order, otherwise never
    // (one pass over stdout: id ↦ (times printed, first position))
    let mut marks: std::collections::HashMap<u32, (usize, usize)> = std::collections::HashMap::new();
    {
        let mut at = 0;
        while let Some(i) = stdout[at..].find("<<T") {
            let start = at + i;
            let digits: String = stdout[start + 3..].chars().take_while(|c| c.is_ascii_digit()).collect();
            if !digits.is_empty() && stdout[start + 3 + digits.len()..].starts_with(">>") {
                if let Ok(id) = digits.parse::<u32>() {
                    let e = marks.entry(id).or_insert((0, start));
                    e.0 += 1;
                }
            }
            at = start + 3;
        }
    }
    let mut sorted = tests.clone();
    sorted.sort_by(|a, b| a.0.cmp(&b.0));
    let mut positions = vec![];
    let mut reported = 0;
    for (k, t) in &sorted {
        let n = marks.get(&t.id).map(|m| m.0).unwrap_or(0);
        let want = if c.cmd == "test" && !compile_error { 1 } else { 0 };
        if n != want && reported < 3 {
            reported += 1;
            rep.violation(
                &format!("roto {}: test {k} ran {n} times, expected {want}", c.cmd),
                &format!("cli {}: test ran {n} times", c.cmd),
                witness.clone(),
            );
        }
        positions.push(marks.get(&t.id).map(|m| m.1));
    }
    if c.cmd == "test" && !compile_error && positions.iter().all(|x| x.is_some()) && !positions.windows(2).all(|w| w[0] < w[1]) {
        rep.violation("roto test: tests did not run in the sorted order of their names", "cli test: order", witness.clone());
    }
    // ---- the model (its sort is quadratic: not asked about the giant case)
    let real_code = match code {
        Some(0) => "SUCCESS",
        Some(_) => "FAILURE",
        None => "signal",
    };
    let real_tests: Vec<String> = {
        let mut v: Vec<(usize, String)> = tests.iter().filter_map(|(k, t)| marks.get(&t.id).map(|m| (m.1, k.clone()))).collect();
        v.sort();
        v.into_iter().map(|x| x.1).collect()
    };
    let req = format!(
        "c19 cli {} {} 0 {} {} {} {} {}",
        c.cmd, DBG as u8, c.read_ok as u8, c.parse_ok as u8, c.type_ok as u8, hex(&wanted_fn), ents.join(" ")
    );
    let ans = if tests.len() <= 2048 { drv.ask(rep, req.trim_end()) } else { None };
    if let Some(ans) = &ans {
        let mut w = ans.split(' ');
        let mcode = w.next().unwrap_or("");
        let events: Vec<&str> = w.collect();
        let m_entry = events.iter().filter(|e| e.starts_with("E:")).count();
        let m_tests: Vec<String> = events.iter().filter_map(|e| e.strip_prefix("T:")).map(unhex).collect();
        // which functions were called as the entry: the planted one prints ENTRY, the others their marker
        let mut m_keys: Vec<String> = events.iter().filter_map(|e| e.strip_prefix("E:")).map(unhex).collect();
        m_keys.sort();
        let mut r_keys = real_entries.clone();
        for _ in 0..entry_runs {
            r_keys.push(format!("pkg.{}", c.entry_name));
        }
        r_keys.sort();
        let model_entry_ok = (if entry_is_planted || m_entry == 0 { m_entry == entry_runs } else { true }) && m_keys == r_keys;
        if mcode != real_code || !model_entry_ok || (c.cmd == "test" && m_tests != real_tests) {
            rep.mismatch(
                "the roto binary differs from the generated model of cli/cli_inner",
                json!({"case": cj, "request": abbreviate(&req), "lean": abbreviate(ans), "exit": code, "entry_runs": entry_runs,
                    "tests_run": real_tests.iter().take(40).collect::<Vec<_>>()}),
            );
        }
    }
    if idx % 25 == 0 || idx < N_CLI_BOUNDARY {
        rep.sample(json!({"argv": cj["argv"], "situation": c.situation, "exit": code, "blocks": tests.len(),
            "rejecting": tests.iter().filter(|(_, t)| !t.accept).count(),
            "model": ans.as_deref().map(|a| format!("{} ({} T-events)", a.split(' ').next().unwrap_or(""), a.matches(" T:").count()))}));
    }
}


// -------------------------------------------------------------- history part
//
// "In a deterministic order": the order in which the blocks run may depend on the
// package only — not on what the process compiled before (interning order of the
// names, allocation history, …).  One case is run in three fresh processes that
// first compile nothing / a decoy script declaring the same test names in reverse
// order / in rotated order; the three execution orders must be equal.  (Within one
// process such a dependence is invisible: two compilations see the same history.)

fn history_case_for(seed: u64, idx: u64) -> Case {
    match idx {
        0 => counted(&[&[]], 0, 24),
        1 => counted(&DEEP, 3, 37),
        2 => boundary_api(2).unwrap(),
        3 => boundary_api(4).unwrap(),
        // names equal up to letter case; a table with compiler-generated functions between the blocks
        4 => boundary_api(21).unwrap(),
        5 => boundary_api(25).unwrap(),
        _ => gen_case(&mut Prng::for_case(seed ^ 0x4157, idx), false),
    }
}

const N_HISTORIES: u64 = 3;

fn decoy(case: &Case, history: u64) -> Option<String> {
    let mut names: Vec<String> = vec![];
    for m in &case.mods {
        for t in m.tests() {
            if !names.contains(&t.name) {
                names.push(t.name.clone());
            }
        }
    }
    match history {
        0 => return None,
        1 => names.reverse(),
        _ => {
            let k = names.len() / 2;
            names.rotate_left(k);
            names.reverse();
        }
    }
    Some(names.iter().map(|n| format!("test {n} {{\n    accept\n}}\n")).collect())
}

/// child process: `worker order <seed> <idx> <history>` prints `ORDER <id,id,…>` (or `SKIP <why>`)
fn history_child(seed: u64, idx: u64, history: u64) {
    let case = history_case_for(seed, idx);
    let rt = runtime();
    if let Some(src) = decoy(&case, history) {
        let d = Case { mods: vec![ModGen { path: vec![], items: vec![Item::Raw(src)] }], must_fail: None };
        if quiet(|| file_tree(&d).compile(&rt).map(|_| ())).is_err() {
            println!("SKIP decoy does not compile");
            return;
        }
    }
    let Ok(mut pkg) = quiet(|| file_tree(&case).compile(&rt)) else {
        println!("SKIP case does not compile");
        return;
    };
    take_log();
    let r = quiet(|| pkg.run_tests());
    let log = take_log();
    println!("ORDER {} {}", if r.is_ok() { "Ok" } else { "Err" }, log.iter().map(|x| x.to_string()).collect::<Vec<_>>().join(","));
}

fn history_part(rep: &mut Report, seed: u64, from: u64, n: u64) {
    for idx in from..from + n {
        let case = history_case_for(seed, idx);
        let ntests: usize = case.mods.iter().map(|m| m.tests().len()).sum();
        if ntests < 2 {
            continue;
        }
        rep.evaluations += 1;
        let cj = json!({"part": "history", "seed": seed, "index": idx, "case": case_json(&case, false)});
        let (s, i) = (seed.to_string(), idx.to_string());
        let mut outs = vec![];
        for h in 0..N_HISTORIES {
            let hs = h.to_string();
            let (ended, out) = rotov_harness::worker::run_worker_keep_stdout(&["order", &s, &i, &hs], Duration::from_secs(300));
            let line = out.lines().rev().find(|l| l.starts_with("ORDER ") || l.starts_with("SKIP ")).map(|l| l.to_string());
            match (&ended, line) {
                (Ended::Exit(0, _), Some(l)) => outs.push(l),
                _ => {
                    rep.violation(
                        "process died (trap/abort/hang) while compiling or running the tests of a generated script",
                        "test runner crash",
                        json!({"case": cj, "history": h, "ended": format!("{ended:?}")}),
                    );
                    outs.push("SKIP crashed".into());
                }
            }
        }
        if outs.iter().any(|o| o.starts_with("SKIP")) {
            if outs.iter().any(|o| o.starts_with("SKIP decoy") || o.starts_with("SKIP case")) {
                rep.mismatch("history part: a generated script does not compile", json!({"case": cj, "answers": outs}));
            }
            continue;
        }
        rep.hist("history: blocks", ntests.min(40).to_string());
        rep.class(format!("history|{}|{}", case.mods.len(), ntests.min(40)));
        if outs.iter().any(|o| *o != outs[0]) {
            rep.violation(
                "the order (or result) of run_tests depends on what the process compiled before: fresh processes that first compiled nothing / the same test names in reverse / in rotated order disagree",
                "test order depends on process history",
                json!({"case": cj, "fresh": outs[0], "after reversed decoy": outs[1], "after rotated decoy": outs[2]}),
            );
        }
    }
}

fn scratch_dir() -> std::path::PathBuf {
    let base = std::env::var("CARGO_TARGET_DIR")
        .map(std::path::PathBuf::from)
        .unwrap_or_else(|_| std::env::current_exe().unwrap().parent().unwrap().parent().unwrap().to_path_buf());
    let d = base.join("c19-scratch").join(std::process::id().to_string());
    std::fs::create_dir_all(&d).unwrap();
    d
}

fn cli_part(rep: &mut Report, seed: u64, from: u64, n: u64, giant: bool) {
    let Ok(bin) = std::env::var("ROTO_BIN") else {
        rep.mismatch("ROTO_BIN is not set: the roto binary was not built, the CLI part did not run", json!({}));
        return;
    };
    let mut drv = Model::spawn();
    let scratch = scratch_dir();
    for idx in from..from + n {
        if idx == GIANT_IDX && !giant {
            continue;
        }
        cli_case(rep, &mut drv, &bin, &scratch, seed, idx);
    }
    let _ = std::fs::remove_dir_all(&scratch);
}

fn main() {
    let args: Vec<String> = std::env::args().collect();
    let mut rep = Report::default();
    match args.get(1).map(|s| s.as_str()) {
        Some("run") => {
            let seed: u64 = args.get(2).and_then(|s| s.parse().ok()).unwrap_or(1);
            // tiers: quick | thorough | search (= the boundary tables incl. the giant count, then a thorough-sized run)
            let tier = args.get(3).map(|s| s.as_str()).unwrap_or("quick");
            let thorough = tier != "quick";
            let seed_s = seed.to_string();
            let (napi, ncli, nhist) = if thorough { (5000, 1000, 150) } else { (300, 100, 20) };
            // the CLI boundary table first: exit status on failure counts / module depths
            cli_part(&mut rep, seed, 0, N_CLI_BOUNDARY, thorough);
            run_batches(&["api", &seed_s], napi, 100, Duration::from_secs(900), &mut rep,
                |rep: &mut Report, idx: u64, how: &Ended| {
                    let case = api_case_for(seed, idx);
                    rep.violation(
                        "process died (trap/abort/hang) while compiling or running the tests of a generated script",
                        "test runner crash",
                        json!({"part": "api", "seed": seed, "index": idx, "case": case_json(&case, false), "ended": format!("{how:?}")}),
                    );
                });
            cli_part(&mut rep, seed, N_CLI_BOUNDARY, ncli - N_CLI_BOUNDARY, false);
            history_part(&mut rep, seed, 0, nhist);
            rep.notes.push(format!(
                "profile: dbg={DBG}; api scripts {napi} (the first {N_API_BOUNDARY} are the boundary table), cli invocations {ncli} (the first {N_CLI_BOUNDARY} are the boundary table{}), history cases {nhist} x {N_HISTORIES} fresh processes",
                if thorough { ", with the 65536-block case" } else { "" }
            ));
        }
        Some("worker") if args.get(2).map(|s| s.as_str()) == Some("order") => {
            std::panic::set_hook(Box::new(|_| {}));
            history_child(args[3].parse().unwrap(), args[4].parse().unwrap(), args[5].parse().unwrap());
            return;
        }
        Some("worker") => {
            std::panic::set_hook(Box::new(|_| {}));
            let seed: u64 = args[3].parse().unwrap();
            let from: u64 = args[4].parse().unwrap();
            let n: u64 = args[5].parse().unwrap();
            let mut drv = Model::spawn();
            for idx in from..from + n {
                println!("START {idx}");
                // a panic of the runner (an `unwrap` in get_tests, …) is caught here, so that the
                // findings of the other cases of the batch are kept; aborts and traps still end
                // the process and are reported by the parent
                let r = std::panic::catch_unwind(std::panic::AssertUnwindSafe(|| api_case(&mut rep, &mut drv, seed, idx)));
                if let Err(e) = r {
                    let msg = e.downcast_ref::<String>().cloned().or_else(|| e.downcast_ref::<&str>().map(|s| s.to_string())).unwrap_or_default();
                    let case = api_case_for(seed, idx);
                    take_log();
                    rep.violation(
                        "process died (trap/abort/hang) while compiling or running the tests of a generated script",
                        "test runner crash",
                        json!({"part": "api", "seed": seed, "index": idx, "case": case_json(&case, false), "ended": format!("panic: {}", msg.chars().take(300).collect::<String>())}),
                    );
                }
            }
        }
        Some("replay") => {
            let v: Value = serde_json::from_str(&args[2]).expect("replay json");
            let seed = v["seed"].as_u64().unwrap_or(1);
            let idx = v["index"].as_u64().unwrap_or(0);
            if v["part"] == "cli" {
                cli_part(&mut rep, seed, idx, 1, true);
            } else if v["part"] == "history" {
                history_part(&mut rep, seed, idx, 1);
            } else {
                // crash-isolated like the run itself: a dying process is the violation `test runner crash`
                let (s, i) = (seed.to_string(), idx.to_string());
                let (ended, out) = rotov_harness::worker::run_worker_keep_stdout(&["api", &s, &i, "1"], Duration::from_secs(900));
                if let Some(v) = Report::parse_stdout(&out) {
                    rep.merge_json(&v);
                }
                if !matches!(ended, Ended::Exit(0, _)) {
                    let case = api_case_for(seed, idx);
                    rep.violation(
                        "process died (trap/abort/hang) while compiling or running the tests of a generated script",
                        "test runner crash",
                        json!({"part": "api", "seed": seed, "index": idx, "case": case_json(&case, false), "ended": format!("{ended:?}")}),
                    );
                }
            }
        }
        _ => {
            eprintln!("usage: c19 run <seed> <quick|thorough|search> | replay <json>");
            std::process::exit(64);
        }
    }
    rep.emit();
}
