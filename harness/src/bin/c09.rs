//! C09 correspondence: source text means what the documented grammar says.
//!
//!  A. operator sequences: real parse tree (hook) vs the Lean model of
//!     `binop_expr` vs the Lean reference grammar — all sequences of ≤ 4 binary
//!     operators exhaustively, short ones with prefix operators, longer ones
//!     sampled;
//!  B. `e` vs its fully parenthesised form on the JIT; rejected chains;
//!  C. literal spellings generated from the documented grammar vs the value
//!     the generator started from and the Lean decoder;
//!  D. identifiers (XID_Start|_ XID_Continue*, not a keyword);
//!  E. comments and a leading shebang;
//!  F. bracketed constructs × mode-switching tokens (`src/c09/lookahead.rs`):
//!     every leaf kind at every position of every bracketed construct, real
//!     parse tree vs printed tree vs the Lean look-ahead model, values on the
//!     JIT; literal spellings in `return` / block / parenthesis positions.
//!  H. literal spellings whose first character selects the lexer path
//!     (`src/c09/firstchar.rs`): IPv6 addresses / prefixes beginning with every
//!     hex digit in both cases, AS numbers, identifiers beginning with `AS` / hex
//!     letters / `f`, numbers beginning with `0x` / `0` / every digit.
//!  G. prefix operators × operand kinds × postfix forms (`src/c09/postfix.rs`):
//!     real parse tree vs Lean reference vs Lean model on expressions that mix
//!     `!` / `-`, every kind of atom, method calls / fields / `?` and binary
//!     operators, nested; values on the JIT against documented values and
//!     against the fully parenthesised form.
//!  I. f-string text parts (`src/c09/fstext.rs`): every short sequence over an
//!     alphabet of escape sequences, lone backslashes, `u`, `x`, hex digits,
//!     single and doubled braces, escaped quotes and multi-byte characters —
//!     real parse tree and JIT value vs an independent decoder of the
//!     documented grammar vs the Lean models (hand model; model run with the
//!     backslash arm GENERATED from `unescape_f_string_part`).
//!
//! usage: c09 run <seed> <quick|thorough>
//!        c09 replay <json>

use roto::verif_hooks::c09 as hook;
use roto::{FileTree, Runtime};
use rotov_harness::driver::Driver;
use rotov_harness::{Prng, Report};
use serde_json::{Value, json};
use std::net::{IpAddr, Ipv4Addr, Ipv6Addr};

#[path = "../c09/lookahead.rs"]
mod lookahead;
#[path = "../c09/postfix.rs"]
mod postfix;
#[path = "../c09/firstchar.rs"]
mod firstchar;
#[path = "../c09/fstext.rs"]
mod fstext;

// ------------------------------------------------------------------ operators

const OPS: [(&str, &str, u8); 13] = [
    ("And", "&&", 0), ("Or", "||", 0),
    ("Eq", "==", 1), ("Ne", "!=", 1), ("Lt", "<", 1), ("Le", "<=", 1), ("Gt", ">", 1), ("Ge", ">=", 1),
    ("Add", "+", 2), ("Sub", "-", 2),
    ("Mul", "*", 3), ("Div", "/", 3), ("Mod", "%", 3),
];

/// prefix chains: `!` = 'n', `-` = 'm'
const PREFIXES_SMALL: [&str; 3] = ["", "n", "m"];
const PREFIXES_ALL: [&str; 7] = ["", "n", "m", "nn", "mm", "nm", "mn"];

#[derive(Clone, Debug)]
struct OpSeq {
    prefixes: Vec<String>, // one per operand
    ops: Vec<usize>,       // index into OPS
}

impl OpSeq {
    fn source(&self, compact: bool) -> String {
        let mut toks: Vec<String> = vec![];
        for (i, p) in self.prefixes.iter().enumerate() {
            if i > 0 {
                toks.push(OPS[self.ops[i - 1]].1.to_string());
            }
            for c in p.chars() {
                toks.push(if c == 'n' { "!".into() } else { "-".into() });
            }
            toks.push(format!("a{i}"));
        }
        if !compact {
            return toks.join(" ");
        }
        // no blanks, except between two hyphens (`--` is another token)
        let mut s = String::new();
        for t in toks {
            if s.ends_with('-') && t.starts_with('-') {
                s.push(' ');
            }
            s.push_str(&t);
        }
        s
    }
    fn lean_tokens(&self) -> String {
        let mut toks: Vec<String> = vec![];
        for (i, p) in self.prefixes.iter().enumerate() {
            if i > 0 {
                toks.push(OPS[self.ops[i - 1]].0.to_string());
            }
            for c in p.chars() {
                toks.push(if c == 'n' { "!".into() } else { "Sub".into() });
            }
            toks.push(format!("a{i}"));
        }
        toks.join(" ")
    }
    fn signature(&self, outcome: &str) -> String {
        let lv: String = self.ops.iter().map(|o| char::from(b'0' + OPS[*o].2)).collect();
        let pf = self.prefixes.iter().any(|p| !p.is_empty());
        format!("ops|{lv}|{}|{outcome}", if pf { "prefix" } else { "plain" })
    }
}

fn check_opseqs(rep: &mut Report, drv: &mut Driver, seqs: &[OpSeq], compact: bool) {
    let mut reqs = Vec::with_capacity(seqs.len() * 2);
    for s in seqs {
        let t = s.lean_tokens();
        reqs.push(format!("c09 pratt {t}"));
        reqs.push(format!("c09 ref {t}"));
    }
    let ans = drv.ask_all(&reqs);
    for (i, s) in seqs.iter().enumerate() {
        rep.evaluations += 1;
        let src = s.source(compact);
        let real = hook::parse_expr(&src);
        let model = &ans[2 * i];
        let reference = &ans[2 * i + 1];
        let real_c = match &real {
            Ok(t) => format!("ok {t}"),
            Err(e) if e.contains("cannot be chained") => "err".to_string(),
            Err(e) => format!("other-error {e}"),
        };
        let model_c = if model.starts_with("err chained") { "err".to_string() } else { model.clone() };
        let outcome = if real.is_ok() { "tree" } else { "rejected" };
        rep.class(s.signature(outcome));
        rep.hist("opseq-length", s.ops.len().to_string());
        rep.hist("opseq-outcome", outcome);
        if i % 4001 == 0 {
            rep.sample(json!({"src": src, "real": real_c, "model": model, "reference": reference}));
        }
        if &real_c != reference {
            rep.violation(
                "the parse of an operator expression differs from the documented grouping (precedence, left associativity, rejected chains)",
                "pratt-grouping",
                json!({"kind": "opseq", "src": src, "lean": s.lean_tokens(), "real": real_c, "documented": reference}),
            );
        }
        if real_c != model_c {
            rep.mismatch(
                "Lean model of binop_expr differs from the real parser",
                json!({"src": src, "real": real_c, "model": model}),
            );
        }
    }
}

fn exhaustive_seqs(max_len: usize, prefixes: &[&str], out: &mut Vec<OpSeq>) {
    fn go(len: usize, cur: &mut Vec<usize>, out: &mut Vec<Vec<usize>>) {
        if cur.len() == len {
            out.push(cur.clone());
            return;
        }
        for o in 0..13 {
            cur.push(o);
            go(len, cur, out);
            cur.pop();
        }
    }
    for len in 0..=max_len {
        let mut opss = vec![];
        go(len, &mut vec![], &mut opss);
        // all prefix assignments
        let n = len + 1;
        let total = prefixes.len().pow(n as u32);
        for ops in opss {
            for mut code in 0..total {
                let mut pf = vec![];
                for _ in 0..n {
                    pf.push(prefixes[code % prefixes.len()].to_string());
                    code /= prefixes.len();
                }
                out.push(OpSeq { prefixes: pf, ops: ops.clone() });
            }
        }
    }
}

fn random_seq(p: &mut Prng, len: usize) -> OpSeq {
    let mut ops = vec![];
    // bias towards sequences that are accepted: mostly descending/ascending mixes
    for _ in 0..len {
        ops.push(p.below(13) as usize);
    }
    let prefixes = (0..=len)
        .map(|_| if p.chance(1, 4) { p.pick(&PREFIXES_ALL).to_string() } else { String::new() })
        .collect();
    OpSeq { prefixes, ops }
}

/// a random sequence that the documented grammar accepts (so long sequences
/// are not all rejected)
fn random_accepted_seq(p: &mut Prng, len: usize) -> OpSeq {
    let logical = if p.chance(1, 2) { 0 } else { 1 };
    let mut ops = vec![];
    let mut cmp_in_segment = false;
    while ops.len() < len {
        let r = p.below(10);
        let o = if r < 2 {
            cmp_in_segment = false;
            logical
        } else if r < 4 && !cmp_in_segment {
            cmp_in_segment = true;
            2 + p.below(6) as usize
        } else if r < 7 {
            8 + p.below(2) as usize
        } else {
            10 + p.below(3) as usize
        };
        ops.push(o);
    }
    let prefixes = (0..=len)
        .map(|_| if p.chance(1, 4) { p.pick(&PREFIXES_ALL).to_string() } else { String::new() })
        .collect();
    OpSeq { prefixes, ops }
}

// ------------------------------------------------------- B. paren equivalence

fn compile(src: &str) -> Result<roto::Package<roto::NoCtx>, String> {
    let rt = Runtime::new();
    FileTree::test_file("c09.roto", src, 0)
        .compile(&rt)
        .map_err(|e| format!("{e}"))
}

/// parse `(Op l r)` s-expressions of the Lean reference into fully
/// parenthesised source, with `names[i]` for atom `a<i>`.
fn sexp_to_paren(s: &str, names: &[String]) -> Option<String> {
    fn parse(toks: &[String], pos: &mut usize, names: &[String]) -> Option<String> {
        let t = toks.get(*pos)?.clone();
        *pos += 1;
        if t == "(" {
            let head = toks.get(*pos)?.clone();
            *pos += 1;
            let out = match head.as_str() {
                "Not" => format!("(!{})", parse(toks, pos, names)?),
                "Negate" => format!("(-{})", parse(toks, pos, names)?),
                h => {
                    let sym = OPS.iter().find(|o| o.0 == h)?.1;
                    let l = parse(toks, pos, names)?;
                    let r = parse(toks, pos, names)?;
                    format!("({l} {sym} {r})")
                }
            };
            if toks.get(*pos)? != ")" {
                return None;
            }
            *pos += 1;
            Some(out)
        } else {
            let i: usize = t.strip_prefix('a')?.parse().ok()?;
            names.get(i).cloned()
        }
    }
    let spaced = s.replace('(', " ( ").replace(')', " ) ");
    let toks: Vec<String> = spaced.split_whitespace().map(|x| x.to_string()).collect();
    let mut pos = 0;
    let r = parse(&toks, &mut pos, names)?;
    if pos == toks.len() { Some(r) } else { None }
}

struct TypedExpr {
    seq: OpSeq,
    names: Vec<String>,
    ret_bool: bool,
}

/// A well-typed flat expression over i64 `a b c d` and bool `p q`.
fn typed_expr(p: &mut Prng) -> TypedExpr {
    let ints = ["a", "b", "c", "d"];
    let mut names = vec![];
    let mut prefixes = vec![];
    let mut ops = vec![];
    let sum = |p: &mut Prng, names: &mut Vec<String>, prefixes: &mut Vec<String>, ops: &mut Vec<usize>| {
        let n = 1 + p.below(3);
        for i in 0..n {
            if i > 0 {
                // + - * (no / %: a divisor could be 0)
                ops.push(*p.pick(&[8usize, 9, 10, 10]));
            }
            names.push(p.pick(&ints).to_string());
            prefixes.push(if p.chance(1, 5) { "m".to_string() } else { String::new() });
        }
    };
    let ret_bool = p.chance(3, 4);
    if !ret_bool {
        sum(p, &mut names, &mut prefixes, &mut ops);
        let extra = p.below(3);
        for _ in 0..extra {
            ops.push(*p.pick(&[8usize, 9, 10]));
            sum(p, &mut names, &mut prefixes, &mut ops);
        }
    } else {
        let logical = p.below(2) as usize;
        let n = 1 + p.below(3);
        for i in 0..n {
            if i > 0 {
                ops.push(logical);
            }
            if p.chance(1, 4) {
                names.push(p.pick(&["p", "q"]).to_string());
                prefixes.push(if p.chance(1, 2) { "n".to_string() } else { String::new() });
            } else {
                sum(p, &mut names, &mut prefixes, &mut ops);
                ops.push(2 + p.below(6) as usize);
                sum(p, &mut names, &mut prefixes, &mut ops);
            }
        }
    }
    TypedExpr { seq: OpSeq { prefixes, ops }, names, ret_bool }
}

fn flat_source(t: &TypedExpr) -> String {
    let mut s = t.seq.source(false);
    // replace a<i> by names (right to left so a1 does not clobber a10)
    for i in (0..t.names.len()).rev() {
        s = s.replace(&format!("a{i}"), &format!("@{i}@"));
    }
    for i in (0..t.names.len()).rev() {
        s = s.replace(&format!("@{i}@"), &t.names[i]);
    }
    s
}

fn check_paren_equiv(rep: &mut Report, drv: &mut Driver, p: &mut Prng, n: usize) {
    let args: [(i64, i64, i64, i64, bool, bool); 6] = [
        (1, 2, 3, 4, true, false),
        (-7, 5, 0, 9, false, true),
        (100, -3, 17, -1, true, true),
        (0, 0, 0, 0, false, false),
        (6, 6, 2, 3, false, true),
        (i64::MAX, 2, -5, i64::MIN, true, false),
    ];
    for _ in 0..n {
        let t = typed_expr(p);
        let flat = flat_source(&t);
        let reference = drv.ask(&format!("c09 ref {}", t.seq.lean_tokens()));
        let Some(tree) = reference.strip_prefix("ok ") else {
            rep.mismatch("typed generator produced an expression the reference rejects", json!({"src": flat, "reference": reference}));
            continue;
        };
        let Some(paren) = sexp_to_paren(tree, &t.names) else {
            rep.mismatch("cannot print the reference tree", json!({"tree": tree}));
            continue;
        };
        let ret = if t.ret_bool { "bool" } else { "i64" };
        let sig = "a: i64, b: i64, c: i64, d: i64, p: bool, q: bool";
        let src = format!("fn f({sig}) -> {ret} {{ {flat} }}\nfn g({sig}) -> {ret} {{ {paren} }}\n");
        rep.evaluations += 1;
        rep.hist("paren-equiv", ret);
        let mut pkg = match compile(&src) {
            Ok(p) => p,
            Err(e) => {
                rep.violation(
                    "a well-typed operator expression (or its fully parenthesised form) does not compile",
                    "paren-equivalence",
                    json!({"kind": "paren", "src": src, "error": e.chars().take(300).collect::<String>()}),
                );
                continue;
            }
        };
        let mut results = vec![];
        let mut differ = false;
        if t.ret_bool {
            type F = fn(i64, i64, i64, i64, bool, bool) -> bool;
            let f = pkg.get_function::<F>("f").map_err(|e| format!("{e}"));
            let g = pkg.get_function::<F>("g").map_err(|e| format!("{e}"));
            if let (Ok(f), Ok(g)) = (f, g) {
                for a in args {
                    let (x, y) = (f.call(a.0, a.1, a.2, a.3, a.4, a.5), g.call(a.0, a.1, a.2, a.3, a.4, a.5));
                    differ |= x != y;
                    results.push(json!([x, y]));
                }
            } else {
                rep.mismatch("cannot get f/g", json!({"src": src}));
                continue;
            }
        } else {
            type F = fn(i64, i64, i64, i64, bool, bool) -> i64;
            let f = pkg.get_function::<F>("f").map_err(|e| format!("{e}"));
            let g = pkg.get_function::<F>("g").map_err(|e| format!("{e}"));
            if let (Ok(f), Ok(g)) = (f, g) {
                for a in args {
                    let (x, y) = (f.call(a.0, a.1, a.2, a.3, a.4, a.5), g.call(a.0, a.1, a.2, a.3, a.4, a.5));
                    differ |= x != y;
                    results.push(json!([x, y]));
                }
            } else {
                rep.mismatch("cannot get f/g", json!({"src": src}));
                continue;
            }
        }
        rep.class(t.seq.signature(if t.ret_bool { "jit-bool" } else { "jit-i64" }));
        if differ {
            rep.violation(
                "an expression and its fully parenthesised form evaluate differently",
                "paren-equivalence",
                json!({"kind": "paren", "src": src, "results": results}),
            );
        }
    }
}

fn check_rejected_chains(rep: &mut Report) {
    let cmps = ["==", "!=", "<", "<=", ">", ">="];
    let mut cases: Vec<(String, String)> = vec![];
    for x in cmps {
        for y in cmps {
            // `(a x b) y c` only types for ==/!= on bools; use the parenthesised form that types
            let good = if y == "==" || y == "!=" {
                format!("(a {x} b) {y} (c {x} d)")
            } else {
                format!("(a {x} b) && (b {y} c)")
            };
            let bad = if y == "==" || y == "!=" {
                format!("a {x} b {y} c {x} d")
            } else {
                format!("a {x} b {y} c")
            };
            cases.push((good, bad));
        }
    }
    for (x, y) in [("&&", "||"), ("||", "&&")] {
        cases.push((format!("(p {x} q) {y} r"), format!("p {x} q {y} r")));
        cases.push((format!("p {x} (q {y} r)"), format!("p {x} q {y} r")));
        cases.push((format!("(a < b {x} q) {y} r"), format!("a < b {x} q {y} r")));
    }
    let sig = "a: i64, b: i64, c: i64, d: i64, p: bool, q: bool, r: bool";
    for (good, bad) in cases {
        rep.evaluations += 1;
        let g = compile(&format!("fn f({sig}) -> bool {{ {good} }}"));
        let b = compile(&format!("fn f({sig}) -> bool {{ {bad} }}"));
        rep.class(format!("chain|{}", bad.replace(|c: char| c.is_alphanumeric() || c == ' ', "")));
        if let Err(e) = &g {
            rep.mismatch("parenthesised control of a rejected chain does not compile", json!({"src": good, "error": e.chars().take(200).collect::<String>()}));
        }
        match b {
            Ok(_) => rep.violation(
                "an unparenthesised chain of comparisons / mixture of && and || compiles",
                "chain-accepted",
                json!({"kind": "chain", "src": bad}),
            ),
            Err(e) => {
                if !e.contains("cannot be chained") {
                    rep.mismatch("rejected chain fails with another error", json!({"src": bad, "error": e.chars().take(200).collect::<String>()}));
                }
            }
        }
    }
}

// --------------------------------------------------------------- C. literals

fn hexs(s: &str) -> String {
    if s.is_empty() { "-".into() } else { s.bytes().map(|b| format!("{b:02x}")).collect() }
}
fn unhex(s: &str) -> Option<String> {
    if s == "-" {
        return Some(String::new());
    }
    let b: Option<Vec<u8>> = (0..s.len() / 2).map(|i| u8::from_str_radix(s.get(2 * i..2 * i + 2)?, 16).ok()).collect();
    String::from_utf8(b?).ok()
}

/// digits with random digit-group underscores (never leading)
fn with_underscores(p: &mut Prng, digits: &str, density: u64) -> String {
    let mut s = String::new();
    for c in digits.chars() {
        s.push(c);
        if p.chance(density, 10) {
            for _ in 0..1 + p.below(2) {
                s.push('_');
            }
        }
    }
    s
}

const INT_TYS: [(&str, u32, bool); 8] = [
    ("u8", 8, false), ("u16", 16, false), ("u32", 32, false), ("u64", 64, false),
    ("i8", 8, true), ("i16", 16, true), ("i32", 32, true), ("i64", 64, true),
];

fn int_max(bits: u32, signed: bool) -> u64 {
    // largest magnitude a literal can have: the literal itself is parsed as i64
    let m = if signed { (1u128 << (bits - 1)) - 1 } else { (1u128 << bits) - 1 };
    m.min(i64::MAX as u128) as u64
}

fn call_int(pkg: &mut roto::Package<roto::NoCtx>, ty: &str) -> Result<i128, String> {
    macro_rules! go {
        ($t:ty) => {
            pkg.get_function::<fn() -> $t>("main").map(|f| f.call() as i128).map_err(|e| format!("{e}"))
        };
    }
    match ty {
        "u8" => go!(u8), "u16" => go!(u16), "u32" => go!(u32), "u64" => go!(u64),
        "i8" => go!(i8), "i16" => go!(i16), "i32" => go!(i32), "i64" => go!(i64),
        _ => Err("type".into()),
    }
}

struct LitCase {
    kind: &'static str,
    /// the literal's source text
    lit: String,
    /// program whose `main` returns the literal
    src: String,
    ret: String,
    /// expected value in canonical text form
    expect: String,
    /// Lean request and the answer the generator expects from it
    lean: Option<(String, String)>,
    /// expected s-expression from the parse hook (prefix match)
    parse: Option<String>,
    class: String,
}

fn gen_int(p: &mut Prng) -> LitCase {
    let (ty, bits, signed) = *p.pick(&INT_TYS);
    let max = int_max(bits, signed);
    let n: u64 = match p.below(6) {
        0 => 0,
        1 => max,
        2 => max - p.below(3).min(max),
        3 => p.below(256).min(max),
        _ => p.next() % (max as u128 + 1) as u64,
    };
    let hex = p.chance(1, 5);
    let neg = signed && !hex && p.chance(1, 4);
    let (lit, suffix, lean) = if hex {
        let mut h = format!("{n:x}");
        h = h.chars().map(|c| if p.chance(1, 2) { c.to_ascii_uppercase() } else { c }).collect();
        if p.chance(1, 4) {
            h = format!("{}{h}", "0".repeat(1 + p.below(3) as usize));
        }
        let lit = format!("0x{h}");
        let lean = (format!("c09 hex {}", hexs(&lit)), format!("int {n} -"));
        (lit, "", lean)
    } else {
        let density = *p.pick(&[0u64, 0, 2, 5, 9]);
        let digits = with_underscores(p, &n.to_string(), density);
        let suffix = if p.chance(1, 2) { ty } else { "" };
        let lit = format!("{digits}{suffix}");
        let lean = (format!("c09 num {}", hexs(&lit)), format!("int {n} {}", hexs(suffix)));
        (lit, suffix, lean)
    };
    let text = if neg { format!("-{lit}") } else { lit.clone() };
    let val: i128 = if neg { -(n as i128) } else { n as i128 };
    let under = if lit.contains('_') { "underscores" } else { "plain" };
    LitCase {
        kind: "int",
        src: format!("fn main() -> {ty} {{ {text} }}"),
        ret: ty.to_string(),
        expect: val.to_string(),
        lean: Some(lean),
        parse: Some(if hex { format!("(int {n} -)") } else { format!("(int {n} {})", if suffix.is_empty() { "-" } else { suffix }) }),
        class: format!("lit|int|{ty}|{}|{under}|{}|{}", if hex { "hex" } else { "dec" }, if suffix.is_empty() { "nosuffix" } else { "suffix" }, if neg { "neg" } else { "pos" }),
        lit,
    }
}

fn gen_float(p: &mut Prng) -> LitCase {
    let nint = 1 + { let hi = if p.chance(1, 6) { 20 } else { 6 }; p.below(hi) };
    let int_digits: String = (0..nint).map(|i| char::from(b'0' + if i == 0 && nint > 1 { 1 + p.below(9) } else { p.below(10) } as u8)).collect();
    let shape = p.below(5); // 0: `1.`  1: `1.5`  2: `1e5`  3: `1.5e5` 4: integer token with float suffix
    let mut clean = int_digits.clone();
    let density = *p.pick(&[0u64, 0, 3, 7]);
    let mut lit = with_underscores(p, &int_digits, density);
    let mut suffix = *p.pick(&["", "", "f32", "f64"]);
    if shape == 4 {
        suffix = *p.pick(&["f32", "f64"]);
    } else {
        if shape != 2 {
            clean.push('.');
            lit.push('.');
            if shape != 0 {
                let nf = 1 + { let hi = if p.chance(1, 6) { 25 } else { 8 }; p.below(hi) };
                let fr: String = (0..nf).map(|_| char::from(b'0' + p.below(10) as u8)).collect();
                clean.push_str(&fr);
                // the first fraction character must be a digit (`1._5` is a field access)
                lit.push_str(&with_underscores(p, &fr, density));
            }
        }
        if shape == 2 || shape == 3 {
            let e = *p.pick(&["e", "E"]);
            let sign = *p.pick(&["", "+", "-"]);
            let mag = match p.below(5) { 0 => p.below(400), 1 => 300 + p.below(30), _ => p.below(40) };
            let ex = mag.to_string();
            clean.push_str(&format!("{e}{sign}{ex}"));
            lit.push_str(e);
            lit.push_str(sign);
            if density > 0 && p.chance(1, 3) {
                lit.push('_');
            }
            lit.push_str(&with_underscores(p, &ex, density));
        }
    }
    // a `.` directly followed by the suffix / nothing is `10.`; `10.f32` would
    // be a field access on an integer: keep `10.` unsuffixed
    if shape == 0 {
        suffix = "";
    }
    let lit = format!("{lit}{suffix}");
    let v: f64 = clean.parse().expect("generator spells valid floats");
    let ty = if suffix.is_empty() { *p.pick(&["f32", "f64"]) } else { suffix };
    let expect = if ty == "f32" { format!("f32:{}", (v as f32).to_bits()) } else { format!("f64:{}", v.to_bits()) };
    let under = if lit.contains('_') { "underscores" } else { "plain" };
    LitCase {
        kind: "float",
        src: format!("fn main() -> {ty} {{ {lit} }}"),
        ret: ty.to_string(),
        expect,
        lean: Some((format!("c09 num {}", hexs(&lit)), format!("float {} {}", v.to_bits(), hexs(suffix)))),
        parse: Some(format!("(float {} {})", v.to_bits(), if suffix.is_empty() { "-" } else { suffix })),
        class: format!("lit|float|{ty}|shape{shape}|{under}|{}", if suffix.is_empty() { "nosuffix" } else { "suffix" }),
        lit,
    }
}

/// a character for string contents, by class
fn text_char(p: &mut Prng) -> char {
    loop {
        let c = match p.below(8) {
            0 | 1 | 2 => char::from(32 + p.below(95) as u8),
            3 => *p.pick(&['é', 'ß', 'ö', 'Я', 'д', 'λ', '¥', '§']),
            4 => *p.pick(&['東', '京', '€', '→', '√', 'ก', 'あ']),
            5 => *p.pick(&['😀', '🦀', '𝔘', '𐍈']),
            6 => *p.pick(&['\n', '\t', ' ', '\u{a0}', '\u{301}', '\u{200b}']),
            _ => char::from_u32(p.below(0x11_0000) as u32).unwrap_or('x'),
        };
        if !matches!(c, '\\' | '"' | '\r' | '{' | '}' | '\'') {
            return c;
        }
    }
}

#[derive(Clone, Debug)]
enum Item {
    Plain(char),
    Esc(String, char),
    Cont(String), // line continuation: `\` newline whitespace*
    LBrace,
    RBrace,
    Hole,
}

fn gen_escape(p: &mut Prng, braces: bool) -> Item {
    let simple = [("\\0", '\0'), ("\\t", '\t'), ("\\n", '\n'), ("\\r", '\r'), ("\\\"", '"'), ("\\'", '\''), ("\\\\", '\\')];
    match p.below(4) {
        0 | 1 => {
            let (s, c) = *p.pick(&simple);
            Item::Esc(s.to_string(), c)
        }
        2 => {
            let v = if braces && p.chance(1, 3) { *p.pick(&[0x7bu8, 0x7d]) } else { p.below(128) as u8 };
            let h = if p.chance(1, 2) { format!("{v:02x}") } else { format!("{v:02X}") };
            Item::Esc(format!("\\x{h}"), v as char)
        }
        _ => {
            let c = if braces && p.chance(1, 3) { *p.pick(&['{', '}']) } else {
                match p.below(3) { 0 => char::from(p.below(128) as u8), 1 => text_char(p), _ => char::from_u32(p.below(0x11_0000) as u32).unwrap_or('Z') }
            };
            let mut h = format!("{:x}", c as u32);
            if p.chance(1, 2) {
                h = h.to_uppercase();
            }
            let pad = p.below(7 - h.len() as u64) as usize;
            Item::Esc(format!("\\u{{{}{h}}}", "0".repeat(pad)), c)
        }
    }
}

fn gen_items(p: &mut Prng, fstring: bool, escaped_braces: bool) -> Vec<Item> {
    let n = { let hi = if p.chance(1, 5) { 30 } else { 9 }; p.below(hi) };
    let mut items: Vec<Item> = vec![];
    for _ in 0..n {
        let prev_cont = matches!(items.last(), Some(Item::Cont(_)));
        let it = match p.below(10) {
            0..=4 => {
                let mut c = text_char(p);
                // whitespace right after a line continuation belongs to the continuation
                while prev_cont && c.is_whitespace() {
                    c = text_char(p);
                }
                Item::Plain(c)
            }
            5 | 6 => gen_escape(p, fstring && escaped_braces),
            7 => {
                let ws: String = (0..p.below(4)).map(|_| *p.pick(&[' ', '\t', '\n', ' '])).collect();
                Item::Cont(format!("\\\n{ws}"))
            }
            _ if fstring => match p.below(3) { 0 => Item::LBrace, 1 => Item::RBrace, _ => Item::Hole },
            _ => {
                let mut c = text_char(p);
                while prev_cont && c.is_whitespace() {
                    c = text_char(p);
                }
                Item::Plain(c)
            }
        };
        items.push(it);
    }
    items
}

fn spell(items: &[Item]) -> String {
    items.iter().map(|i| match i {
        Item::Plain(c) => c.to_string(),
        Item::Esc(s, _) => s.clone(),
        Item::Cont(s) => s.clone(),
        Item::LBrace => "{{".into(),
        Item::RBrace => "}}".into(),
        Item::Hole => "{x}".into(),
    }).collect()
}

fn meaning(items: &[Item], hole: &str) -> String {
    items.iter().map(|i| match i {
        Item::Plain(c) | Item::Esc(_, c) => c.to_string(),
        Item::Cont(_) => String::new(),
        Item::LBrace => "{".into(),
        Item::RBrace => "}".into(),
        Item::Hole => hole.to_string(),
    }).collect()
}

fn item_classes(items: &[Item]) -> String {
    let mut k = vec![];
    let has = |f: &dyn Fn(&Item) -> bool| items.iter().any(f);
    if has(&|i| matches!(i, Item::Plain(c) if !c.is_ascii())) { k.push("unicode"); }
    if has(&|i| matches!(i, Item::Esc(s, _) if s.starts_with("\\x"))) { k.push("x"); }
    if has(&|i| matches!(i, Item::Esc(s, _) if s.starts_with("\\u"))) { k.push("u"); }
    if has(&|i| matches!(i, Item::Esc(s, _) if !s.starts_with("\\u") && !s.starts_with("\\x"))) { k.push("simple"); }
    if has(&|i| matches!(i, Item::Cont(_))) { k.push("cont"); }
    if has(&|i| matches!(i, Item::LBrace | Item::RBrace)) { k.push("braces"); }
    if has(&|i| matches!(i, Item::Hole)) { k.push("hole"); }
    k.join("+")
}

fn gen_string(p: &mut Prng) -> LitCase {
    let items = gen_items(p, false, false);
    let body = spell(&items);
    let val = meaning(&items, "");
    let lit = format!("\"{body}\"");
    LitCase {
        kind: "string",
        src: format!("fn main() -> String {{ {lit} }}"),
        ret: "String".into(),
        expect: format!("str:{}", hexs(&val)),
        lean: Some((format!("c09 str {}", hexs(&body)), format!("ok {}", hexs(&val)))),
        parse: Some(format!("(str {})", hexs(&val))),
        class: format!("lit|string|{}", item_classes(&items)),
        lit,
    }
}

fn gen_char(p: &mut Prng) -> LitCase {
    let it = if p.chance(1, 2) {
        loop {
            let c = text_char(p);
            if !matches!(c, '\n' | '\t') {
                break Item::Plain(c);
            }
        }
    } else {
        gen_escape(p, false)
    };
    let items = [it];
    let body = spell(&items);
    let val = meaning(&items, "");
    let c = val.chars().next().unwrap();
    let lit = format!("'{body}'");
    LitCase {
        kind: "char",
        src: format!("fn main() -> char {{ {lit} }}"),
        ret: "char".into(),
        expect: format!("char:{}", c as u32),
        lean: Some((format!("c09 chr {}", hexs(&body)), format!("ok {}", hexs(&val)))),
        parse: Some(format!("(char {})", c as u32)),
        class: format!("lit|char|{}", item_classes(&items)),
        lit,
    }
}

fn fstring_case(items: &[Item]) -> LitCase {
    let body = spell(items);
    let val = meaning(items, "3");
    let lit = format!("f\"{body}\"");
    // Lean answer: parts
    let mut parts: Vec<String> = vec![];
    let mut cur = String::new();
    let mut cur_nonempty_raw = false;
    for it in items {
        match it {
            Item::Hole => {
                if cur_nonempty_raw {
                    parts.push(format!("T{}", hexs(&cur)));
                }
                parts.push("H78".into());
                cur.clear();
                cur_nonempty_raw = false;
            }
            other => {
                cur.push_str(&meaning(std::slice::from_ref(other), ""));
                cur_nonempty_raw = true;
            }
        }
    }
    if cur_nonempty_raw {
        parts.push(format!("T{}", hexs(&cur)));
    }
    let esc_brace = items.iter().any(|i| matches!(i, Item::Esc(_, '{') | Item::Esc(_, '}')));
    LitCase {
        kind: if esc_brace { "fstring-escaped-brace" } else { "fstring" },
        src: format!("fn main(x: i32) -> String {{ {lit} }}"),
        ret: "String(x=3)".into(),
        expect: format!("str:{}", hexs(&val)),
        lean: Some((format!("c09 fstr {}", hexs(&format!("{body}\""))), format!("ok {}", parts.join(" ")).trim_end().to_string())),
        parse: None,
        class: format!("lit|fstring|{}", item_classes(items)),
        lit,
    }
}

fn gen_fstring(p: &mut Prng, escaped_braces: bool) -> LitCase {
    let items = gen_items(p, true, escaped_braces);
    fstring_case(&items)
}

fn gen_ip(p: &mut Prng) -> LitCase {
    if p.chance(1, 2) {
        let o: Vec<u8> = (0..4).map(|_| match p.below(4) { 0 => 0, 1 => 255, _ => p.below(256) as u8 }).collect();
        let lit = format!("{}.{}.{}.{}", o[0], o[1], o[2], o[3]);
        let addr = IpAddr::V4(Ipv4Addr::new(o[0], o[1], o[2], o[3]));
        LitCase {
            kind: "ipv4",
            src: format!("fn main() -> IpAddr {{ {lit} }}"),
            ret: "IpAddr".into(),
            expect: format!("ip:{addr}"),
            lean: Some((format!("c09 ipv4 {}", hexs(&lit)), format!("ipv4 {} {} {} {}", o[0], o[1], o[2], o[3]))),
            parse: Some(format!("(ip {addr})")),
            class: "lit|ipv4".into(),
            lit,
        }
    } else {
        let (lit, addr, shape) = gen_ipv6(p);
        LitCase {
            kind: "ipv6",
            src: format!("fn main() -> IpAddr {{ {lit} }}"),
            ret: "IpAddr".into(),
            expect: format!("ip:{}", IpAddr::V6(addr)),
            lean: None,
            parse: Some(format!("(ip {})", IpAddr::V6(addr))),
            class: format!("lit|ipv6|{shape}"),
            lit,
        }
    }
}

fn gen_ipv6(p: &mut Prng) -> (String, Ipv6Addr, &'static str) {
    let mut g = [0u16; 8];
    for x in g.iter_mut() {
        *x = match p.below(4) { 0 => 0, 1 => p.below(256) as u16, _ => p.below(65536) as u16 };
    }
    let compress = p.chance(2, 3);
    let mut shape = "full";
    let group = |p: &mut Prng, v: u16| -> String {
        let mut s = format!("{v:x}");
        if p.chance(1, 3) {
            s = format!("{v:04x}");
        }
        if p.chance(1, 2) {
            s = s.to_uppercase();
        }
        s
    };
    let lit = if compress {
        // zero a run [i, j) and spell it `::`
        let i = p.below(8) as usize;
        let j = i + 1 + p.below((8 - i) as u64) as usize;
        for x in g[i..j].iter_mut() {
            *x = 0;
        }
        shape = if i == 0 && j == 8 { "all-zero" } else if i == 0 { "leading-compress" } else if j == 8 { "trailing-compress" } else { "inner-compress" };
        let a: Vec<String> = g[..i].iter().map(|v| group(p, *v)).collect();
        let b: Vec<String> = g[j..].iter().map(|v| group(p, *v)).collect();
        format!("{}::{}", a.join(":"), b.join(":"))
    } else {
        let a: Vec<String> = g.iter().map(|v| group(p, *v)).collect();
        a.join(":")
    };
    (lit, Ipv6Addr::new(g[0], g[1], g[2], g[3], g[4], g[5], g[6], g[7]), shape)
}

fn gen_asn(p: &mut Prng) -> LitCase {
    let n: u32 = match p.below(5) { 0 => 0, 1 => u32::MAX, 2 => 65535 + p.below(3) as u32, _ => p.next() as u32 >> p.below(32) };
    let lit = format!("AS{n}");
    LitCase {
        kind: "asn",
        src: format!("fn main() -> String {{ {lit}.to_string() }}"),
        ret: "String".into(),
        expect: format!("str:{}", hexs(&format!("AS{n}"))),
        lean: Some((format!("c09 asn {}", hexs(&lit)), format!("asn {n}"))),
        parse: Some(format!("(asn {n})")),
        class: "lit|asn".into(),
        lit,
    }
}

fn gen_prefix(p: &mut Prng) -> LitCase {
    let sp = *p.pick(&["", " "]);
    if p.chance(1, 2) {
        let addr = p.next() as u32;
        let len = p.below(33) as u32;
        let addr = if p.chance(1, 2) && len < 32 { addr & !(u32::MAX.checked_shr(len).unwrap_or(0)) } else { addr };
        let ip = Ipv4Addr::from(addr);
        let masked = if len == 0 { 0 } else { addr & (u32::MAX << (32 - len)) };
        let lit = format!("{ip}{sp}/{sp}{len}");
        let o = ip.octets();
        LitCase {
            kind: "prefix",
            src: format!("fn main() -> String {{ let p: Prefix = {lit}; p.to_string() }}"),
            ret: "String".into(),
            expect: format!("str:{}", hexs(&format!("{}/{len}", Ipv4Addr::from(masked)))),
            lean: Some((format!("c09 prefix4 {} {} {} {} {len}", o[0], o[1], o[2], o[3]), format!("ok {masked} {len}"))),
            parse: None,
            class: format!("lit|prefix4|{}", if masked == addr { "exact" } else { "hostbits" }),
            lit,
        }
    } else {
        let (lit6, addr, _) = gen_ipv6(p);
        let len = p.below(129) as u32;
        let a = u128::from(addr);
        let masked = if len == 0 { 0 } else { a & (u128::MAX << (128 - len)) };
        let lit = format!("{lit6}{sp}/{sp}{len}");
        LitCase {
            kind: "prefix",
            src: format!("fn main() -> String {{ let p: Prefix = {lit}; p.to_string() }}"),
            ret: "String".into(),
            expect: format!("str:{}", hexs(&format!("{}/{len}", Ipv6Addr::from(masked)))),
            lean: None,
            parse: None,
            class: format!("lit|prefix6|{}", if masked == a { "exact" } else { "hostbits" }),
            lit,
        }
    }
}

/// Run a literal case on the real compiler; canonical result text.
fn run_literal(c: &LitCase) -> Result<String, String> {
    let mut pkg = compile(&c.src)?;
    Ok(match c.ret.as_str() {
        "f32" => format!("f32:{}", pkg.get_function::<fn() -> f32>("main").map_err(|e| format!("{e}"))?.call().to_bits()),
        "f64" => format!("f64:{}", pkg.get_function::<fn() -> f64>("main").map_err(|e| format!("{e}"))?.call().to_bits()),
        "String" => format!("str:{}", hexs(&pkg.get_function::<fn() -> roto::RotoString>("main").map_err(|e| format!("{e}"))?.call())),
        "String(x=3)" => format!("str:{}", hexs(&pkg.get_function::<fn(i32) -> roto::RotoString>("main").map_err(|e| format!("{e}"))?.call(3))),
        "char" => format!("char:{}", pkg.get_function::<fn() -> char>("main").map_err(|e| format!("{e}"))?.call() as u32),
        "IpAddr" => format!("ip:{}", pkg.get_function::<fn() -> IpAddr>("main").map_err(|e| format!("{e}"))?.call()),
        t => call_int(&mut pkg, t)?.to_string(),
    })
}

/// `fn main(…) -> T { BODY }` with BODY one expression: the same expression as a
/// returned value, in a block, in parentheses, bound by `let`, in both
/// branches of an `if`, and as a match arm.
fn position_variants(src: &str) -> Vec<(&'static str, String)> {
    let (Some(i), Some(j)) = (src.find("{ "), src.rfind(" }")) else { return vec![] };
    if j < i + 2 {
        return vec![];
    }
    let (head, body) = (&src[..i + 2], &src[i + 2..j]);
    if body.contains("let ") {
        return vec![];
    }
    [
        ("return", format!("return {body}")),
        ("return-statement", format!("return {body};")),
        ("block", format!("{{ {body} }}")),
        ("compact-block", format!("{{{body}}}")),
        ("parentheses", format!("({body})")),
        ("let", format!("let t = {body}; t")),
        ("if-branches", format!("if true {{ {body} }} else {{ {body} }}")),
        ("match-arm", format!("match Option.Some(1) {{ Some(v) => {body}, None => {body} }}")),
    ]
    .into_iter()
    .map(|(n, b)| (n, format!("{head}{b} }}")))
    .collect()
}

fn check_literal(rep: &mut Report, drv: &mut Driver, c: &LitCase) {
    rep.evaluations += 1;
    rep.class(c.class.clone());
    rep.hist("literal-kind", c.kind);
    let real = run_literal(c);
    let key = match c.kind {
        "fstring-escaped-brace" => "fstring-escaped-brace-collapse".to_string(),
        k => format!("literal-{k}"),
    };
    let input = json!({"kind": "literal", "lit_kind": c.kind, "src": c.src, "ret": c.ret, "expect": c.expect});
    match &real {
        Ok(v) if *v == c.expect => {}
        Ok(v) => rep.violation(
            "a literal spelled per the documented grammar evaluates to another value",
            &key,
            json!({"case": input, "got": v, "literal": c.lit}),
        ),
        Err(e) => rep.violation(
            "a literal spelled per the documented grammar is rejected",
            &key,
            json!({"case": input, "error": e.chars().take(300).collect::<String>(), "literal": c.lit}),
        ),
    }
    if rep.samples.len() < 8 && rep.evaluations % 97 == 0 {
        rep.sample(json!({"literal": c.lit, "expect": c.expect, "real": real.clone().unwrap_or_else(|e| e.chars().take(80).collect())}));
    }
    // the same spelling in the other expression positions of a function body
    if real.as_ref().ok() == Some(&c.expect) {
        for (pos, src) in position_variants(&c.src) {
            rep.evaluations += 1;
            rep.class(format!("{}|in-{pos}", c.class));
            rep.hist("literal-position", pos);
            let v = LitCase { kind: c.kind, lit: c.lit.clone(), src, ret: c.ret.clone(), expect: c.expect.clone(), lean: None, parse: None, class: String::new() };
            let got = run_literal(&v);
            if got.as_ref().ok() != Some(&c.expect) {
                rep.violation(
                    "a literal that denotes the documented value as a function's last expression is rejected / denotes another value in another expression position",
                    &format!("literal-{}-in-{pos}", c.kind),
                    json!({"case": {"kind": "literal", "lit_kind": format!("{}-in-{pos}", c.kind), "src": v.src, "ret": c.ret, "expect": c.expect},
                           "got": format!("{got:?}").chars().take(300).collect::<String>(), "literal": c.lit}),
                );
            }
        }
    }
    // the parse hook's decoded literal
    if let (Some(want), false) = (&c.parse, c.src.contains("{ -")) {
        // (a string / char token at the very end of the input does not lex: keep a blank after it)
        let got = hook::parse_expr(&format!("{} ", c.lit));
        if got.as_deref() != Ok(want.as_str()) && real.as_ref().ok() == Some(&c.expect) {
            rep.mismatch("parse hook's literal differs from the expected value although the JIT result is right", json!({"lit": c.lit, "want": want, "got": format!("{got:?}")}));
        }
    }
    // the Lean decoder, against the generator's value and the real result
    if let Some((req, want)) = &c.lean {
        let ans = drv.ask(req);
        if &ans != want {
            // model (Lean decoder) disagrees with the documented value; if the real
            // code is right this is a model error, otherwise the model mirrors a defect
            let real_ok = real.as_ref().ok() == Some(&c.expect);
            if real_ok {
                rep.mismatch("Lean decoder differs from the documented value (and from the real code)", json!({"lit": c.lit, "request": req, "lean": ans, "want": want}));
            }
        } else if real.as_ref().ok() != Some(&c.expect) && c.kind != "fstring-escaped-brace" {
            // Lean agrees with the document, real code does not: already a violation above
        }
    }
}

// ------------------------------------------------------------ D. identifiers

fn xid_sample(p: &mut Prng, start: bool) -> char {
    loop {
        let c = match p.below(6) {
            0 | 1 => char::from(p.below(128) as u8),
            2 => *p.pick(&['é', 'ß', 'М', 'о', 'с', 'к', 'в', 'а', '東', '京', 'λ', 'ñ', 'ø', 'ก', 'あ', '𝔘', 'ǅ', 'ℵ']),
            3 => *p.pick(&['\u{301}', '\u{200c}', '٣', '൧', '·', '\u{fe0f}', '_', '0', '9', '‿']),
            _ => match char::from_u32(p.below(0x3_0000) as u32) { Some(c) => c, None => continue },
        };
        let ok = if start { hook::is_xid_start(c) || c == '_' } else { hook::is_xid_continue(c) };
        if ok {
            return c;
        }
    }
}

fn check_identifiers(rep: &mut Report, drv: &mut Driver, p: &mut Prng, n: usize) {
    let keywords = ["accept", "const", "dep", "else", "enum", "filter", "filtermap", "for", "fn", "if", "import", "in", "let", "match", "pkg", "record", "reject", "return", "std", "super", "test", "while", "true", "false"];
    let mut words: Vec<(String, &'static str)> = vec![];
    for k in keywords {
        words.push((k.to_string(), "keyword"));
        words.push((format!("{k}_"), "near-keyword"));
        words.push((format!("_{k}"), "near-keyword"));
        let mut u = k.to_string();
        u.replace_range(0..1, &k[0..1].to_uppercase());
        words.push((u, "near-keyword"));
    }
    for w in ["foo", "_bar", "foo_bar", "foo1234", "Straße", "Москва", "東京", "_", "__", "_1", "é", "loop", "struct", "type", "contains"] {
        words.push((w.to_string(), "manual-example"));
    }
    // the scan class: ASCII after non-ASCII, continue-only characters (marks, vowel signs,
    // non-ASCII digits, U+00B7) right after the first character / after an ASCII run, and
    // words followed by something that ends them
    for w in ["größe_in_cm", "café_au_lait", "東京2", "verdächtig", "cafe\u{301}", "nai\u{308}ve", "\u{928}\u{93e}\u{92e}", "col·lecció", "n٣", "a\u{301}1é_", "_\u{301}", "é1a\u{301}+x", "Straße(x)", "x٣.y", "a\u{301} b"] {
        words.push((w.to_string(), "scan-class"));
    }
    for w in ["12foo", "foo.bar", "1", "a-b", "a b", "😀", "a😀", "\u{301}a", "٣a", "a\u{a0}b", "€", "a€", "", "a'", "#a", "a$"] {
        words.push((w.to_string(), "non-identifier"));
    }
    for _ in 0..n {
        let len = 1 + { let hi = if p.chance(1, 5) { 12 } else { 5 }; p.below(hi) };
        let mut s = String::new();
        s.push(xid_sample(p, true));
        for _ in 1..len {
            s.push(xid_sample(p, false));
        }
        words.push((s, "generated-xid"));
        // a corrupted one: a non-XID character somewhere
        if p.chance(1, 3) {
            let mut t: Vec<char> = words.last().unwrap().0.chars().collect();
            let bad = loop {
                let c = match p.below(3) { 0 => char::from(33 + p.below(94) as u8), 1 => *p.pick(&['😀', '€', '→', '\u{a0}', '«', '‐']), _ => match char::from_u32(p.below(0x3_0000) as u32) { Some(c) => c, None => continue } };
                if !hook::is_xid_continue(c) && !c.is_whitespace() {
                    break c;
                }
            };
            let pos = p.below(t.len() as u64 + 1) as usize;
            t.insert(pos, bad);
            words.push((t.into_iter().collect(), "generated-non-xid"));
        }
    }
    // the scan of keyword_or_ident on the GENERATED character tests (Lean, with the crate's
    // XID predicates sent along) against the real lexer: where does the first word end?
    let reqs: Vec<String> = words
        .iter()
        .map(|(w, _)| {
            let spec: Vec<String> = w
                .chars()
                .map(|c| format!("{}:{}", c as u32, (hook::is_xid_start(c) as u8) | ((hook::is_xid_continue(c) as u8) << 1)))
                .collect();
            format!("c09 identscan {}", if spec.is_empty() { "-".to_string() } else { spec.join(",") })
        })
        .collect();
    let scan_ans = drv.ask_all(&reqs);
    for ((w, _), ans) in words.iter().zip(scan_ans) {
        rep.evaluations += 1;
        let lean: Option<usize> = if ans == "none" {
            None
        } else if let Some(n) = ans.strip_prefix("some ").and_then(|n| n.trim().parse().ok()) {
            Some(n)
        } else {
            rep.mismatch("identscan: unreadable answer of the Lean driver", json!({"word": w, "lean": ans}));
            continue;
        };
        // the first token of the real lexer (on the longest lexable prefix); None = unknown
        let first: Option<Option<(String, usize, usize)>> = match hook::tokens(w, false) {
            Ok(t) => Some(t.first().cloned()),
            Err(e) => match e.strip_prefix("invalid token at ").and_then(|k| k.parse::<usize>().ok()) {
                Some(0) => Some(None),
                Some(k) if w.is_char_boundary(k) => hook::tokens(&w[..k], false).ok().map(|t| t.first().cloned()),
                _ => None,
            },
        };
        let wordish = |t: &(String, usize, usize)| t.1 == 0 && (t.0.starts_with("Ident(") || t.0.starts_with("Keyword(") || t.0.starts_with("Bool("));
        let bad = match (&lean, &first) {
            (None, Some(Some(t))) => wordish(t),
            (Some(b), Some(Some(t))) => wordish(t) && t.2 != *b,
            (Some(_), Some(None)) => !w.starts_with(char::is_whitespace),
            _ => false,
        };
        rep.class(format!("identscan|{}|{}", if lean.is_some() { "word" } else { "declined" }, if lean == Some(w.len()) { "whole" } else { "prefix" }));
        if bad {
            rep.mismatch(
                "the identifier scan on the generated character tests ends the word elsewhere than the real lexer",
                json!({"word": w, "lean": ans, "real_first_token": format!("{first:?}")}),
            );
        }
    }
    let reqs: Vec<String> = words.iter().map(|(w, _)| format!("c09 kw {}", hexs(w))).collect();
    let kw_ans = drv.ask_all(&reqs);
    for ((w, origin), lean_kw) in words.iter().zip(kw_ans) {
        rep.evaluations += 1;
        let mut cs = w.chars();
        let shape_ok = match cs.next() {
            Some(c) => (hook::is_xid_start(c) || c == '_') && cs.all(hook::is_xid_continue),
            None => false,
        };
        let is_kw = keywords.contains(&w.as_str());
        let documented = shape_ok && !is_kw;
        if (lean_kw != "no") != is_kw {
            rep.mismatch("generated keyword table differs from the manual's keyword list", json!({"word": w, "lean": lean_kw}));
        }
        let toks = hook::tokens(w, false);
        let real = match &toks {
            Ok(t) => t.len() == 1 && t[0].1 == 0 && t[0].2 == w.len() && t[0].0 == format!("Ident({w:?})"),
            Err(_) => false,
        };
        rep.class(format!("ident|{origin}|{}|{}", if w.is_ascii() { "ascii" } else { "unicode" }, if documented { "valid" } else { "invalid" }));
        rep.hist("identifier", *origin);
        if real != documented {
            rep.violation(
                if documented { "a documented identifier is not lexed as one identifier" } else { "a word that is not a documented identifier is lexed as an identifier" },
                "identifier",
                json!({"kind": "ident", "word": w, "tokens": format!("{toks:?}")}),
            );
            continue;
        }
        // end to end for a subset (a compile per word is slow)
        if documented && w != "_" && rep.evaluations % 3 == 0 {
            let src = format!("fn main() -> i32 {{ let {w} = 7; {w} + 1 }}");
            let got = compile(&src).and_then(|mut pkg| pkg.get_function::<fn() -> i32>("main").map(|f| f.call()).map_err(|e| format!("{e}")));
            if got != Ok(8) {
                rep.violation("a documented identifier cannot be used as a variable name", "identifier", json!({"kind": "ident", "word": w, "src": src, "got": format!("{got:?}").chars().take(200).collect::<String>()}));
            }
        } else if !documented && !w.is_empty() && *origin == "keyword" {
            let src = format!("fn main() -> i32 {{ let {w} = 7; 8 }}");
            if compile(&src).is_ok() {
                rep.violation("a keyword is accepted as a variable name", "identifier", json!({"kind": "ident", "word": w, "src": src}));
            }
        }
    }
}

// ---------------------------------------------------- E. comments and shebang

fn check_comments(rep: &mut Report, p: &mut Prng, n: usize) {
    let toks = ["fn", "main", "(", "x", ":", "i32", ")", "->", "i32", "{", "let", "y", "=", "x", "*", "2", ";", "y", "+", "1", "}"];
    let shebangs = ["#!/usr/bin/env roto", "#!/usr/bin/roto run", "#! /usr/bin/env roto", "#!roto // x", "#!/bin/é"];
    for i in 0..n {
        rep.evaluations += 1;
        let shebang = if i % 2 == 0 { Some(*p.pick(&shebangs)) } else { None };
        let mut src = String::new();
        if let Some(s) = shebang {
            src.push_str(s);
            src.push('\n');
        }
        let mut ncomments = 0;
        for t in toks {
            src.push_str(t);
            match p.below(6) {
                0 => {
                    let n = p.below(12);
                    let body: String = (0..n).map(|_| { let c = text_char(p); if c == '\n' { ' ' } else { c } }).collect();
                    let extra = *p.pick(&["", "/", "//", " fn }", "\"", "/*"]);
                    src.push_str(&format!(" //{extra}{body}\n"));
                    ncomments += 1;
                }
                1 => src.push('\n'),
                _ => src.push(' '),
            }
        }
        if p.chance(1, 2) {
            src.push_str("// trailing comment without newline é");
            ncomments += 1;
        }
        let space_after_bang = shebang.is_some_and(|s| s.starts_with("#! "));
        let key = if space_after_bang { "shebang-space-after-bang" } else { "comments-shebang" };
        rep.class(format!("comments|{}|{}", match shebang { None => "no-shebang", Some(_) if space_after_bang => "shebang-space", Some(_) => "shebang" }, ncomments.min(3)));
        rep.hist("comments", if shebang.is_some() { "shebang" } else { "plain" });
        let got = compile(&src).and_then(|mut pkg| pkg.get_function::<fn(i32) -> i32>("main").map(|f| f.call(20)).map_err(|e| format!("{e}")));
        if got != Ok(41) {
            rep.violation(
                "comments / a leading shebang line change the meaning of a script",
                key,
                json!({"kind": "comments", "src": src, "got": format!("{got:?}").chars().take(300).collect::<String>()}),
            );
        }
    }
    // `#!` not on the first line is not a shebang
    rep.evaluations += 1;
    if compile("\n#!/usr/bin/env roto\nfn main() -> i32 { 1 }").is_ok() {
        rep.mismatch("a `#!` line that is not the first line is ignored", json!({}));
    }
}

// -------------------------------------------------------------------- driver

fn known_witnesses(rep: &mut Report, drv: &mut Driver) {
    // the defects the property record names, as fixed replay cases
    let w1 = [Item::Plain('é'), Item::Plain(' '), Item::Hole];
    check_literal(rep, drv, &LitCase { kind: "fstring-multibyte", ..fstring_case(&w1) });
    let w2 = [Item::Plain('é')];
    check_literal(rep, drv, &LitCase { kind: "fstring-multibyte", ..fstring_case(&w2) });
    let w3 = [Item::Esc("\\x7b".into(), '{'), Item::Esc("\\x7b".into(), '{'), Item::Plain('|'), Item::LBrace];
    check_literal(rep, drv, &fstring_case(&w3));
    let w4 = [Item::Esc("\\u{7d}".into(), '}'), Item::Esc("\\x7d".into(), '}'), Item::Hole, Item::RBrace];
    check_literal(rep, drv, &fstring_case(&w4));
}

fn run(seed: u64, thorough: bool) -> Report {
    let mut rep = Report::default();
    let mut drv = Driver::spawn().expect("lean driver");
    let mut p = Prng::new(seed);

    // H. first character × literal kind (seed-independent table)
    firstchar::run(&mut rep);

    // I. f-string text parts: escape sequences × brace escapes (seed-independent, exhaustive short sequences)
    fstext::run(&mut rep, &mut drv, thorough);

    // F. bracketed constructs × mode-switching tokens (boundary tables first)
    lookahead::run(&mut rep, &mut drv, &mut p, thorough);

    // G. prefix operators × operand kinds × postfix forms (class representatives first)
    postfix::run_representatives(&mut rep, &mut drv);

    // A. operator sequences
    let mut seqs = vec![];
    exhaustive_seqs(4, &[""], &mut seqs);
    exhaustive_seqs(if thorough { 3 } else { 2 }, if thorough { &PREFIXES_ALL } else { &PREFIXES_SMALL }, &mut seqs);
    for chunk in seqs.chunks(2000) {
        check_opseqs(&mut rep, &mut drv, chunk, false);
    }
    let mut sampled = vec![];
    let n = if thorough { 60000 } else { 4000 };
    for i in 0..n {
        let len = 5 + (i % 2);
        sampled.push(if i % 3 == 0 { random_seq(&mut p, len) } else { random_accepted_seq(&mut p, len) });
    }
    for chunk in sampled.chunks(2000) {
        check_opseqs(&mut rep, &mut drv, chunk, false);
    }
    // the same grouping without blanks
    let compact: Vec<OpSeq> = seqs.iter().step_by(if thorough { 3 } else { 17 }).cloned().chain(sampled.iter().step_by(5).cloned()).collect();
    for chunk in compact.chunks(2000) {
        check_opseqs(&mut rep, &mut drv, chunk, true);
    }
    // G, random part: nests of prefix / postfix / binary operators
    postfix::run_random(&mut rep, &mut drv, &mut p, thorough);
    let grouping_ok = rep.impl_violations.is_empty();

    // B. evaluation of e vs fully parenthesised e; rejected chains
    if grouping_ok {
        check_paren_equiv(&mut rep, &mut drv, &mut p, if thorough { 1500 } else { 150 });
    } else {
        rep.notes.push("paren-equivalence on the JIT skipped: the parse trees already differ from the documented grouping".into());
    }
    check_rejected_chains(&mut rep);

    // I, random part: longer fragment sequences
    fstext::run_random(&mut rep, &mut drv, &mut p, thorough);

    // C. literals
    known_witnesses(&mut rep, &mut drv);
    let n = if thorough { 3000 } else { 260 };
    for i in 0..n {
        let c = match i % 13 {
            0 | 1 | 2 => gen_int(&mut p),
            3 | 4 | 5 => gen_float(&mut p),
            6 | 7 => gen_string(&mut p),
            8 => gen_char(&mut p),
            9 | 10 => gen_fstring(&mut p, i % 4 == 1),
            11 => gen_ip(&mut p),
            _ => if p.chance(1, 2) { gen_asn(&mut p) } else { gen_prefix(&mut p) },
        };
        check_literal(&mut rep, &mut drv, &c);
    }

    // D. identifiers
    check_identifiers(&mut rep, &mut drv, &mut p, if thorough { 6000 } else { 500 });
    // E. comments, shebang
    check_comments(&mut rep, &mut p, if thorough { 300 } else { 40 });

    rep.notes.push("observation (not a violation; the manual is silent): out-of-range suffixed literals such as `300u8` compile (value wraps); excluded from the generator".into());
    rep.notes.push("observation: integer literals are read as i64, so u64 values above 9223372036854775807 and `-9223372036854775808` cannot be written as literals (rejected, not mis-read)".into());
    rep.notes.push("observation: f32 literals are the f64 value cast to f32 (double rounding possible beyond 17 significant digits); the oracle follows that reading".into());
    rep.notes.push("observation: `BinOp`'s Display prints `<` as `<=` in the chained-comparison error text (cosmetic)".into());
    rep
}

fn replay(case: &Value) -> Report {
    let mut rep = Report::default();
    let mut drv = Driver::spawn().expect("lean driver");
    let case = case.get("case").unwrap_or(case);
    match case["kind"].as_str().unwrap_or("") {
        "opseq" => {
            let src = case["src"].as_str().unwrap_or("");
            let lean = case["lean"].as_str().unwrap_or("");
            let reference = drv.ask(&format!("c09 ref {lean}"));
            let real = match hook::parse_expr(src) {
                Ok(t) => format!("ok {t}"),
                Err(e) if e.contains("cannot be chained") => "err".into(),
                Err(e) => format!("other-error {e}"),
            };
            rep.evaluations += 1;
            if real != reference {
                rep.violation("the parse of an operator expression differs from the documented grouping", "pratt-grouping", json!({"kind": "opseq", "src": src, "lean": lean, "real": real, "documented": reference}));
            }
        }
        "literal" => {
            let c = LitCase {
                kind: "replay",
                lit: String::new(),
                src: case["src"].as_str().unwrap_or("").to_string(),
                ret: case["ret"].as_str().unwrap_or("").to_string(),
                expect: case["expect"].as_str().unwrap_or("").to_string(),
                lean: None,
                parse: None,
                class: "replay".into(),
            };
            rep.evaluations += 1;
            let real = run_literal(&c);
            if real.as_ref().ok() != Some(&c.expect) {
                let key = if case["lit_kind"] == "fstring-escaped-brace" { "fstring-escaped-brace-collapse".to_string() } else { format!("literal-{}", case["lit_kind"].as_str().unwrap_or("?")) };
                rep.violation("a literal spelled per the documented grammar does not evaluate to the documented value", &key, json!({"case": case, "got": format!("{real:?}").chars().take(300).collect::<String>()}));
            }
        }
        "paren" => {
            let src = case["src"].as_str().unwrap_or("");
            rep.evaluations += 1;
            match compile(src) {
                Err(e) => rep.violation("does not compile", "paren-equivalence", json!({"kind": "paren", "src": src, "error": e.chars().take(300).collect::<String>()})),
                Ok(mut pkg) => {
                    let a = (1i64, 2i64, 3i64, 4i64, true, false);
                    let b = (-7i64, 5i64, 0i64, 9i64, false, true);
                    let mut differ = false;
                    type FB = fn(i64, i64, i64, i64, bool, bool) -> bool;
                    type FI = fn(i64, i64, i64, i64, bool, bool) -> i64;
                    if let (Ok(f), Ok(g)) = (pkg.get_function::<FB>("f"), pkg.get_function::<FB>("g")) {
                        for x in [a, b] {
                            differ |= f.call(x.0, x.1, x.2, x.3, x.4, x.5) != g.call(x.0, x.1, x.2, x.3, x.4, x.5);
                        }
                    } else if let (Ok(f), Ok(g)) = (pkg.get_function::<FI>("f"), pkg.get_function::<FI>("g")) {
                        for x in [a, b, (100, -3, 17, -1, true, true), (6, 6, 2, 3, false, true)] {
                            differ |= f.call(x.0, x.1, x.2, x.3, x.4, x.5) != g.call(x.0, x.1, x.2, x.3, x.4, x.5);
                        }
                    }
                    if differ {
                        rep.violation("an expression and its fully parenthesised form evaluate differently", "paren-equivalence", json!({"kind": "paren", "src": src}));
                    }
                }
            }
        }
        "chain" => {
            let src = case["src"].as_str().unwrap_or("");
            rep.evaluations += 1;
            let sig = "a: i64, b: i64, c: i64, d: i64, p: bool, q: bool, r: bool";
            if compile(&format!("fn f({sig}) -> bool {{ {src} }}")).is_ok() {
                rep.violation("an unparenthesised chain compiles", "chain-accepted", json!({"kind": "chain", "src": src}));
            }
        }
        "ident" => {
            let w = case["word"].as_str().unwrap_or("");
            rep.evaluations += 1;
            let mut cs = w.chars();
            let shape_ok = match cs.next() { Some(c) => (hook::is_xid_start(c) || c == '_') && cs.all(hook::is_xid_continue), None => false };
            let documented = shape_ok && drv.ask(&format!("c09 kw {}", hexs(w))) == "no";
            let toks = hook::tokens(w, false);
            let real = matches!(&toks, Ok(t) if t.len() == 1 && t[0].0 == format!("Ident({w:?})") && t[0].2 == w.len());
            if real != documented {
                rep.violation("identifier classification differs from the manual", "identifier", json!({"kind": "ident", "word": w}));
            }
        }
        "comments" => {
            let src = case["src"].as_str().unwrap_or("");
            rep.evaluations += 1;
            let got = compile(src).and_then(|mut pkg| pkg.get_function::<fn(i32) -> i32>("main").map(|f| f.call(20)).map_err(|e| format!("{e}")));
            if got != Ok(41) {
                let key = if src.starts_with("#! ") { "shebang-space-after-bang" } else { "comments-shebang" };
                rep.violation("comments / a leading shebang line change the meaning of a script", key, json!({"kind": "comments", "src": src}));
            }
        }
        other => {
            if !lookahead::replay(&mut rep, case) && !postfix::replay(&mut rep, case) && !fstext::replay(&mut rep, case) {
                rep.notes.push(format!("unknown replay kind {other}"));
            }
        }
    }
    let _ = unhex;
    rep
}

fn main() {
    let args: Vec<String> = std::env::args().collect();
    match args.get(1).map(|s| s.as_str()) {
        Some("run") => {
            let seed: u64 = args.get(2).and_then(|s| s.parse().ok()).unwrap_or(1);
            let thorough = args.get(3).map(|s| s == "thorough").unwrap_or(false);
            // parse errors of rejected inputs are results, not noise
            let trace = std::env::var_os("C09_PANIC_TRACE").is_some();
            std::panic::set_hook(Box::new(move |i| {
                if trace {
                    eprintln!("{i}");
                }
            }));
            run(seed, thorough).emit();
        }
        Some("replay") => {
            let v: Value = serde_json::from_str(args.get(2).map(|s| s.as_str()).unwrap_or("{}")).unwrap_or(json!({}));
            std::panic::set_hook(Box::new(|_| {}));
            replay(&v).emit();
        }
        _ => {
            eprintln!("usage: c09 run <seed> <quick|thorough> | c09 replay <json>");
            std::process::exit(64);
        }
    }
}
