//! C07 — ill-typed scripts never compile.
//!
//! Correspondence runs (all crash-isolated in worker processes):
//!  * `prog`   — the property's own quantifier: a generated well-typed script
//!               (must compile; the Lean declarative checker `D` must accept
//!               it), then ONE type-breaking edit. A mutant counts only if `D`
//!               rejects it; then `FileTree::compile` must return a type error
//!               report (not `Ok`, not a panic).
//!  * `ops`    — the whole operator/operand table: `TcRules.binopReal`,
//!               `negateReal`, `notReal` against the real type checker, and
//!               against the documented rules.
//!  * `match`  — random variant lists / arm lists: `TcRules.matchReal` against
//!               the real `match_expr`, and against the documented rules.
//!  * `unify`  — random unification scripts: `Unify.unify` (Lean) against the
//!               real `unify_inner` through the hook `verif_hooks::c07::unify_script`.
//!
//! usage: c07 run <seed> <quick|thorough> | c07 replay <json> | c07 show <seed> <index>

#[path = "../c07"]
mod c07 {
    pub mod ast;
    pub mod generate;
    pub mod mutate;
    pub mod infer;
    pub mod cycles;
    pub mod modules;
    pub mod shadow;
    pub mod registered;
}

use c07::ast::*;
use c07::generate::Gen;
use c07::mutate::{KINDS, mutate};
use roto::verif_hooks::c06::report_stage;
use roto::verif_hooks::c07::{typecheck_only, unify_script};
use roto::{Context, FileTree, NoCtx, Runtime};
use rotov_harness::driver::Driver;
use rotov_harness::worker::{Ended, run_worker_keep_stdout};
use rotov_harness::{Prng, Report};
use serde_json::{Value, json};
use std::io::Write as _;
use std::panic::{AssertUnwindSafe, catch_unwind};
use std::time::Duration;

#[derive(Debug, Clone, PartialEq)]
enum Outcome {
    Ok,
    /// a type error report: its description line
    TypeError(String),
    /// an error of another stage (`parser`, `lexer`, …)
    Other(String, String),
    Panic(String),
}

fn strip_ansi(s: &str) -> String {
    let mut out = String::new();
    let mut it = s.chars().peekable();
    while let Some(c) = it.next() {
        if c == '\u{1b}' {
            for d in it.by_ref() {
                if d.is_ascii_alphabetic() {
                    break;
                }
            }
        } else {
            out.push(c);
        }
    }
    out
}

fn first_line(report: &roto::RotoReport) -> String {
    let text = strip_ansi(&format!("{report}"));
    text.lines()
        .find(|l| l.contains("Error:"))
        .map(|l| l.trim().trim_start_matches("Error:").trim().to_string())
        .unwrap_or_default()
}

fn panic_text(e: Box<dyn std::any::Any + Send>) -> String {
    let s = if let Some(s) = e.downcast_ref::<String>() {
        s.clone()
    } else if let Some(s) = e.downcast_ref::<&str>() {
        s.to_string()
    } else {
        "panic".to_string()
    };
    s.lines().next().unwrap_or("").chars().take(160).collect()
}

/// `full`: the whole pipeline (`FileTree::compile`); otherwise parse + type check only
fn compile(rt: &Runtime<NoCtx>, src: &str, full: bool) -> Outcome {
    compile_tree(rt, || FileTree::test_file("c07.roto", src, 0), full)
}

/// the same for any tree of script files (packages of several modules)
fn compile_tree(rt: &Runtime<NoCtx>, tree: impl FnOnce() -> FileTree, full: bool) -> Outcome {
    let r = catch_unwind(AssertUnwindSafe(|| {
        let tree = tree();
        let res = if full { tree.compile(rt).map(|_| ()) } else { typecheck_only(tree, rt) };
        res.map_err(|rep| (report_stage(&rep).to_string(), first_line(&rep)))
    }));
    match r {
        Ok(Ok(())) => Outcome::Ok,
        Ok(Err((stage, line))) if stage == "typechecker" => Outcome::TypeError(line),
        Ok(Err((stage, line))) => Outcome::Other(stage, line),
        Err(e) => Outcome::Panic(panic_text(e)),
    }
}

/// a coarse category of a type error description (for class keys)
fn error_category(line: &str) -> &'static str {
    let l = line;
    let table: [(&str, &str); 24] = [
        ("mismatched types", "mismatched-types"),
        ("declared multiple times", "declared-twice"),
        ("cannot find value", "not-found"),
        ("arguments were given", "arity"),
        ("not exhaustive", "non-exhaustive"),
        ("unreachable", "unreachable"),
        ("does not exist on", "unknown-variant"),
        ("doesn't have one", "pattern-has-fields"),
        ("does have arguments", "pattern-needs-arguments"),
        ("only matching on enums", "match-needs-enum"),
        ("cannot apply `-`", "negate-unsigned"),
        ("expected a numeric value", "not-numeric"),
        ("expected an integer value", "not-integer"),
        ("field mismatch", "field-mismatch"),
        ("field: mismatch", "field-mismatch"),
        ("no field", "no-field"),
        ("recursively defined", "recursive-constant"),
        ("cycle detected", "type-cycle"),
        ("appears multiple times", "duplicate-field-decl"),
        ("can only use `?`", "try-forbidden"),
        ("` here", "cannot-diverge-here"),
        ("cannot assign", "cannot-assign"),
        ("expected a value", "expected-value"),
        ("expected type", "expected-type"),
    ];
    for (needle, cat) in table {
        if l.contains(needle) {
            return cat;
        }
    }
    "other"
}

fn silence_panics() {
    std::panic::set_hook(Box::new(|_| {}));
}

// ------------------------------------------------------------------ programs

fn generate(seed: u64, index: u64) -> (Prog, Prng) {
    let mut p = Prng::for_case(seed, index);
    let prog = {
        let mut g = Gen::new(&mut p);
        g.program()
    };
    (prog, p)
}

fn ask_prog(drv: &mut Driver, prog: &Prog) -> String {
    drv.ask(&format!("c07 prog {}", prog.sexp()))
}

fn prog_case(rt: &Runtime<NoCtx>, drv: &mut Driver, seed: u64, index: u64, rep: &mut Report) {
    let (orig, mut p) = generate(seed, index);
    let src = orig.roto();
    let d_orig = ask_prog(drv, &orig);
    if d_orig != "ok" {
        // the generator (or D) slipped: never an alarm, but visible
        rep.hist("originals", format!("generator-slip:{d_orig}"));
        if rep.notes.len() < 6 {
            rep.notes.push(format!("generator slip (D says `{d_orig}`) seed={seed} index={index}"));
        }
        return;
    }
    match compile(rt, &src, true) {
        Outcome::Ok => rep.hist("originals", "compiled"),
        Outcome::TypeError(line) => {
            rep.hist("originals", "rejected-by-type-checker");
            rep.mismatch(
                "a generated well-typed script (accepted by the declarative checker) is rejected by the type checker",
                json!({"seed": seed, "index": index, "error": line, "src": src}),
            );
            return;
        }
        Outcome::Other(stage, line) => {
            rep.hist("originals", format!("printer-slip:{stage}"));
            if rep.notes.len() < 6 {
                rep.notes.push(format!("printer slip ({stage}: {line}) seed={seed} index={index}"));
            }
            return;
        }
        Outcome::Panic(msg) => {
            // a crash on a well-typed script is C06's business; recorded, not judged here
            rep.hist("originals", "panicked");
            if rep.notes.len() < 6 {
                rep.notes.push(format!("well-typed original panics the compiler ({msg}) seed={seed} index={index}"));
            }
            return;
        }
    }
    for d in &orig.decls {
        if let Decl::Fn { ret, params, .. } = d {
            rep.hist("fn-return-type", ret.tag());
            for (_, t) in params {
                rep.hist("param-type", t.tag());
            }
        }
    }
    rep.hist("program-size", format!("{:>4}-chars", (src.len() / 200) * 200));
    // one type-breaking edit; kinds in rotation so that every kind is exercised
    let start = (index as usize + p.below(KINDS.len() as u64) as usize) % KINDS.len();
    let mut mutant = None;
    for off in 0..KINDS.len() {
        let kind = KINDS[(start + off) % KINDS.len()];
        if let Some(m) = mutate(&mut p, &orig, kind) {
            mutant = Some(m);
            break;
        }
    }
    let Some(m) = mutant else {
        rep.hist("mutants", "no-applicable-edit");
        return;
    };
    let d_mut = ask_prog(drv, &m.prog);
    let Some(rule) = d_mut.strip_prefix("err ") else {
        rep.hist("mutants", format!("not-counted:{}", m.kind));
        if d_mut != "ok" {
            rep.notes.push(format!("driver answered `{d_mut}` for a mutant, seed={seed} index={index}"));
        }
        return;
    };
    let mut msrc = m.prog.roto();
    // a share of the mutants: one DECLARED type spelled as a built-in type the script does not mention
    // (what a declared type is called does not change what is well-typed; D's verdict is on the numbered form)
    let mut shadow = Value::Null;
    if index % 4 == 3 {
        if let Some((s, name, ty)) = c07::shadow::shadow_generated(&msrc, index / 4) {
            rep.hist("shadowed-mutants", name);
            shadow = json!({"type": ty, "spelled": name});
            msrc = s;
        }
    }
    let input = json!({
        "seed": seed, "index": index, "kind": m.kind, "detail": m.detail, "rule": rule,
        "src": msrc, "sexp": m.prog.sexp(), "original": src, "shadow": shadow,
    });
    judge_mutant(rt, &msrc, m.kind, rule, input, rep);
}

/// the oracle of the property on one ill-typed script
fn judge_mutant(rt: &Runtime<NoCtx>, msrc: &str, kind: &str, rule: &str, input: Value, rep: &mut Report) {
    rep.evaluations += 1;
    rep.hist("mutants", format!("counted:{kind}"));
    rep.hist("rule-broken", rule.to_string());
    match compile(rt, msrc, true) {
        Outcome::TypeError(line) => {
            let cat = error_category(&line);
            rep.class(format!("prog:{kind}:{rule}:{cat}"));
            rep.hist("type-error-reported", cat);
            if rep.samples.len() < 4 {
                rep.sample(json!({"kind": kind, "rule": rule, "reported": line, "src": msrc}));
            }
        }
        Outcome::Ok => rep.violation(
            "an ill-typed script compiled (FileTree::compile returned a package)",
            &format!("accepted:{kind}:{rule}"),
            input,
        ),
        Outcome::Panic(msg) => rep.violation(
            &format!("an ill-typed script made the compiler panic instead of reporting a type error: {msg}"),
            &format!("panic:{kind}:{rule}"),
            input,
        ),
        Outcome::Other(stage, line) => {
            rep.hist("mutants", format!("printer-slip:{stage}"));
            if rep.notes.len() < 6 {
                rep.notes.push(format!("mutant printer slip ({stage}: {line}) kind={kind}"));
            }
        }
    }
}

// ------------------------------------------------------------ operator table

const OTYS: [&str; 24] = [
    "u8", "u16", "u32", "u64", "i8", "i16", "i32", "i64", "f32", "f64", "bool", "str", "char", "ip", "prefix",
    "asn", "unit", "listi32", "liststr", "opti32", "record", "intvar", "sintvar", "floatvar",
];

/// (type to declare a parameter with, or a literal expression)
fn oty_src(t: &str, param: &str) -> (Option<&'static str>, String) {
    let ty = match t {
        "u8" => "u8",
        "u16" => "u16",
        "u32" => "u32",
        "u64" => "u64",
        "i8" => "i8",
        "i16" => "i16",
        "i32" => "i32",
        "i64" => "i64",
        "f32" => "f32",
        "f64" => "f64",
        "bool" => "bool",
        "str" => "String",
        "char" => "char",
        "ip" => "IpAddr",
        "prefix" => "Prefix",
        "asn" => "Asn",
        "unit" => "()",
        "listi32" => "List[i32]",
        "liststr" => "List[String]",
        "opti32" => "Option[i32]",
        "record" => "R0",
        "intvar" => return (None, "1".into()),
        "sintvar" => return (None, "(-1)".into()),
        "floatvar" => return (None, "1.5".into()),
        _ => "bool",
    };
    (Some(ty), param.to_string())
}

fn oty_annotation(t: &str) -> Option<&'static str> {
    match t {
        "intvar" | "sintvar" | "floatvar" => None,
        other => oty_src(other, "a").0,
    }
}

fn op_script(expr: &str, l: &str, r: Option<&str>, ann: Option<&str>) -> String {
    let mut params = Vec::new();
    if let (Some(t), _) = oty_src(l, "a") {
        params.push(format!("a: {t}"));
    }
    if let Some(r) = r {
        if let (Some(t), _) = oty_src(r, "b") {
            params.push(format!("b: {t}"));
        }
    }
    let ann = ann.map(|a| format!(": {a}")).unwrap_or_default();
    format!("record R0 {{ x: i32 }}\nfn main({}) {{ let z{ann} = {expr}; }}\n", params.join(", "))
}

fn ops_case(rt: &Runtime<NoCtx>, drv: &mut Driver, index: u64, rep: &mut Report) {
    let nb = (Op::ALL.len() * OTYS.len() * OTYS.len()) as u64;
    let (what, expr, l, r, model, doc): (String, String, &str, Option<&str>, String, Option<String>) = if index < nb {
        let op = Op::ALL[(index / (OTYS.len() * OTYS.len()) as u64) as usize];
        let l = OTYS[((index / OTYS.len() as u64) % OTYS.len() as u64) as usize];
        let r = OTYS[(index % OTYS.len() as u64) as usize];
        let a = oty_src(l, "a").1;
        let b = oty_src(r, "b").1;
        let model = drv.ask(&format!("c07 op {} {l} {r}", op.sexp()));
        let doc = drv.ask(&format!("c07 opdoc {} {l} {r}", op.sexp()));
        (format!("{}:{l}:{r}", op.sexp()), format!("{a} {} {b}", op.roto()), l, Some(r), model, Some(doc))
    } else {
        let j = index - nb;
        let l = OTYS[(j % OTYS.len() as u64) as usize];
        let a = oty_src(l, "a").1;
        if j < OTYS.len() as u64 {
            (format!("neg:{l}"), format!("-{a}"), l, None, drv.ask(&format!("c07 neg {l}")), None)
        } else {
            (format!("not:{l}"), format!("!{a}"), l, None, drv.ask(&format!("c07 not {l}")), None)
        }
    };
    rep.evaluations += 1;
    let src = op_script(&expr, l, r, None);
    let real = compile(rt, &src, false);
    let model_ok = model.starts_with("ok");
    let input = json!({"table": what, "src": src, "model": model});
    match &real {
        Outcome::Ok | Outcome::TypeError(_) => {}
        other => {
            rep.mismatch(&format!("operator table script did not reach a verdict: {other:?}"), input);
            return;
        }
    }
    let real_ok = real == Outcome::Ok;
    if real_ok != model_ok {
        rep.mismatch(
            &format!("TcRules operator table says `{model}`, the type checker {}", if real_ok { "accepts" } else { "rejects" }),
            input.clone(),
        );
    }
    if real_ok {
        if doc.as_deref() == Some("rej") {
            rep.violation(
                "the type checker accepts an operator on operand types the documented rules forbid",
                &format!("op-accepted:{}", what.split(':').next().unwrap_or("")),
                input.clone(),
            );
        }
        // the type of the result
        if let Some(t) = model.strip_prefix("ok ") {
            if let Some(ann) = oty_annotation(t) {
                let good = compile(rt, &op_script(&expr, l, r, Some(ann)), false);
                let wrong = if ann == "bool" { "i32" } else { "bool" };
                let bad = compile(rt, &op_script(&expr, l, r, Some(wrong)), false);
                if good != Outcome::Ok || !matches!(bad, Outcome::TypeError(_)) {
                    rep.mismatch(
                        &format!("TcRules says the result type is `{t}`; annotated `{ann}`: {good:?}, annotated `{wrong}`: {bad:?}"),
                        input.clone(),
                    );
                }
            }
        }
        rep.class(format!("ops:{what}:accepted"));
    } else if let Outcome::TypeError(line) = &real {
        rep.class(format!("ops:{}:{}", what.split(':').next().unwrap_or(""), error_category(line)));
    }
    rep.hist("operator-table", if real_ok { "accepted" } else { "rejected" });
}

fn ops_total() -> u64 {
    (Op::ALL.len() * OTYS.len() * OTYS.len() + 2 * OTYS.len()) as u64
}

// ------------------------------------------------------------ match bookkeeping

fn match_case(rt: &Runtime<NoCtx>, drv: &mut Driver, seed: u64, index: u64, rep: &mut Report) {
    let mut p = Prng::for_case(seed ^ 0x6d61_7463, index);
    // the enum (or Option)
    let use_option = p.chance(1, 4);
    let variants: Vec<(String, usize)> = if use_option {
        vec![("some".into(), 1), ("none".into(), 0)]
    } else {
        let n = 1 + p.below(4);
        (0..n).map(|i| (format!("K{i}"), p.below(3) as usize)).collect()
    };
    let roto_name = |n: &str| match n {
        "some" => "Some".to_string(),
        "none" => "None".to_string(),
        k => k.to_string(),
    };
    let narms = p.below(6);
    let mut arm_specs = Vec::new();
    let mut arm_src = String::new();
    for _ in 0..narms {
        let guarded = p.chance(1, 5);
        let g = if guarded { "g" } else { "" };
        let gs = if guarded { " if g" } else { "" };
        if p.chance(1, 6) {
            arm_specs.push(format!("_{g}"));
            arm_src.push_str(&format!("_{gs} => {{ 1 }} "));
            continue;
        }
        let (name, arity) = if p.chance(1, 12) {
            (if use_option { "K7".to_string() } else { "K9".to_string() }, p.below(2) as usize)
        } else {
            p.pick(&variants).clone()
        };
        // binders: usually right, sometimes not
        let k = match p.below(10) {
            0 => arity + 1,
            1 if arity > 0 => arity - 1,
            _ => arity,
        };
        let none_form = k == 0 && p.chance(9, 10) || (arity > 0 && p.chance(1, 15));
        if none_form {
            arm_specs.push(format!("{name}:n{g}"));
            arm_src.push_str(&format!("{}{gs} => {{ 1 }} ", roto_name(&name)));
        } else {
            let dup = k >= 2 && p.chance(1, 8);
            let binders: Vec<String> = (0..k).map(|i| if dup && i == 1 { "x0".to_string() } else { format!("x{i}") }).collect();
            arm_specs.push(format!("{name}:b{k}{}{g}", if dup { ":dup" } else { "" }));
            arm_src.push_str(&format!("{}({}){gs} => {{ 1 }} ", roto_name(&name), binders.join(", ")));
        }
    }
    let vs_spec: Vec<String> = variants.iter().map(|(n, k)| format!("{n}:{k}")).collect();
    let (decl, ty) = if use_option {
        (String::new(), "Option[i32]".to_string())
    } else {
        let vs: Vec<String> = variants
            .iter()
            .map(|(n, k)| if *k == 0 { n.clone() } else { format!("{n}({})", vec!["i32"; *k].join(", ")) })
            .collect();
        (format!("enum E {{ {} }}\n", vs.join(", ")), "E".to_string())
    };
    let src = format!("{decl}fn main(x: {ty}, g: bool) -> i32 {{ match x {{ {arm_src}}} }}\n");
    let arms_arg = if arm_specs.is_empty() { "-".to_string() } else { arm_specs.join(",") };
    let answer = drv.ask(&format!("c07 match {} {arms_arg}", vs_spec.join(",")));
    let (model, doc) = answer.split_once(" ; ").unwrap_or((&answer, ""));
    rep.evaluations += 1;
    let real = compile(rt, &src, false);
    let input = json!({"seed": seed, "index": index, "src": src, "variants": vs_spec, "arms": arm_specs, "model": answer});
    let real_cat = match &real {
        Outcome::Ok => "ok".to_string(),
        Outcome::TypeError(line) => format!("err {}", match error_category(line) {
            "unreachable" => "unreachable",
            "unknown-variant" => "unknown-variant",
            "pattern-has-fields" => "no-fields",
            "arity" => "arity",
            "pattern-needs-arguments" => "need-arguments",
            "declared-twice" => "declared-twice",
            "non-exhaustive" => "non-exhaustive",
            other => other,
        }),
        other => {
            rep.mismatch(&format!("match script did not reach a verdict: {other:?}"), input);
            return;
        }
    };
    if real_cat != model {
        rep.mismatch(&format!("TcRules.matchReal says `{model}`, the type checker says `{real_cat}`"), input.clone());
    }
    if real == Outcome::Ok {
        if let Some(rule) = doc.strip_prefix("doc err ") {
            let mut input = input.clone();
            input["rule"] = json!(rule);
            rep.violation(
                "the type checker accepts a match the documented rules forbid",
                &format!("accepted:match-table:{rule}"),
                input,
            );
        }
    }
    rep.class(format!("match:{}:{}:{}", variants.len(), arm_specs.len().min(4), real_cat));
    rep.hist("match-table", real_cat);
}

// ------------------------------------------------------------ corpus

/// `corpus/C07/*.reject.roto` must be rejected with a type error report,
/// `*.accept.roto` must compile: the minimal witnesses of the defects found
/// so far and their well-typed neighbours. Replayed first on every run.
fn corpus_files() -> Vec<std::path::PathBuf> {
    let dir = std::env::var("C07_CORPUS").map(std::path::PathBuf::from).unwrap_or_else(|_| std::path::PathBuf::from("corpus/C07"));
    let mut v: Vec<_> = std::fs::read_dir(&dir)
        .map(|d| d.filter_map(|e| e.ok()).map(|e| e.path()).filter(|p| p.extension().map(|x| x == "roto").unwrap_or(false)).collect())
        .unwrap_or_default();
    v.sort();
    v
}

fn corpus_case(rt: &Runtime<NoCtx>, index: u64, rep: &mut Report) {
    let files = corpus_files();
    let Some(path) = files.get(index as usize) else { return };
    let name = path.file_name().unwrap().to_string_lossy().to_string();
    let src = std::fs::read_to_string(path).unwrap_or_default();
    let must_reject = name.ends_with(".reject.roto");
    let real = compile(rt, &src, true);
    rep.evaluations += 1;
    let input = json!({"corpus": name, "src": src, "expect": if must_reject { "type-error" } else { "compiles" }});
    match (&real, must_reject) {
        (Outcome::TypeError(line), true) => rep.class(format!("corpus:{name}:{}", error_category(line))),
        (Outcome::Ok, false) => rep.class(format!("corpus:{name}:compiles")),
        (Outcome::Ok, true) => rep.violation("an ill-typed script of the corpus compiled", &format!("accepted:corpus:{name}"), input),
        (Outcome::Panic(msg), true) => rep.violation(
            &format!("an ill-typed script of the corpus made the compiler panic: {msg}"),
            &format!("panic:corpus:{name}"),
            input,
        ),
        (other, _) => rep.mismatch(&format!("corpus script `{name}`: {other:?}"), input),
    }
    rep.hist("corpus", if must_reject { "must be rejected" } else { "must compile" });
}

// ------------------------------------------------------------ assignment targets

/// the context of the scripts of the assignment-target table
#[derive(Clone, Context)]
struct C07Ctx {
    pub cx: u64,
}

/// "Any local variable can be overwritten with an assignment" — and nothing
/// else: every kind of thing a path can name, as the target of `=` and `+=`.
/// (what, kind for the model or `-` if it is not a value at all, script)
fn assign_targets() -> Vec<(&'static str, &'static str, String)> {
    let mut out = Vec::new();
    for (op, tag) in [("=", "assign"), ("+=", "cassign")] {
        let t = |what: &'static str, kind: &'static str, pre: &str, params: &str, body: &str| {
            (what, kind, format!("{pre}fn main({params}) {{ {body} }}\n").replace("OP", op))
        };
        let _ = tag;
        out.push(t("let-variable", "local", "", "", "let x = 1u64; x OP 2u64;"));
        out.push(t("parameter", "local", "", "x: u64", "x OP 2u64;"));
        out.push(t("for-variable", "local", "", "", "for x in [1u64] { x OP 2u64; };"));
        out.push(t("match-binder", "local", "", "o: Option[u64]", "match o { Some(x) => { x OP 2u64; } None => { } };"));
        out.push(t("field-of-parameter", "local", "record R { a: u64 }\n", "r: R", "r.a OP 2u64;"));
        out.push(t("field-of-field", "local", "record R { a: u64 }\nrecord S { r: R }\n", "s: S", "s.r.a OP 2u64;"));
        out.push(t("outer-variable-from-block", "local", "", "", "let x = 1u64; if true { x OP 2u64; };"));
        out.push(t("constant", "constant", "const K: u64 = 1;\n", "", "K OP 2u64;"));
        out.push(t("constant-in-nested-block", "constant", "const K: u64 = 1;\n", "", "while false { if true { K OP 2u64; }; };"));
        out.push(t("field-of-constant", "constant", "record R { a: u64 }\nconst K: R = R { a: 1 };\n", "", "K.a OP 2u64;"));
        out.push(t("context-variable", "context", "", "", "cx OP 2u64;"));
        out.push(t("context-variable-in-match-arm", "context", "", "o: Option[u64]", "match o { Some(x) => { cx OP x; } None => { } };"));
        out.push(t("function-name", "-", "fn f() { }\n", "", "f OP 2u64;"));
        out.push(t("enum-constructor", "-", "", "", "Option.None OP 2u64;"));
    }
    out
}

fn assign_case(drv: &mut Driver, index: u64, rep: &mut Report) {
    let table = assign_targets();
    let Some((what, kind, src)) = table.get(index as usize) else { return };
    let compound = index as usize >= table.len() / 2;
    let rt = Runtime::new().with_context_type::<C07Ctx>().expect("context type");
    let real = match catch_unwind(AssertUnwindSafe(|| {
        FileTree::test_file("c07.roto", src, 0)
            .compile(&rt)
            .map(|_| ())
            .map_err(|rep| (report_stage(&rep).to_string(), first_line(&rep)))
    })) {
        Ok(Ok(())) => Outcome::Ok,
        Ok(Err((stage, line))) if stage == "typechecker" => Outcome::TypeError(line),
        Ok(Err((stage, line))) => Outcome::Other(stage, line),
        Err(e) => Outcome::Panic(panic_text(e)),
    };
    rep.evaluations += 1;
    let input = json!({"assign-target": what, "compound": compound, "src": src});
    // the model (TcRules.assignAccepts, parameterised by the regenerated facts)
    let model_ok = if *kind == "-" {
        false
    } else {
        drv.ask(&format!("c07 assign {} {kind}", compound as u8)) == "ok"
    };
    let doc_ok = *kind == "local";
    match &real {
        Outcome::Ok | Outcome::TypeError(_) => {}
        Outcome::Panic(msg) if !doc_ok => {
            rep.violation(
                &format!("assignment to something that is not a local variable made the compiler panic: {msg}"),
                &format!("panic:assign-target:{what}"),
                input,
            );
            return;
        }
        other => {
            rep.mismatch(&format!("assignment-target script did not reach a verdict: {other:?}"), input);
            return;
        }
    }
    let real_ok = real == Outcome::Ok;
    if real_ok != model_ok {
        rep.mismatch(
            &format!("TcRules.assignAccepts says {}, the compiler {}", if model_ok { "accept" } else { "reject" }, if real_ok { "accepts" } else { "rejects" }),
            input.clone(),
        );
    }
    if real_ok && !doc_ok {
        rep.violation(
            "assignment to something that is not a local variable compiled",
            &format!("accepted:assign-target:{what}"),
            input.clone(),
        );
    }
    if !real_ok && doc_ok {
        rep.mismatch("assignment to a local variable is rejected", input);
    }
    rep.class(format!("assign:{what}:{}:{}", compound, if real_ok { "accepted" } else { "rejected" }));
    rep.hist("assignment-targets", if real_ok { "accepted" } else { "rejected" });
}

// ------------------------------------------------------------ literal variables

/// Variables bound to unsuffixed literals: the manual leaves their type to
/// inference, but one type per variable. A random set of constraints (alias,
/// unary minus, uses at a type, comparisons) is rendered as Roto in varied
/// syntactic forms; the Lean side decides typability by trying ALL assignments
/// of types (`Typing.ltypable`, no inference). Both directions are compared.
fn lit_case(rt: &Runtime<NoCtx>, drv: &mut Driver, seed: u64, index: u64, rep: &mut Report) {
    let mut p = Prng::for_case(seed ^ 0x6c69_7476, index);
    let nvars = 1 + p.below(3) as usize;
    let tys = ["u8", "u16", "u32", "u64", "i8", "i16", "i32", "i64", "f32", "f64"];
    let mut spec: Vec<String> = Vec::new();
    let mut body = String::new();
    let mut params: Vec<String> = Vec::new();
    let mut helpers = String::new();
    let mut kinds: Vec<&str> = Vec::new();
    // declarations: a literal, or an alias of an earlier variable
    let mut is_float = vec![false; nvars];
    for x in 0..nvars {
        if x > 0 && p.chance(1, 3) {
            let y = p.below(x as u64) as usize;
            spec.push(format!("a{x}={y}"));
            body.push_str(&format!("let y{x} = y{y}; "));
            is_float[x] = is_float[y];
            kinds.push("alias");
        } else if p.chance(1, 5) {
            spec.push(format!("f{x}"));
            body.push_str(&format!("let y{x} = 1.5; "));
            is_float[x] = true;
        } else {
            spec.push(format!("l{x}"));
            body.push_str(&format!("let y{x} = {}; ", 1 + p.below(9)));
        }
    }
    let nstmts = 1 + p.below(4);
    for k in 0..nstmts {
        let x = p.below(nvars as u64) as usize;
        match p.below(7) {
            0 | 1 => {
                spec.push(format!("n{x}"));
                match p.below(3) {
                    0 => body.push_str(&format!("let n{k} = -y{x}; ")),
                    1 => body.push_str(&format!("-y{x}; ")),
                    _ => body.push_str(&format!("let n{k} = (-y{x}) * (-y{x}); ")),
                }
                kinds.push("neg");
            }
            2 if nvars > 1 => {
                let y = p.below(nvars as u64) as usize;
                spec.push(format!("c{x}:{y}"));
                let op = *p.pick(&["<", "==", ">=", "!="]);
                body.push_str(&format!("let c{k} = y{x} {op} y{y}; "));
                kinds.push("cmp");
            }
            _ => {
                // a use at a type: mostly of the literal's own class
                let t = if p.chance(5, 6) {
                    if is_float[x] { tys[8 + p.below(2) as usize] } else { tys[p.below(8) as usize] }
                } else {
                    *p.pick(&tys)
                };
                spec.push(format!("u{x}:{t}"));
                match p.below(7) {
                    0 => {
                        params.push(format!("a{k}: {t}"));
                        body.push_str(&format!("let u{k} = y{x} + a{k}; "));
                    }
                    1 => {
                        params.push(format!("a{k}: {t}"));
                        body.push_str(&format!("let u{k} = a{k} * y{x}; "));
                    }
                    2 => {
                        helpers.push_str(&format!("fn g{k}(p: {t}) {{ }}\n"));
                        body.push_str(&format!("g{k}(y{x}); "));
                    }
                    3 => {
                        params.push(format!("a{k}: {t}"));
                        body.push_str(&format!("let u{k} = [a{k}, y{x}]; "));
                    }
                    4 => {
                        params.push(format!("a{k}: {t}"));
                        body.push_str(&format!("let u{k} = y{x} == a{k}; "));
                    }
                    5 => body.push_str(&format!("let u{k}: {t} = y{x}; ")),
                    _ => {
                        params.push(format!("a{k}: {t}"));
                        body.push_str(&format!("a{k} = y{x}; "));
                    }
                }
                kinds.push("use");
            }
        }
    }
    let src = format!("{helpers}fn main({}) {{ {body}}}\n", params.join(", "));
    let answer = drv.ask(&format!("c07 lit {nvars} {}", spec.join(",")));
    let real = compile(rt, &src, false);
    rep.evaluations += 1;
    kinds.sort();
    kinds.dedup();
    let input = json!({"seed": seed, "index": index, "src": src, "lit": spec.join(","), "nvars": nvars, "model": answer});
    match (&real, answer.as_str()) {
        (Outcome::Ok, "typable") | (Outcome::TypeError(_), "untypable") => {}
        (Outcome::Ok, "untypable") => rep.violation(
            "a script whose literal variables have no consistent type compiled",
            &format!("accepted:litvars:{}", kinds.join("+")),
            input,
        ),
        (Outcome::TypeError(line), "typable") => rep.mismatch(
            &format!("a script whose literal variables have a consistent type is rejected: {line}"),
            input,
        ),
        (other, a) => rep.mismatch(&format!("literal-variable script: model `{a}`, compiler {other:?}"), input),
    }
    rep.class(format!("lit:{}:{}:{}", nvars, kinds.join("+"), answer));
    rep.hist("literal-variables", answer);
}

// ------------------------------------------------------------ declarations

/// Items of one module and the variables of one function, with names drawn
/// from a small pool so that they collide: `TcRules.insertDecl` (the model of
/// `ScopeGraph::insert_declaration`, keyed by (scope, name) whatever the kind)
/// against the real checker's "declared multiple times".
fn decl_case(rt: &Runtime<NoCtx>, drv: &mut Driver, seed: u64, index: u64, rep: &mut Report) {
    let mut p = Prng::for_case(seed ^ 0x6465_636c, index);
    let mut src = String::new();
    let mut stubs: Vec<String> = Vec::new();
    let mut defs: Vec<String> = Vec::new();
    let nitems = p.below(4);
    let mut next_scope = 1u64;
    for _ in 0..nitems {
        let name = p.below(3);
        match p.below(4) {
            0 => {
                src.push_str(&format!("fn q{name}() {{ }}\n"));
                stubs.push(format!("0:{name}:fnstub"));
                defs.push(format!("0:{name}:fn"));
            }
            1 => {
                src.push_str(&format!("const q{name}: i32 = 1;\n"));
                stubs.push(format!("0:{name}:conststub"));
                defs.push(format!("0:{name}:const"));
            }
            2 => {
                src.push_str(&format!("record q{name} {{ a: i32 }}\n"));
                stubs.push(format!("0:{name}:typestub0"));
                defs.push(format!("0:{name}:type0"));
            }
            _ => {
                // an enum: its variants live in the type's own scope
                let sc = next_scope;
                next_scope += 1;
                let nv = 1 + p.below(3);
                let vs: Vec<u64> = (0..nv).map(|_| 10 + p.below(2)).collect();
                src.push_str(&format!("enum q{name} {{ {} }}\n", vs.iter().map(|v| format!("W{v}")).collect::<Vec<_>>().join(", ")));
                stubs.push(format!("0:{name}:typestub0"));
                for v in &vs {
                    stubs.push(format!("{sc}:{v}:variantstub"));
                }
                defs.push(format!("0:{name}:type0"));
                for v in &vs {
                    defs.push(format!("{sc}:{v}:variant"));
                }
            }
        }
    }
    // one function: parameters and the top level of the body share a scope;
    // every nested block is a scope of its own
    let fscope = next_scope;
    next_scope += 1;
    let mut locals: Vec<String> = Vec::new();
    let np = p.below(3);
    let params: Vec<u64> = (0..np).map(|_| 20 + p.below(3)).collect();
    for x in &params {
        locals.push(format!("{fscope}:{x}:local"));
    }
    let mut body = String::new();
    let mut stack = vec![fscope];
    let nst = p.below(6);
    for _ in 0..nst {
        match p.below(5) {
            0 if stack.len() < 3 => {
                body.push_str("if true { ");
                stack.push(next_scope);
                next_scope += 1;
            }
            1 if stack.len() > 1 => {
                body.push_str("}; ");
                stack.pop();
            }
            _ => {
                let x = 20 + p.below(3);
                body.push_str(&format!("let w{x} = 1; "));
                locals.push(format!("{}:{x}:local", stack.last().unwrap()));
            }
        }
    }
    while stack.len() > 1 {
        body.push_str("}; ");
        stack.pop();
    }
    src.push_str(&format!(
        "fn main({}) {{ {body}}}\n",
        params.iter().map(|x| format!("w{x}: i32")).collect::<Vec<_>>().join(", ")
    ));
    stubs.push("0:99:fnstub".into());
    defs.push("0:99:fn".into());
    let all: Vec<String> = stubs.into_iter().chain(defs).chain(locals).collect();
    let answer = drv.ask(&format!("c07 decl {}", all.join(",")));
    let real = compile(rt, &src, false);
    rep.evaluations += 1;
    let input = json!({"seed": seed, "index": index, "src": src, "decl": all.join(","), "model": answer});
    let model_ok = answer == "ok";
    match &real {
        Outcome::Ok if model_ok => {}
        Outcome::TypeError(line) if !model_ok && error_category(line) == "declared-twice" => {}
        Outcome::Ok => rep.violation(
            "a script that declares a name twice in one scope compiled",
            "accepted:redeclaration-table",
            input,
        ),
        other => rep.mismatch(&format!("TcRules.insertDecl says `{answer}`, the compiler {other:?}"), input),
    }
    rep.class(format!("decl:{}:{}:{}", nitems, params.len(), answer.split(' ').next().unwrap_or("")));
    rep.hist("declaration-table", if model_ok { "accepted" } else { "declared twice" });
}

// ------------------------------------------------------------ anonymous records

/// Record literals `{ a: 1, b: true }` (record variables of the checker) used
/// where a record type is expected — an annotation, a named record, a
/// parameter, through a variable —, their fields read and assigned. The Lean
/// side decides with `Typing.recLitFits` / `recFieldFits`; both directions are
/// compared (a permuted literal must be accepted).
fn rec_case(rt: &Runtime<NoCtx>, drv: &mut Driver, seed: u64, index: u64, rep: &mut Report) {
    let mut p = Prng::for_case(seed ^ 0x7265_6376, index);
    let scalar = ["i32", "u8", "i64", "bool", "String", "f64"];
    let lean_ty = |t: &str| if t == "String" { "str".to_string() } else { t.to_string() };
    // the record type: 1‥3 fields
    let nf = 1 + p.below(3) as usize;
    let target: Vec<(usize, &str)> = (0..nf).map(|i| (i, *p.pick(&scalar))).collect();
    // a literal value of (usually) the field's type: (source text, type token for the judge)
    let value = |p: &mut Prng, t: &str, right: bool| -> (String, String) {
        let t = if right { t } else { *p.pick(&scalar) };
        match t {
            "bool" => ("true".into(), "bool".into()),
            "String" => ("\"s\"".into(), "str".into()),
            "f64" => {
                if p.chance(1, 2) { ("1.5".into(), "float_".into()) } else { ("1.5f64".into(), "f64".into()) }
            }
            int => {
                if p.chance(1, 2) { ("7".into(), "int_".into()) } else { (format!("7{int}"), int.to_string()) }
            }
        }
    };
    // the literal: usually the same fields, permuted; sometimes one missing / extra / repeated / of another type
    let mut lit: Vec<(usize, String, String)> = target
        .iter()
        .map(|(f, t)| {
            let right = !p.chance(1, 6);
            let (src, ty) = value(&mut p, t, right);
            (*f, src, ty)
        })
        .collect();
    match p.below(10) {
        0 if lit.len() > 1 => {
            lit.pop();
        }
        1 => {
            let (src, ty) = value(&mut p, "i32", true);
            lit.push((7, src, ty));
        }
        2 => {
            let d = lit[0].clone();
            lit.push(d);
        }
        _ => {}
    }
    if p.chance(1, 2) {
        lit.reverse();
    }
    let lit_src = format!("{{ {} }}", lit.iter().map(|(f, s, _)| format!("a{f}: {s}")).collect::<Vec<_>>().join(", "));
    let lit_spec = if lit.is_empty() { "-".to_string() } else { lit.iter().map(|(f, _, t)| format!("{f}:{t}")).collect::<Vec<_>>().join(",") };
    let target_ty = format!("{{ {} }}", target.iter().map(|(f, t)| format!("a{f}: {t}")).collect::<Vec<_>>().join(", "));
    let target_spec = target.iter().map(|(f, t)| format!("{f}:{}", lean_ty(t))).collect::<Vec<_>>().join(",");
    let named = format!("record R {{ {} }}\n", target.iter().map(|(f, t)| format!("a{f}: {t}")).collect::<Vec<_>>().join(", "));
    let form = p.below(8);
    let (what, src, request) = match form {
        0 => ("annotation", format!("fn main() {{ let s: {target_ty} = {lit_src}; }}\n"), format!("c07 rec fits {lit_spec} {target_spec}")),
        1 => ("named-record", format!("{named}fn main() {{ let s: R = {lit_src}; }}\n"), format!("c07 rec fits {lit_spec} {target_spec}")),
        2 => ("argument", format!("fn g(x: {target_ty}) {{ }}\nfn main() {{ g({lit_src}); }}\n"), format!("c07 rec fits {lit_spec} {target_spec}")),
        3 => ("argument-named", format!("{named}fn g(x: R) {{ }}\nfn main() {{ g({lit_src}); }}\n"), format!("c07 rec fits {lit_spec} {target_spec}")),
        4 => ("through-variable", format!("{named}fn main() {{ let r = {lit_src}; let s: R = r; }}\n"), format!("c07 rec fits {lit_spec} {target_spec}")),
        5 => ("returned", format!("fn main() -> {target_ty} {{ {lit_src} }}\n"), format!("c07 rec fits {lit_spec} {target_spec}")),
        6 => {
            let f = if p.chance(1, 6) { 7 } else { target[p.below(nf as u64) as usize].0 };
            let t = if p.chance(3, 4) { target.iter().find(|x| x.0 == f).map(|x| x.1).unwrap_or("i32") } else { *p.pick(&scalar) };
            ("field-read", format!("fn main() {{ let r = {lit_src}; let u: {t} = r.a{f}; }}\n"), format!("c07 rec field {lit_spec} {f} {}", lean_ty(t)))
        }
        _ => {
            let f = if p.chance(1, 6) { 7 } else { target[p.below(nf as u64) as usize].0 };
            let ft = target.iter().find(|x| x.0 == f).map(|x| x.1).unwrap_or("i32");
            let right = p.chance(3, 4);
            let (vsrc, vty) = value(&mut p, ft, right);
            ("field-assigned", format!("fn main() {{ let r = {lit_src}; r.a{f} = {vsrc}; }}\n"), format!("c07 rec field {lit_spec} {f} {vty}"))
        }
    };
    let answer = drv.ask(&request);
    let real = compile(rt, &src, false);
    rep.evaluations += 1;
    let input = json!({"seed": seed, "index": index, "src": src, "rec": request, "model": answer});
    match (&real, answer.as_str()) {
        (Outcome::Ok, "typable") | (Outcome::TypeError(_), "untypable") => {}
        (Outcome::Ok, "untypable") => rep.violation(
            "a record literal that does not fit the expected record type compiled",
            &format!("accepted:record-literal:{what}"),
            input,
        ),
        (Outcome::TypeError(line), "typable") => rep.mismatch(
            &format!("a record literal that fits the expected record type is rejected: {line}"),
            input,
        ),
        (other, a) => rep.mismatch(&format!("record-literal script: model `{a}`, compiler {other:?}"), input),
    }
    rep.class(format!("rec:{what}:{}:{}", lit.len().min(4), answer));
    rep.hist("record-literals", format!("{what}:{answer}"));
}

// ------------------------------------------------------------ generic instantiation

/// Type parameters of a user enum, of `Option` / `List` and of the generic
/// list methods must be instantiated consistently. The harness knows which
/// pairs of types a script equates; the Lean side decides each pair with
/// `Typing.compat`. Both directions are compared.
fn gen_case(rt: &Runtime<NoCtx>, drv: &mut Driver, seed: u64, index: u64, rep: &mut Report) {
    let mut p = Prng::for_case(seed ^ 0x6765_6e76, index);
    let scalar = ["i32", "u8", "i64", "bool", "String", "f64"];
    let lean_ty = |t: &str| if t == "String" { "str".to_string() } else { t.to_string() };
    let value = |p: &mut Prng, t: &str, right: bool| -> (String, String) {
        let t = if right { t } else { *p.pick(&scalar) };
        match t {
            "bool" => ("true".into(), "bool".into()),
            "String" => ("\"s\"".into(), "str".into()),
            "f64" => {
                if p.chance(1, 2) { ("1.5".into(), "float_".into()) } else { ("1.5f64".into(), "f64".into()) }
            }
            int => {
                if p.chance(1, 2) { ("7".into(), "int_".into()) } else { (format!("7{int}"), int.to_string()) }
            }
        }
    };
    let t1 = *p.pick(&scalar);
    let t2 = *p.pick(&scalar);
    let r1 = !p.chance(1, 4);
    let r2 = !p.chance(1, 4);
    let (v1, vt1) = value(&mut p, t1, r1);
    let (v2, vt2) = value(&mut p, t2, r2);
    let u = if p.chance(3, 4) { t1 } else { *p.pick(&scalar) };
    let w = if p.chance(3, 4) { t2 } else { *p.pick(&scalar) };
    let e = "enum E[A, B] { L(A), R(B), N }\n";
    let (what, src, pairs): (&str, String, String) = match p.below(13) {
        0 => ("ctor-annotated", format!("{e}fn main() {{ let x: E[{t1}, {t2}] = E.L({v1}); }}\n"), format!("{vt1}:{}", lean_ty(t1))),
        1 => ("ctor-through-variable", format!("{e}fn main() {{ let x = E.R({v2}); let y: E[{t1}, {t2}] = x; }}\n"), format!("{vt2}:{}", lean_ty(t2))),
        2 => (
            "ctor-branches",
            format!("{e}fn main(c: bool) {{ let x = if c {{ E.L({v1}) }} else {{ E.R({v2}) }}; let y: E[{t1}, {t2}] = x; }}\n"),
            format!("{vt1}:{},{vt2}:{}", lean_ty(t1), lean_ty(t2)),
        ),
        3 => (
            "match-binders",
            format!("{e}fn main(x: E[{t1}, {t2}]) {{ match x {{ L(a) => {{ let u: {u} = a; }} R(b) => {{ let w: {w} = b; }} N => {{ }} }}; }}\n"),
            format!("{}:{},{}:{}", lean_ty(t1), lean_ty(u), lean_ty(t2), lean_ty(w)),
        ),
        4 => {
            let (v3, vt3) = value(&mut p, t1, r2);
            ("list-literal", format!("fn main() {{ let l = [{v1}, {v3}]; let y: List[{t1}] = l; }}\n"), format!("{vt1}:{},{vt3}:{},{vt1}:{vt3}", lean_ty(t1), lean_ty(t1)))
        }
        5 => ("list-push", format!("fn main(l: List[{t1}]) {{ l.push({v1}); }}\n"), format!("{vt1}:{}", lean_ty(t1))),
        6 => ("list-get", format!("fn main(l: List[{t1}]) {{ let g: Option[{u}] = l.get(0); }}\n"), format!("{}:{}", lean_ty(t1), lean_ty(u))),
        7 => ("list-contains", format!("fn main(l: List[{t1}]) {{ let c: bool = l.contains({v1}); }}\n"), format!("{vt1}:{}", lean_ty(t1))),
        8 => ("option-some", format!("fn main() {{ let o = Option.Some({v1}); let y: Option[{t1}] = o; }}\n"), format!("{vt1}:{}", lean_ty(t1))),
        9 => ("nested", format!("fn main() {{ let o: Option[List[{t1}]] = Option.Some([{v1}]); }}\n"), format!("{vt1}:{}", lean_ty(t1))),
        10 => ("type-arity", format!("{e}fn main() {{ let x: E[{t1}] = E.N; }}\n"), "never".to_string()),
        11 => ("list-concat", format!("fn main(l: List[{t1}], m: List[{u}]) {{ let n = l + m; }}\n"), format!("{}:{}", lean_ty(t1), lean_ty(u))),
        _ => (
            "ctor-in-list",
            format!("{e}fn main() {{ let l: List[E[{t1}, {t2}]] = [E.L({v1}), E.N, E.R({v2})]; }}\n"),
            format!("{vt1}:{},{vt2}:{}", lean_ty(t1), lean_ty(t2)),
        ),
    };
    // … and the accept / reject types of a filtermap (inferred) or of a
    // function returning an explicit Verdict
    let (what, src, pairs) = if p.chance(1, 4) {
        let (v3, vt3) = value(&mut p, t1, r2);
        let (v4, vt4) = value(&mut p, t2, r1);
        match p.below(5) {
            0 => (
                "filtermap-two-accepts",
                format!("filtermap fm(c: bool) {{ if c {{ accept {v1} }}; if !c {{ reject {v2} }}; accept {v3} }}\n"),
                format!("{vt1}:{vt3}"),
            ),
            1 => (
                "filtermap-two-rejects",
                format!("filtermap fm(c: bool) {{ if c {{ reject {v2} }}; if !c {{ accept {v1} }}; reject {v4} }}\n"),
                format!("{vt2}:{vt4}"),
            ),
            2 => (
                "filtermap-accept-with-and-without-value",
                format!("filtermap fm(c: bool) {{ if c {{ accept {v1} }}; accept }}\n"),
                format!("{vt1}:unit"),
            ),
            3 => (
                "verdict-function",
                format!("fn f(c: bool) -> Verdict[{t1}, {t2}] {{ if c {{ accept {v1} }}; reject {v2} }}\n"),
                format!("{vt1}:{},{vt2}:{}", lean_ty(t1), lean_ty(t2)),
            ),
            _ => (
                "filtermap-result-used",
                format!("filtermap fm(c: bool) {{ if c {{ accept {v1} }}; reject {v2} }}\nfn g(c: bool) -> Verdict[{t1}, {t2}] {{ fm(c) }}\n"),
                format!("{vt1}:{},{vt2}:{}", lean_ty(t1), lean_ty(t2)),
            ),
        }
    } else {
        (what, src, pairs)
    };
    // … and the never type `!`: "an uninhabited type, meaning that it cannot
    // be constructed" — no value fits where `!` is expected (a diverging
    // expression does)
    let (what, src, pairs) = if p.chance(1, 6) {
        let ret = t1;
        let (rv, _) = value(&mut p, ret, true);
        match p.below(7) {
            0 => ("never-let-value", format!("fn main() {{ let x: ! = {v1}; }}\n"), "never".to_string()),
            1 => ("never-returned-value", format!("fn f() -> ! {{ {v1} }}\n"), "never".to_string()),
            2 => ("never-argument-value", format!("fn g(x: !) {{ }}\nfn main() {{ g({v1}); }}\n"), "never".to_string()),
            3 => ("never-option-some", format!("fn main() {{ let x: Option[!] = Option.Some({v1}); }}\n"), "never".to_string()),
            4 => ("never-falls-off-the-end", "fn f() -> ! { }\n".to_string(), "never".to_string()),
            5 => ("never-let-diverging", format!("fn main() -> {ret} {{ let x: ! = return {rv}; }}\n"), "bool:bool".to_string()),
            _ => ("never-option-none", "fn main() { let x: Option[!] = Option.None; }\n".to_string(), "bool:bool".to_string()),
        }
    } else {
        (what, src, pairs)
    };
    // … and the built-in methods of String and List: argument types, argument
    // counts, methods that do not exist
    let (what, src, pairs) = if p.chance(1, 6) {
        let (v3, vt3) = value(&mut p, "String", r1);
        let (v4, vt4) = value(&mut p, "u64", r2);
        match p.below(10) {
            0 => ("method-string-contains", format!("fn main(s: String) {{ let c: bool = s.contains({v3}); }}\n"), format!("{vt3}:str")),
            1 => ("method-string-repeat", format!("fn main(s: String) {{ let c: String = s.repeat({v4}); }}\n"), format!("{vt4}:u64")),
            2 => (
                "method-string-replace",
                format!("fn main(s: String) {{ let c: String = s.replace({v3}, {v3}); }}\n"),
                format!("{vt3}:str"),
            ),
            3 => ("method-string-split-result", format!("fn main(s: String) {{ let c: List[{u}] = s.split(\"x\"); }}\n"), format!("str:{}", lean_ty(u))),
            4 => ("method-extra-argument", format!("fn main(s: String) {{ let c = s.trim({v3}); }}\n"), "never".to_string()),
            5 => ("method-missing-argument", "fn main(s: String) { let c = s.contains(); }\n".to_string(), "never".to_string()),
            6 => ("method-unknown", format!("fn main(l: List[{t1}]) {{ l.no_such_method(); }}\n"), "never".to_string()),
            7 => ("method-on-wrong-receiver", format!("fn main(x: {t1}) {{ let n = x.len(); }}\n"), if t1 == "String" { "never".to_string() } else { "never".to_string() }),
            8 => ("method-list-len-result", format!("fn main(l: List[{t1}]) {{ let n: {u} = l.len(); }}\n"), format!("u64:{}", lean_ty(u))),
            _ => ("method-list-index", format!("fn main(l: List[{t1}]) {{ let n: Option[u64] = l.index({v1}); }}\n"), format!("{vt1}:{}", lean_ty(t1))),
        }
    } else {
        (what, src, pairs)
    };
    let request = format!("c07 compat {pairs}");
    let answer = drv.ask(&request);
    // the whole pipeline for the never forms: what the type checker lets through here panics later
    let real = compile(rt, &src, what.starts_with("never-"));
    rep.evaluations += 1;
    let input = json!({"seed": seed, "index": index, "src": src, "rec": request, "model": answer, "full": what.starts_with("never-")});
    if let (Outcome::Panic(msg), "untypable") = (&real, answer.as_str()) {
        rep.violation(
            &format!("an ill-typed script made the compiler panic instead of reporting a type error: {msg}"),
            &format!("panic:generic-instantiation:{what}"),
            input,
        );
        rep.hist("generic-instantiation", format!("{what}:panic"));
        return;
    }
    match (&real, answer.as_str()) {
        (Outcome::Ok, "typable") | (Outcome::TypeError(_), "untypable") => {}
        (Outcome::Ok, "untypable") => rep.violation(
            "a script that instantiates a type parameter inconsistently compiled",
            &format!("accepted:generic-instantiation:{what}"),
            input,
        ),
        (Outcome::TypeError(line), "typable") => rep.mismatch(
            &format!("a script with a consistent instantiation is rejected: {line}"),
            input,
        ),
        (other, a) => rep.mismatch(&format!("generic-instantiation script: model `{a}`, compiler {other:?}"), input),
    }
    rep.class(format!("gen:{what}:{answer}"));
    rep.hist("generic-instantiation", format!("{what}:{answer}"));
}

// ------------------------------------------------------------------ unification

fn unify_case(drv: &mut Driver, seed: u64, index: u64, rep: &mut Report) {
    let mut p = Prng::for_case(seed ^ 0x756e_6966, index);
    // record definitions 20, 21: fields over ground types
    let ground = |p: &mut Prng| -> String {
        match p.below(6) {
            0 => "(n 6)".into(),
            1 => "(n 2)".into(),
            2 => "(n 9)".into(),
            3 => "(n 10)".into(),
            4 => "(n 11)".into(),
            _ => "(n 12 (n 6))".into(),
        }
    };
    let mut defs = Vec::new();
    let ndefs = p.below(3);
    let mut def_fields: Vec<Vec<u64>> = Vec::new();
    for d in 0..ndefs {
        let nf = 1 + p.below(3);
        let names: Vec<u64> = (0..nf).collect();
        let fs: Vec<String> = names.iter().map(|f| format!("({f} {})", ground(&mut p))).collect();
        defs.push(format!("({} {})", 20 + d, fs.join(" ")));
        def_fields.push(names);
    }
    // the variables created so far: (index, kind, printed type)
    let mut vars: Vec<(usize, char, String)> = Vec::new();
    let mut ops = Vec::new();
    fn ty(p: &mut Prng, vars: &[(usize, char, String)], ndefs: u64, depth: u32) -> String {
        let pick_var = |p: &mut Prng| vars[p.below(vars.len() as u64) as usize].2.clone();
        match p.below(16) {
            0..=5 if !vars.is_empty() => pick_var(p),
            6 => format!("(n {})", p.below(12)),
            7 => "(n 6)".into(),
            8 if depth < 2 => format!("(n 12 {})", ty(p, vars, ndefs, depth + 1)),
            9 if depth < 2 => format!("(n 13 {})", ty(p, vars, ndefs, depth + 1)),
            10 if depth < 2 => format!("(n 14 {} {})", ty(p, vars, ndefs, depth + 1), ty(p, vars, ndefs, depth + 1)),
            11 => "unit".into(),
            12 => "never".into(),
            13 if ndefs > 0 => format!("(n {})", 20 + p.below(ndefs)),
            14 if depth < 2 => {
                let nf = 1 + p.below(2);
                let fs: Vec<String> = (0..nf).map(|f| format!("({f} {})", ty(p, vars, ndefs, depth + 1))).collect();
                format!("(rec {})", fs.join(" "))
            }
            15 if depth < 2 => {
                // function types with 0..3 parameters: the `Function` arm of unify_inner zips the parameter lists
                let np = p.below(4);
                let ps: Vec<String> = (0..np).map(|_| ty(p, vars, ndefs, depth + 1)).collect();
                format!("(fn ({}) {})", ps.join(" "), ty(p, vars, ndefs, depth + 1))
            }
            _ => format!("(n {})", [2u64, 6, 8, 10][p.below(4) as usize]),
        }
    }
    let nops = 3 + p.below(12);
    for _ in 0..nops {
        match p.below(10) {
            0..=2 => {
                let k = *p.pick(&['v', 'i', 'f']);
                let i = vars.len();
                let printed = match k {
                    'v' => format!("(v {i})"),
                    'i' => format!("(iv {i} 0)"),
                    _ => format!("(fv {i})"),
                };
                vars.push((i, k, printed));
                ops.push(format!("(fresh {k})"));
            }
            3 => {
                let nf = 1 + p.below(3);
                // field order is sometimes permuted with respect to the definitions
                let mut names: Vec<u64> = (0..nf).collect();
                if p.chance(1, 2) {
                    names.reverse();
                }
                let fs: Vec<String> = names.iter().map(|f| format!("({f} {})", ty(&mut p, &vars, ndefs, 1))).collect();
                let i = vars.len();
                vars.push((i, 'r', format!("(rv {i} {})", fs.join(" "))));
                ops.push(format!("(freshrec {})", fs.join(" ")));
            }
            4 if !vars.is_empty() => {
                let v = vars[p.below(vars.len() as u64) as usize].2.clone();
                ops.push(format!("(mark {v})"));
            }
            _ => {
                let a = ty(&mut p, &vars, ndefs, 0);
                // the second type: unrelated, or one that has a chance to unify
                let b = match p.below(8) {
                    0 => a.clone(),
                    1 if !vars.is_empty() => vars[p.below(vars.len() as u64) as usize].2.clone(),
                    2 => "never".to_string(),
                    3 if a.starts_with("(n 12") => "(n 12 (n 6))".to_string(),
                    4 if p.chance(1, 6) => format!("(e {})", p.below(2)),
                    _ => ty(&mut p, &vars, ndefs, 0),
                };
                // mostly `unify_inner`; sometimes `unify(expected, found)` as the checker calls it
                let op = if p.chance(1, 4) { "unifytop" } else { "unify" };
                if p.chance(1, 2) {
                    ops.push(format!("({op} {a} {b})"));
                } else {
                    ops.push(format!("({op} {b} {a})"));
                }
            }
        }
    }
    let script = format!("(script (defs {}) (ops {}))", defs.join(" "), ops.join(" "));
    if std::env::var("C07_DUMP").is_ok() {
        eprintln!("SCRIPT {script}");
    }
    let model = drv.ask(&format!("c07 unify {script}"));
    if std::env::var("C07_DUMP").is_ok() {
        eprintln!("MODEL {model}");
    }
    if model == "stuck" {
        // the model predicts that the real code does not return (a cyclic
        // record type makes `occurs` recurse until the stack overflows; only
        // ill-formed inputs get there: no occurs check guards record variables).
        // The real code is not run on it.
        rep.hist("unify-steps", "model says: does not return (real code not run)");
        return;
    }
    let real = match catch_unwind(AssertUnwindSafe(|| unify_script(&script))) {
        Ok(s) => s,
        Err(e) => {
            let t = panic_text(e);
            if t.contains("Cannot unify explicit var") { "ice".to_string() } else { format!("panic {t}") }
        }
    };
    rep.evaluations += 1;
    if model != real {
        rep.mismatch(
            "Unify.unify (Lean) and unify_inner (hook) disagree",
            json!({"seed": seed, "index": index, "script": script, "model": model, "real": real}),
        );
    }
    let oks = real.matches(" ok").count().min(5);
    let fails = real.matches(" fail").count().min(5);
    rep.class(format!("unify:{}ok:{}fail:{}vars", oks, fails, vars.len().min(6)));
    rep.hist("unify-steps", format!("ok={oks} fail={fails}"));
    if rep.samples.len() < 6 && index % 50 == 7 {
        rep.sample(json!({"unify-script": script, "answer": real}));
    }
}

// ------------------------------------------------------------------------ worker

fn worker(args: &[String]) {
    silence_panics();
    let phase = args[0].as_str();
    if phase == "one" {
        let v: Value = serde_json::from_str(&args[1]).unwrap_or(Value::Null);
        let mut rep = Report::default();
        replay_one(&v, &mut rep);
        rep.emit();
        return;
    }
    let seed: u64 = args[1].parse().unwrap();
    let from: u64 = args[2].parse().unwrap();
    let n: u64 = args[3].parse().unwrap();
    let rt = Runtime::new();
    let mut drv = Driver::spawn().expect("lean driver");
    let mut rep = Report::default();
    let stdout = std::io::stdout();
    // phase `cyc`: the rank order of the name pool in THIS process, probed before anything else is compiled
    let ranks = if phase.starts_with("cyc") { c07::cycles::probe_ranks(&rt) } else { None };
    for i in from..from + n {
        {
            let mut o = stdout.lock();
            let _ = writeln!(o, "START {i}");
            let _ = o.flush();
        }
        match phase {
            "prog" => prog_case(&rt, &mut drv, seed, i, &mut rep),
            "ops" => ops_case(&rt, &mut drv, i, &mut rep),
            "match" => match_case(&rt, &mut drv, seed, i, &mut rep),
            "unify" => unify_case(&mut drv, seed, i, &mut rep),
            "lit" => lit_case(&rt, &mut drv, seed, i, &mut rep),
            "assign" => assign_case(&mut drv, i, &mut rep),
            "corpus" => corpus_case(&rt, i, &mut rep),
            "rec" => rec_case(&rt, &mut drv, seed, i, &mut rep),
            "gen" => gen_case(&rt, &mut drv, seed, i, &mut rep),
            "decl" => decl_case(&rt, &mut drv, seed, i, &mut rep),
            "infer" => c07::infer::infer_case(&rt, &mut drv, seed, i, &mut rep),
            "cyc" => c07::cycles::cyc_case(&rt, &mut drv, &ranks, seed, i, false, &mut rep),
            "cyc-gen" => c07::cycles::cyc_case(&rt, &mut drv, &ranks, seed, i, true, &mut rep),
            "tcyc" => c07::cycles::tcyc_case(&rt, &mut drv, seed, i, false, &mut rep),
            "tcyc-gen" => c07::cycles::tcyc_case(&rt, &mut drv, seed, i, true, &mut rep),
            "mods" => c07::modules::mods_case(&rt, &mut drv, seed, i, false, &mut rep),
            "mods-gen" => c07::modules::mods_case(&rt, &mut drv, seed, i, true, &mut rep),
            "shadow" => c07::shadow::shadow_case(&rt, &mut drv, i, &mut rep),
            "tostr" => c07::registered::tostr_case(&mut drv, i, &mut rep),
            "infer-gen" => c07::infer::infer_case(&rt, &mut drv, seed, i + c07::infer::REPS.len() as u64, &mut rep),
            _ => {}
        }
    }
    rep.emit();
}

fn run_phase(phase: &'static str, seed: u64, total: u64, batch: u64, jobs: u64, rep: &mut Report) {
    // `jobs` threads, each over a contiguous slice of the index range
    let per = total.div_ceil(jobs.max(1));
    let mut handles = Vec::new();
    for j in 0..jobs {
        let lo = j * per;
        let hi = ((j + 1) * per).min(total);
        if lo >= hi {
            continue;
        }
        handles.push(std::thread::spawn(move || {
            let mut r = Report::default();
            let seed_s = seed.to_string();
            let mut from = lo;
            while from < hi {
                let n = batch.min(hi - from);
                let (f, c) = (from.to_string(), n.to_string());
                let (ended, out) = run_worker_keep_stdout(&[phase, &seed_s, &f, &c], Duration::from_secs(300));
                if let Some(v) = Report::parse_stdout(&out) {
                    fold(&mut r, v);
                }
                if matches!(ended, Ended::Exit(0, _)) {
                    from += n;
                } else {
                    let last = out
                        .lines()
                        .rev()
                        .find_map(|l| l.strip_prefix("START "))
                        .and_then(|s| s.trim().parse::<u64>().ok())
                        .unwrap_or(from);
                    crashed(phase, seed, last, &ended, &mut r);
                    from = last + 1;
                }
            }
            r
        }));
    }
    for h in handles {
        let r = h.join().expect("phase thread");
        merge(rep, r);
    }
}

/// fold a worker's report into `dst`, keeping at most 4 violations per key (so
/// that a frequent known finding cannot crowd out another violation)
fn fold(dst: &mut Report, mut v: Value) {
    let viols = v["impl_violations"].take();
    dst.merge_json(&v);
    if let Some(a) = viols.as_array() {
        for x in a {
            let key = x["key"].as_str().unwrap_or("");
            let n = dst.impl_violations.iter().filter(|y| y["key"].as_str() == Some(key)).count();
            if n < 4 {
                dst.impl_violations.push(x.clone());
            }
        }
    }
}

fn merge(dst: &mut Report, src: Report) {
    let v = json!({
        "evaluations": src.evaluations,
        "classes": src.classes,
        "impl_violations": src.impl_violations,
        "model_mismatches": src.model_mismatches,
        "samples": src.samples,
        "histograms": src.histograms,
        "notes": src.notes,
    });
    fold(dst, v);
}

/// a worker died (signal, abort, stack overflow, timeout) on case `index`
fn crashed(phase: &str, seed: u64, index: u64, ended: &Ended, rep: &mut Report) {
    let how = match ended {
        Ended::Signal(s, _) => format!("signal {s}"),
        Ended::Timeout => "timeout".to_string(),
        Ended::Exit(c, _) => format!("exit {c}"),
    };
    if phase == "prog" {
        // which script was it? regenerate (deterministic) and see whether the mutant was the culprit
        let (orig, mut p) = generate(seed, index);
        let start = (index as usize + p.below(KINDS.len() as u64) as usize) % KINDS.len();
        let mut m = None;
        for off in 0..KINDS.len() {
            if let Some(x) = mutate(&mut p, &orig, KINDS[(start + off) % KINDS.len()]) {
                m = Some(x);
                break;
            }
        }
        let (kind, src, sexp) = match &m {
            Some(m) => (m.kind, m.prog.roto(), m.prog.sexp()),
            None => ("none", String::new(), String::new()),
        };
        rep.violation(
            &format!("the compiler process died ({how}) while compiling a generated script or its ill-typed mutant"),
            &format!("crash:{kind}:{how}"),
            json!({"seed": seed, "index": index, "kind": kind, "src": src, "sexp": sexp, "original": orig.roto()}),
        );
    } else if phase == "tcyc" || phase == "tcyc-gen" {
        let case = if phase == "tcyc" { c07::cycles::trep_case(index as usize) } else { c07::cycles::trandom_case(seed, index) };
        match case {
            Some(c) => {
                let m = c.mutant.prog();
                rep.violation(
                    &format!("the compiler process died ({how}) while compiling a script with a recursive type (or its well-typed original)"),
                    &format!("crash:type-cycle:{how}"),
                    json!({"seed": seed, "index": index, "kind": "type-cycle", "what": c.what, "detail": c.detail, "src": m.roto(), "sexp": m.sexp(), "original": c.base.prog().roto()}),
                );
            }
            None => rep.mismatch(&format!("worker of phase `{phase}` died ({how})"), json!({"phase": phase, "seed": seed, "index": index})),
        }
    } else if phase == "cyc" || phase == "cyc-gen" {
        // regenerate the case (the parent probes the name order the same way a worker does)
        let rt = Runtime::new();
        let case = c07::cycles::probe_ranks(&rt).and_then(|r| {
            if phase == "cyc" { c07::cycles::rep_case(&r, index as usize) } else { c07::cycles::random_case(&r, seed, index) }
        });
        match case {
            Some(c) => {
                let m = c.mutant.prog();
                rep.violation(
                    &format!("the compiler process died ({how}) while compiling a script with a recursive constant (or its well-typed original)"),
                    &format!("crash:value-cycle:{how}"),
                    json!({"seed": seed, "index": index, "kind": "value-cycle", "what": c.what, "detail": c.detail, "src": m.roto(), "sexp": m.sexp(), "original": c.base.prog().roto()}),
                );
            }
            None => rep.mismatch(&format!("worker of phase `{phase}` died ({how})"), json!({"phase": phase, "seed": seed, "index": index})),
        }
    } else {
        rep.mismatch(
            &format!("worker of phase `{phase}` died ({how})"),
            json!({"phase": phase, "seed": seed, "index": index}),
        );
    }
}

fn main() {
    let args: Vec<String> = std::env::args().collect();
    match args.get(1).map(|s| s.as_str()) {
        Some("worker") => worker(&args[2..]),
        Some("run") => {
            let seed: u64 = args.get(2).and_then(|s| s.parse().ok()).unwrap_or(1);
            let tier = args.get(3).map(|s| s.as_str()).unwrap_or("quick");
            let pick = |quick: u64, search: u64, thorough: u64| match tier {
                "thorough" => thorough,
                "search" => search,
                _ => quick,
            };
            let env_n = |k: &str, d: u64| std::env::var(k).ok().and_then(|s| s.parse().ok()).unwrap_or(d);
            let progs = env_n("C07_PROGS", pick(40_000, 120_000, 400_000));
            let matches = env_n("C07_MATCH", pick(20_000, 40_000, 150_000));
            let unifies = env_n("C07_UNIFY", pick(60_000, 120_000, 600_000));
            let lits = env_n("C07_LIT", pick(20_000, 40_000, 150_000));
            let recs = env_n("C07_REC", pick(20_000, 40_000, 150_000));
            let infers = env_n("C07_INFER", pick(8_000, 30_000, 100_000));
            let cycs = env_n("C07_CYC", pick(6_000, 40_000, 60_000));
            let modsn = env_n("C07_MODS", pick(4_000, 30_000, 60_000));
            let jobs = env_n("C07_JOBS", 4);
            let mut rep = Report::default();
            run_phase("corpus", seed, corpus_files().len() as u64, 64, 1, &mut rep);
            rep.notes.push(format!("corpus: {} witnesses replayed first", corpus_files().len()));
            // the inference model against the real checker: class representatives first
            run_phase("infer", seed, c07::infer::REPS.len() as u64, 64, 1, &mut rep);
            // own types spelled like a built-in one: every representative that declares a type x every built-in name it does not mention
            let shadow_reps = c07::shadow::table().len() as u64;
            run_phase("shadow", seed, shadow_reps, 400, jobs, &mut rep);
            rep.notes.push(format!("own types under the name of a built-in type: {shadow_reps} representatives (representative of phase infer that declares T0 x built-in type name it does not mention)"));
            // f-string parts / `to_string` calls on types the runtime registers (one type per shape of `to_string` signature)
            run_phase("tostr", seed, c07::registered::total(), 64, 1, &mut rep);
            rep.notes.push(format!("registered types: {} scripts ({} shapes of `to_string` signature x {} positions of an f-string part + {} explicit calls)", c07::registered::total(), c07::registered::TYPES.len(), c07::registered::POSITIONS.len(), c07::registered::CALLS.len()));
            // packages of several modules: what is in scope where (arena x site x kind of use x path prefix x way of use)
            let mods_reps = c07::modules::rep_count();
            run_phase("mods", seed, mods_reps, 800, jobs, &mut rep);
            rep.notes.push(format!("packages of several modules: {mods_reps} representatives (site module x kind of use x way of use x path prefix; both ways against the scoping rules)"));
            // value cycles: every shape of reference cycle x every closing reference x every rank order of the names
            let cyc_reps = c07::cycles::rep_table().len() as u64;
            run_phase("cyc", seed, cyc_reps, 64, jobs, &mut rep);
            run_phase("cyc-gen", seed, cycs, 250, jobs, &mut rep);
            rep.notes.push(format!("value cycles: {cyc_reps} representatives (shape x closing reference x rank order of the item names), then {cycs} random reference graphs"));
            // the sibling rule: cycles between type declarations (type_cycle.rs)
            let tcyc_reps = c07::cycles::trep_table().len() as u64;
            run_phase("tcyc", seed, tcyc_reps, 64, jobs, &mut rep);
            run_phase("tcyc-gen", seed, cycs / 2, 250, jobs, &mut rep);
            rep.notes.push(format!("type cycles: {tcyc_reps} representatives (shape x closing mention x wrapper x kind), then {} random sets of declarations; every script compiled three times (HashMap walk order)", cycs / 2));
            run_phase("ops", seed, ops_total(), 700, jobs, &mut rep);
            run_phase("assign", seed, assign_targets().len() as u64, 64, 1, &mut rep);
            run_phase("match", seed, matches, 500, jobs, &mut rep);
            run_phase("unify", seed, unifies, 2000, jobs, &mut rep);
            run_phase("lit", seed, lits, 1000, jobs, &mut rep);
            run_phase("rec", seed, recs, 1000, jobs, &mut rep);
            run_phase("gen", seed, recs, 1000, jobs, &mut rep);
            run_phase("decl", seed, recs, 1000, jobs, &mut rep);
            run_phase("prog", seed, progs, 250, jobs, &mut rep);
            run_phase("mods-gen", seed, modsn, 250, jobs, &mut rep);
            rep.notes.push(format!("packages of several modules: {modsn} generated programs distributed over random module trees, one scope-breaking edit each ({} kinds)", c07::modules::EDITS.len()));
            run_phase("infer-gen", seed, infers, 250, jobs, &mut rep);
            rep.notes.push(format!("inference model vs type checker: {} class representatives, then {infers} generated programs with {} edits each", c07::infer::REPS.len(), 3));
            rep.notes.push(format!(
                "phases: ops {} (whole table), match {matches}, unify {unifies}, literal variables {lits}, record literals {recs}, generic instantiation {recs}, declaration tables {recs}, programs {progs} (evaluations count judged mutants, not programs)",
                ops_total()
            ));
            rep.emit();
        }
        Some("replay") => {
            silence_panics();
            let v: Value = serde_json::from_str(&args[2]).unwrap_or(Value::Null);
            let mut rep = Report::default();
            // run inside a worker so that a crash is an answer, not the end of the replay
            let (ended, out) = run_worker_keep_stdout(&["one", &args[2], "0", "0"], Duration::from_secs(60));
            if let Some(r) = Report::parse_stdout(&out) {
                rep.merge_json(&r);
            }
            if !matches!(ended, Ended::Exit(0, _)) {
                rep.violation("the compiler process died on the replayed script", "crash:replay", v.clone());
            }
            for x in &rep.impl_violations {
                println!("violation: {} [{}]", x["what"].as_str().unwrap_or(""), x["key"].as_str().unwrap_or(""));
            }
            rep.emit();
        }
        Some("tc") => {
            // `c07 tc <dir | file>`: compile a script tree from disk (pkg.roto, name.roto, name/mod.roto)
            let rt = Runtime::new();
            let r = catch_unwind(AssertUnwindSafe(|| match FileTree::read(&args[2]) {
                Ok(tree) => tree.compile(&rt).map(|_| ()),
                Err(e) => Err(e),
            }));
            match r {
                Ok(Ok(())) => println!("compiled"),
                Ok(Err(rep)) => println!("{}: {}", report_stage(&rep), first_line(&rep)),
                Err(e) => println!("panic: {}", panic_text(e)),
            }
        }
        Some("show-pkg") => {
            // `c07 show-pkg <seed> <index> [edit]`: the generated package, its scoping request and the judge's answer
            let seed: u64 = args[2].parse().unwrap();
            let index: u64 = args[3].parse().unwrap();
            let (mut pkg, mut p) = c07::modules::random_pkg(seed, index);
            if let Some(kind) = args.get(4) {
                match c07::modules::edit(&mut p, &pkg, kind) {
                    Some((m, tag, detail)) => {
                        println!("--- edit {kind} [{tag}]: {detail}");
                        pkg = m;
                    }
                    None => println!("--- edit {kind}: not applicable"),
                }
            }
            let r = pkg.render();
            for (i, s) in r.srcs.iter().enumerate() {
                println!("=== module {i} (m{}, parent {:?})\n{s}", pkg.mods[i].name, pkg.mods[i].parent);
            }
            let req = pkg.scope_request(&r.uses);
            println!("{req}");
            let mut drv = Driver::spawn().expect("lean driver");
            println!("{}", drv.ask(&req));
            println!("expected: {:?}", c07::modules::wanted(&pkg, &r.uses));
        }
        Some("show") => {
            let seed: u64 = args[2].parse().unwrap();
            let index: u64 = args[3].parse().unwrap();
            let (orig, mut p) = generate(seed, index);
            println!("{}", orig.roto());
            println!("{}", orig.sexp());
            if let Some(kind) = args.get(4) {
                let k = KINDS.iter().find(|k| **k == kind.as_str()).copied().unwrap_or("type");
                if let Some(m) = mutate(&mut p, &orig, k) {
                    println!("--- {} ({})\n{}\n{}", m.kind, m.detail, m.prog.roto(), m.prog.sexp());
                }
            }
        }
        _ => {
            eprintln!("usage: c07 run <seed> <quick|thorough> | c07 replay <json> | c07 show <seed> <index> [kind]");
            std::process::exit(64);
        }
    }
}

/// `worker one <json> 0 0`: replay a recorded failing input
fn replay_one(input: &Value, rep: &mut Report) {
    if input["tostr"].is_string() {
        // a script over the runtime with registered types (phase tostr)
        c07::registered::replay(input, rep);
        return;
    }
    let rt = Runtime::new();
    if input["pkg"].is_array() {
        // a package of several modules (phases mods / mods-gen)
        let mut drv = Driver::spawn().expect("lean driver");
        c07::modules::replay(&rt, &mut drv, input, rep);
        return;
    }
    if let Some(src) = input["src"].as_str() {
        if input["phase"].as_str() == Some("infer") {
            // model of the inference pass against the type checker on the recorded script
            let mut drv = Driver::spawn().expect("lean driver");
            c07::infer::compare(&rt, &mut drv, "replay", src, input["sexp"].as_str().unwrap_or(""), input["id"].clone(), rep);
            for m in &rep.model_mismatches {
                println!("mismatch: {}", m["what"].as_str().unwrap_or(""));
            }
            return;
        }
        if let Some(table) = input["table"].as_str() {
            // operator table entry: accepted although the documented rules forbid it?
            rep.evaluations += 1;
            if compile(&rt, src, false) == Outcome::Ok {
                rep.violation("the type checker accepts an operator on operand types the documented rules forbid", &format!("op-accepted:{}", table.split(':').next().unwrap_or("")), input.clone());
            }
            return;
        }
        let kind = input["kind"].as_str().unwrap_or("replay").to_string();
        let rule = input["rule"].as_str().unwrap_or("?").to_string();
        if let Some(sexp) = input["sexp"].as_str() {
            let mut drv = Driver::spawn().expect("lean driver");
            let d = drv.ask(&format!("c07 prog {sexp}"));
            println!("declarative checker: {d}");
            if !d.starts_with("err") {
                return;
            }
        }
        if let Some(name) = input["corpus"].as_str() {
            rep.evaluations += 1;
            match compile(&rt, src, true) {
                Outcome::Ok => rep.violation("an ill-typed script of the corpus compiled", &format!("accepted:corpus:{name}"), input.clone()),
                Outcome::Panic(msg) => rep.violation(&format!("an ill-typed script of the corpus made the compiler panic: {msg}"), &format!("panic:corpus:{name}"), input.clone()),
                _ => {}
            }
            return;
        }
        if let Some(req) = input["rec"].as_str() {
            let mut drv = Driver::spawn().expect("lean driver");
            let a = drv.ask(req);
            println!("declarative judge: {a}");
            rep.evaluations += 1;
            let full = input["full"].as_bool().unwrap_or(false);
            let out = compile(&rt, src, full);
            if a == "untypable" && (out == Outcome::Ok || matches!(out, Outcome::Panic(_))) {
                rep.violation("a script the declarative judge calls untypable compiled (or panicked the compiler)", "accepted:declarative-family:replay", input.clone());
            }
            return;
        }
        if let Some(lit) = input["lit"].as_str() {
            let mut drv = Driver::spawn().expect("lean driver");
            let a = drv.ask(&format!("c07 lit {} {lit}", input["nvars"].as_u64().unwrap_or(1)));
            println!("declarative judge: {a}");
            rep.evaluations += 1;
            if a == "untypable" && compile(&rt, src, false) == Outcome::Ok {
                rep.violation("a script whose literal variables have no consistent type compiled", "accepted:litvars:replay", input.clone());
            }
            return;
        }
        if input["arms"].is_array() {
            rep.evaluations += 1;
            if compile(&rt, src, false) == Outcome::Ok {
                rep.violation("the type checker accepts a match the documented rules forbid", &format!("accepted:match-table:{rule}"), input.clone());
            }
            return;
        }
        judge_mutant(&rt, src, &kind, &rule, input.clone(), rep);
    }
}
