//! C17 correspondence: every built-in of the default runtime, applied by a
//! generated script function to harness-supplied arguments, compared with
//!  (a) the documented meaning computed independently with Rust std / inetnum
//!      (difference = the property fails on the real code: impl violation),
//!  (b) for the string views and StringBuf, the Lean model "as written"
//!      (difference = model mismatch), and the Lean *spec* functions against
//!      the std oracle (difference = model mismatch: the theorems' spec is not
//!      what std does).
//!
//! usage: c17 run <seed> <quick|thorough>
//!        c17 replay <json: {"builtin": …, "args": […]}>
//!        c17 worker <seed> <tier> <from> <n>        (crash-isolated batch)
//!        c17 list                                   (covered built-ins)

#[path = "../c17/args.rs"]
mod args;
#[path = "../c17/gen.rs"]
mod gen_;
#[path = "../c17/runners.rs"]
mod runners;
#[path = "../c17/unicode.rs"]
mod unicode;

use args::A;
use gen_::Gen;
use rotov_harness::driver::Driver;
use rotov_harness::worker::{self, Ended};
use rotov_harness::{Prng, Report};
use runners::{Runner, runners};
use serde_json::{Value, json};
use std::io::Write;
use std::time::Duration;

fn script(rs: &[Runner]) -> String {
    let mut src = String::new();
    for (i, r) in rs.iter().enumerate() {
        let ps: Vec<String> = r.params.iter().map(|(n, t)| format!("{n}: {t}")).collect();
        let ret = if r.ret == "()" { String::new() } else { format!(" -> {}", r.ret) };
        src.push_str(&format!("fn run{i}({}){ret} {{ {} }}\n", ps.join(", "), r.body));
    }
    src
}

type Callable = Box<dyn Fn(&[A]) -> String>;

fn compile(rs: &[Runner]) -> Result<Vec<Callable>, String> {
    let rt = roto::Runtime::new();
    let src = script(rs);
    let mut pkg = roto::FileTree::test_file("c17.roto", &src, 0)
        .compile(&rt)
        .map_err(|e| format!("script does not compile: {e}\n{src}"))?;
    let mut out = vec![];
    for (i, r) in rs.iter().enumerate() {
        out.push((r.make)(&mut pkg, &format!("run{i}")).map_err(|e| format!("{}: {e}", r.name))?);
    }
    // the package must outlive the functions
    std::mem::forget(pkg);
    std::mem::forget(rt);
    Ok(out)
}

/// the Lean requests for one call of a modelled built-in: (as-written request, spec request)
fn lean_requests(name: &str, a: &[A]) -> (Option<String>, Option<String>) {
    let x = |i: usize| format!("x{}", rotov_harness::driver::hex(a[i].s()));
    let (view, m) = match name.split_once('.') {
        Some(("StringBytes", m)) => ("bytes", m),
        Some(("StringChars", m)) => ("chars", m),
        Some(("StringLines", m)) => ("lines", m),
        Some(("StringBuf", m)) if m.contains('#') => {
            // an operation history: every read is observed
            let t = a[0].s();
            let mut req = if t.starts_with('N') { "c17 bufseq new".to_string() } else { format!("c17 bufseq from:{}", x(1)) };
            let (cs, ss) = ([a[2].c(), a[3].c()], [a[4].s(), a[5].s()]);
            for e in runners::buf_events(t, cs, ss) {
                match e {
                    runners::BufEv::C(c) => req.push_str(&format!(" c:{}", c as u32)),
                    runners::BufEv::S(s) => req.push_str(&format!(" s:x{}", rotov_harness::driver::hex(&s))),
                    runners::BufEv::Read => req.push_str(" r"),
                }
            }
            return (Some(req), None);
        }
        Some(("StringBuf", _)) => {
            // template encoded in the args: S init, then alternating pushes
            let mut req = if name == "StringBuf.new" { "c17 buf new".to_string() } else { format!("c17 buf from:{}", x(0)) };
            for v in &a[if name == "StringBuf.new" { 0 } else { 1 }..] {
                match v {
                    A::C(c) => req.push_str(&format!(" c:{}", *c as u32)),
                    A::S(s) => req.push_str(&format!(" s:x{}", rotov_harness::driver::hex(s))),
                    _ => {}
                }
            }
            return (Some(req), None);
        }
        _ => return (None, None),
    };
    let tail: Vec<String> = a[1..].iter().map(|v| v.u().to_string()).collect();
    let t = if tail.is_empty() { String::new() } else { format!(" {}", tail.join(" ")) };
    let written = format!("c17 {view}.{m} {}{t}", x(0));
    let spec = match (view, m) {
        ("bytes", "get" | "slice") | ("chars", "get" | "slice") | ("lines", _) => {
            Some(format!("c17 spec.{view}.{m} {}{t}", x(0)))
        }
        _ => None,
    };
    (Some(written), spec)
}

fn unhex(h: &str) -> Option<String> {
    let h = h.strip_prefix('x')?;
    let b: Option<Vec<u8>> = (0..h.len() / 2).map(|i| u8::from_str_radix(h.get(2 * i..2 * i + 2)?, 16).ok()).collect();
    String::from_utf8(b?).ok()
}

/// Lean answer → the canonical text the runners use (`{:?}` of the host value).
fn canon_lean(name: &str, spec: bool, ans: &str) -> String {
    let m = name.split('.').nth(1).unwrap_or("");
    let w: Vec<&str> = ans.split(' ').collect();
    let bad = || format!("<unparsed lean answer: {ans}>");
    if name.starts_with("StringBuf") && name.contains('#') {
        return match w.as_slice() {
            ["list", rest @ ..] => {
                let v: Option<Vec<String>> = rest.iter().map(|x| unhex(x)).collect();
                v.map(|v| format!("[{}]", v.iter().map(|s| format!("{s:?}")).collect::<Vec<_>>().join(", "))).unwrap_or_else(bad)
            }
            _ => bad(),
        };
    }
    if name.starts_with("StringBuf") {
        return unhex(ans).map(|s| format!("{s:?}")).unwrap_or_else(bad);
    }
    match (m, w.as_slice()) {
        ("len", [n]) => n.to_string(),
        (_, ["none"]) => "None".into(),
        (_, ["panic"]) => "panic".into(),
        ("get", ["some", v]) => {
            if spec && name.starts_with("StringLines") {
                unhex(v).map(|s| format!("Some({s:?})")).unwrap_or_else(bad)
            } else if name.starts_with("StringLines") {
                // as written it is a char; the runner renders it as text (see LineAsText)
                v.parse::<u32>().ok().and_then(char::from_u32).map(|c| format!("Some({:?})", c.to_string())).unwrap_or_else(bad)
            } else {
                v.parse::<u32>().ok().and_then(char::from_u32).map(|c| format!("Some({c:?})")).unwrap_or_else(bad)
            }
        }
        ("slice", ["some", v]) => unhex(v).map(|s| format!("Some({s:?})")).unwrap_or_else(bad),
        ("list", ["list", rest @ ..]) => {
            if name.starts_with("StringBytes") {
                let v: Option<Vec<u8>> = rest.iter().map(|x| x.parse().ok()).collect();
                v.map(|v| format!("{v:?}")).unwrap_or_else(bad)
            } else if name.starts_with("StringChars") {
                let v: Option<Vec<char>> = rest.iter().map(|x| x.parse::<u32>().ok().and_then(char::from_u32)).collect();
                v.map(|v| format!("{v:?}")).unwrap_or_else(bad)
            } else {
                let v: Option<Vec<String>> = rest.iter().map(|x| unhex(x)).collect();
                v.map(|v| format!("{v:?}")).unwrap_or_else(bad)
            }
        }
        _ => bad(),
    }
}

fn outcome_class(s: &str) -> &'static str {
    if s == "None" {
        "none"
    } else if s.starts_with("Some(") {
        "some"
    } else if s == "true" || s == "false" {
        if s == "true" { "true" } else { "false" }
    } else if s == "NaN" {
        "nan"
    } else if s == "\"\"" || s == "[]" {
        "empty"
    } else {
        "value"
    }
}

struct Case {
    args: Vec<A>,
    class: String,
}

fn input_json(name: &str, args: &[A], got: &str, want: &str) -> Value {
    json!({"builtin": name, "args": args.iter().map(|a| a.to_json()).collect::<Vec<_>>(), "got": got, "want": want})
}

/// Run `cases` of one runner; fold results into the report.
fn run_cases(rep: &mut Report, drv: &mut Option<Driver>, r: &Runner, f: &Callable, cases: &[Case], trace: bool) {
    let mut reqs: Vec<String> = vec![];
    let mut req_of: Vec<(usize, bool)> = vec![]; // (case index, is spec)
    let mut gots = vec![];
    let mut wants = vec![];
    let mut per_key: std::collections::HashMap<String, u32> = Default::default();
    for (ci, c) in cases.iter().enumerate() {
        if trace {
            println!("CALL {}", input_json(r.name, &c.args, "", ""));
            let _ = std::io::stdout().flush();
        }
        let got = f(&c.args);
        let want = (r.oracle)(&c.args);
        rep.evaluations += 1;
        let hname = r.name.split('#').next().unwrap_or(r.name);
        rep.hist("builtin", hname);
        rep.hist(&format!("{hname} outcome"), outcome_class(&got));
        for a in &c.args {
            if let Some((h, b)) = a.hist() {
                rep.hist(h, b);
            }
        }
        rep.class(format!("{} {} {}", r.name, c.class, outcome_class(&got)));
        if got != want {
            let key = if r.name.contains('#') {
                format!("StringBuf.as_string history {}", runners::buf_diagnose(&c.args, &got))
            } else {
                format!("{} {}", r.name, c.class)
            };
            let seen = per_key.entry(key.clone()).or_insert(0u32);
            *seen += 1;
            if *seen > 1 {
                continue_after_violation(&mut gots, &mut wants, got, want);
                continue;
            }
            rep.violation(
                &format!("{}({}) returned {got}, documented meaning (Rust std / inetnum) gives {want}",
                    r.name, c.args.iter().map(|a| a.show()).collect::<Vec<_>>().join(", ")),
                &key,
                input_json(r.name, &c.args, &got, &want),
            );
        } else if ci == 5
            && ["StringChars.slice", "StringBytes.get", "StringLines.slice", "f64.round", "Prefix.max_addr", "StringBuf.as_string", "String.splitn", "i64.to_string"].contains(&r.name)
        {
            rep.sample(json!({"builtin": r.name, "args": c.args.iter().map(|a| a.show()).collect::<Vec<_>>(), "result": got, "class": c.class}));
        }
        let (w, s) = lean_requests(r.name, &c.args);
        if let Some(w) = w {
            reqs.push(w);
            req_of.push((ci, false));
        }
        if let Some(s) = s {
            reqs.push(s);
            req_of.push((ci, true));
        }
        gots.push(got);
        wants.push(want);
    }
    if reqs.is_empty() {
        return;
    }
    let Some(d) = drv.as_mut() else {
        rep.mismatch("lean driver unavailable", json!({"builtin": r.name}));
        return;
    };
    let answers = d.ask_all(&reqs);
    for ((ci, spec), (req, ans)) in req_of.iter().zip(reqs.iter().zip(answers.iter())) {
        let lean = canon_lean(r.name, *spec, ans);
        let c = &cases[*ci];
        if *spec {
            // the spec the theorems are about must be what std does
            if lean != wants[*ci] {
                rep.mismatch(
                    &format!("Lean spec differs from the std oracle: `{req}` → {lean}, std gives {}", wants[*ci]),
                    input_json(r.name, &c.args, &lean, &wants[*ci]),
                );
            }
        } else if lean != gots[*ci] {
            rep.mismatch(
                &format!("Lean model (as written) differs from the implementation: `{req}` → {lean}, implementation returned {}", gots[*ci]),
                input_json(r.name, &c.args, &gots[*ci], &lean),
            );
        }
    }
}

/// violations beyond the first of one key are counted, not recorded (the report caps at 200)
fn continue_after_violation(gots: &mut Vec<String>, wants: &mut Vec<String>, got: String, want: String) {
    gots.push(got);
    wants.push(want);
}

fn per_builtin(tier: &str) -> u64 {
    match tier {
        "thorough" => 60000,
        _ => 300,
    }
}

fn worker_main(seed: u64, tier: &str, from: usize, n: usize, only_trace: bool) {
    let rs = runners();
    let mut rep = Report::default();
    let fs = match compile(&rs) {
        Ok(f) => f,
        Err(e) => {
            rep.mismatch(&format!("harness scripts do not compile against this tree: {e}"), json!({}));
            rep.emit();
            return;
        }
    };
    let mut drv = Driver::spawn().ok();
    if let Some(d) = drv.as_mut() {
        if d.ask("ping") != "pong" {
            drv = None;
        }
    }
    let count = per_builtin(tier);
    for idx in from..(from + n).min(rs.len()) {
        println!("START {idx}");
        let _ = std::io::stdout().flush();
        let r = &rs[idx];
        let mut g = Gen::new(Prng::for_case(seed, idx as u64));
        let mut cases: Vec<Case> = vec![];
        // corpus first: the known witnesses
        for (name, args) in gen_::corpus() {
            if name == r.name {
                let class = gen_::classify(r.name, &args);
                cases.push(Case { args, class });
            }
        }
        // then the class representatives of this built-in's argument classes
        for args in gen_::reps(r.name) {
            let class = gen_::classify(r.name, &args);
            cases.push(Case { args, class });
        }
        // histories are many runners with one Lean request per call: fewer tuples each
        let count = if r.name.contains('#') { (count / 10).clamp(24, 1500) } else { count };
        for k in 0..count {
            let args = g.args(&r.gen_, k);
            let class = gen_::classify(r.name, &args);
            cases.push(Case { args, class });
        }
        run_cases(&mut rep, &mut drv, r, &fs[idx], &cases, only_trace);
    }
    rep.emit();
}

fn crash_input(seed: u64, tier: &str, idx: usize) -> Value {
    // re-run that runner alone with per-call tracing; the last CALL line is the input
    let (s, t, i) = (seed.to_string(), tier.to_string(), idx.to_string());
    let (_e, out) = worker::run_worker_keep_stdout(&["trace", &s, &t, &i], Duration::from_secs(300));
    out.lines()
        .rev()
        .find_map(|l| l.strip_prefix("CALL "))
        .and_then(|j| serde_json::from_str(j).ok())
        .unwrap_or(json!({"runner_index": idx}))
}

fn coverage_check(rep: &mut Report, rs: &[Runner]) {
    let path = "lean/RotoV/Generated/Bindings.lean";
    let Ok(text) = std::fs::read_to_string(path) else {
        rep.notes.push(format!("{path} not found: registered-vs-covered cross-check skipped"));
        return;
    };
    let mut registered = vec![];
    for line in text.lines() {
        let get = |k: &str| {
            let i = line.find(&format!("{k} := \""))? + k.len() + 5;
            let j = line[i..].find('"')? + i;
            Some(line[i..j].to_string())
        };
        if let (Some(s), Some(n)) = (get("script"), get("name")) {
            if line.trim_start().starts_with("{ ty :=") {
                registered.push(format!("{s}.{n}"));
            }
        }
    }
    // `Built.in#history` runners cover `Built.in`
    let covered: std::collections::BTreeSet<&str> = rs.iter().map(|r| r.name.split('#').next().unwrap_or(r.name)).collect();
    let mut missing = vec![];
    for r in &registered {
        if !covered.contains(r.as_str()) {
            missing.push(r.clone());
        }
    }
    let reg: std::collections::BTreeSet<&str> = registered.iter().map(|s| s.as_str()).collect();
    for c in &covered {
        if !reg.contains(c) {
            rep.mismatch(&format!("harness runner {c} is not a registered built-in (stale runner)"), json!({"builtin": c}));
        }
    }
    for m in &missing {
        rep.mismatch(&format!("built-in without a correspondence runner: {m}"), json!({"builtin": m}));
    }
    rep.notes.push(format!(
        "{} built-ins registered in basic.rs (generated table), {} covered by a script runner",
        registered.len(),
        registered.len() - missing.len()
    ));
}

fn main() {
    let argv: Vec<String> = std::env::args().collect();
    let mode = argv.get(1).map(|s| s.as_str()).unwrap_or("");
    match mode {
        "list" => {
            for r in runners() {
                println!("{}", r.name);
            }
        }
        "worker" => match argv.get(2).map(|s| s.as_str()) {
            Some("trace") => {
                let idx: usize = argv[5].parse().unwrap();
                worker_main(argv[3].parse().unwrap(), &argv[4], idx, 1, true);
            }
            Some("replay") => {
                let v: Value = serde_json::from_str(&argv[3]).expect("json");
                replay_in_worker(&v);
            }
            _ => worker_main(argv[2].parse().unwrap(), &argv[3], argv[4].parse().unwrap(), argv[5].parse().unwrap(), false),
        },
        "run" => {
            let seed: u64 = argv[2].parse().expect("seed");
            let tier = argv.get(3).map(|s| s.as_str()).unwrap_or("quick").to_string();
            let rs = runners();
            let mut rep = Report::default();
            coverage_check(&mut rep, &rs);
            let s = seed.to_string();
            let names: Vec<&'static str> = rs.iter().map(|r| r.name).collect();
            let tier2 = tier.clone();
            let timeout = Duration::from_secs(if tier == "quick" { 120 } else { 1500 });
            let total = rs.len();
            let mut from = 0usize;
            let mut batch = 16usize;
            while from < total {
                let n = batch.min(total - from);
                let (f, c) = (from.to_string(), n.to_string());
                let (ended, out) = worker::run_worker_keep_stdout(&[&s, &tier, &f, &c], timeout);
                if matches!(ended, Ended::Exit(0, _)) {
                    if let Some(v) = Report::parse_stdout(&out) {
                        rep.merge_json(&v);
                    } else {
                        rep.mismatch("worker ended without a report", json!({"from": from, "n": n}));
                    }
                    from += n;
                    batch = 16;
                    continue;
                }
                // a built-in took the process down: everything before it in the batch is re-run
                // on its own (its report was lost), the culprit is reported with its last call
                let last = out.lines().rev().find_map(|l| l.strip_prefix("START ")).and_then(|x| x.trim().parse::<usize>().ok()).unwrap_or(from);
                if last > from {
                    batch = last - from;
                    continue;
                }
                let name = names[last];
                let how = match &ended {
                    Ended::Signal(s, _) => format!("signal {s}"),
                    Ended::Exit(c, _) => format!("exit status {c}"),
                    Ended::Timeout => "timeout".into(),
                };
                let input = crash_input(seed, &tier2, last);
                rep.violation(
                    &format!("built-in {name} ended the host process ({how}) instead of returning its documented value"),
                    &format!("{name} crash"),
                    input,
                );
                from = last + 1;
                batch = 16;
            }
            // one defect = one key: histories share diagnosis keys across runners; keep the first (shortest) witness
            let mut seen_keys = std::collections::HashSet::new();
            rep.impl_violations.retain(|v| seen_keys.insert(v["key"].as_str().unwrap_or("").to_string()));
            rep.emit();
        }
        "replay" => {
            let v: Value = serde_json::from_str(&argv[2]).expect("json");
            let js = v.to_string();
            let (ended, out) = worker::run_worker_keep_stdout(&["replay", &js], Duration::from_secs(120));
            let mut rep = Report::default();
            if let Some(r) = Report::parse_stdout(&out) {
                rep.merge_json(&r);
            }
            if !matches!(ended, Ended::Exit(0, _)) {
                let name = v["builtin"].as_str().unwrap_or("?");
                rep.violation(&format!("built-in {name} ended the host process ({ended:?})"), &format!("{name} crash"), v.clone());
            }
            rep.emit();
        }
        _ => {
            eprintln!("usage: c17 run <seed> <quick|thorough> | replay <json> | list");
            std::process::exit(64);
        }
    }
}

fn replay_in_worker(v: &Value) {
    let rs = runners();
    let mut rep = Report::default();
    let name = v["builtin"].as_str().unwrap_or("");
    let Some(idx) = rs.iter().position(|r| r.name == name) else {
        rep.mismatch(&format!("replay: unknown built-in {name}"), v.clone());
        rep.emit();
        return;
    };
    let args: Option<Vec<A>> = v["args"].as_array().map(|a| a.iter().filter_map(A::from_json).collect());
    let Some(args) = args else {
        rep.mismatch("replay: no args", v.clone());
        rep.emit();
        return;
    };
    match compile(&rs) {
        Ok(fs) => {
            let mut drv = Driver::spawn().ok();
            let class = gen_::classify(name, &args);
            println!("START {idx}");
            run_cases(&mut rep, &mut drv, &rs[idx], &fs[idx], &[Case { args, class }], true);
        }
        Err(e) => rep.mismatch(&format!("harness scripts do not compile: {e}"), json!({})),
    }
    rep.emit();
}
