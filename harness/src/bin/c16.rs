//! C16 correspondence: real threads on shared `List<u64>` handles, run one
//! atomic step at a time along a given schedule (the schedule points and the
//! pointer / buffer events come from the `verif-hooks` instrumentation of
//! `src/value/list.rs`), compared with
//!  (a) the property itself: no element pointer is held at a schedule point
//!      while its list's mutex is free, no read through a pointer into a
//!      reallocated / freed buffer, no deadlock, and the results of every
//!      completed schedule are those of some sequential order of the
//!      operations that respects real-time order (independent `Vec` oracle);
//!  (b) the Lean model's prediction for the same schedule (`c16 enum …`):
//!      which threads are blocked before every step, the events of every
//!      step, results, final list contents, deadlocks — and the *set* of
//!      maximal schedules itself (the harness enumerates the real ones by
//!      stateless depth-first search, the model enumerates its own).
//!
//! usage: c16 run <seed> <quick|thorough> [--no-model]
//!        c16 replay '<json {"lists": "L1.2;L", "progs": "g0.1;p0.9", "sched": "010"}>'
//!        c16 worker cases <seed> <tier> <model 0/1> <from> <n>
use roto::List;
use roto::verif_hooks::c16 as hk;
use rotov_harness::driver::Driver;
use rotov_harness::worker::{Ended, run_batches};
use rotov_harness::{Prng, Report};
use serde_json::json;
use std::collections::BTreeMap;
use std::time::Duration;

// ---------------------------------------------------------------- operations

#[derive(Clone, Debug, PartialEq)]
enum Op {
    Get(usize, usize),
    FfiGet(usize, usize),
    Push(usize, u64),
    Concat(usize, usize),
    /// `a + b` (the script's operator; the same `concat` underneath)
    Plus(usize, usize),
    Contains(usize, u64),
    Swap(usize, usize, usize),
    Len(usize),
    Clone(usize),
    Drop(usize),
    Eq(usize, usize),
    /// the typed `List<T>::eq` (same steps as `Eq` in the model)
    EqTyped(usize, usize),
    Index(usize, u64),
    IsEmpty(usize),
    ToVec(usize),
    /// `h.clone().into_iter()`: this thread's (one) live Rust-side iterator over list `l`
    IterNew(usize),
    /// `it.next()` — one `List::get` at the iterator's index: an iteration is a
    /// sequence of separate critical sections
    IterNext,
    /// the iterator is dropped (with its handle)
    IterDrop,
    /// `IterNext` as the oracle sees it once the cursor is known (never generated
    /// or printed): the `get` at the cursor — the cursor moves iff `next` yielded
    IterGet(usize, usize),
}

impl Op {
    fn text(&self) -> String {
        match self {
            Op::Get(l, i) => format!("g{l}.{i}"),
            Op::FfiGet(l, i) => format!("f{l}.{i}"),
            Op::Push(l, v) => format!("p{l}.{v}"),
            Op::Concat(a, b) => format!("c{a}.{b}"),
            Op::Plus(a, b) => format!("a{a}.{b}"),
            Op::Contains(l, v) => format!("h{l}.{v}"),
            Op::Swap(l, i, j) => format!("s{l}.{i}.{j}"),
            Op::Len(l) => format!("n{l}"),
            Op::Clone(l) => format!("k{l}"),
            Op::Drop(l) => format!("d{l}"),
            Op::Eq(a, b) => format!("e{a}.{b}"),
            Op::EqTyped(a, b) => format!("E{a}.{b}"),
            Op::Index(l, v) => format!("x{l}.{v}"),
            Op::IsEmpty(l) => format!("y{l}"),
            Op::ToVec(l) => format!("t{l}"),
            Op::IterNew(l) => format!("I{l}"),
            Op::IterNext | Op::IterGet(..) => "N".into(),
            Op::IterDrop => "Q".into(),
        }
    }
    fn kind(&self) -> &'static str {
        match self {
            Op::Get(..) => "get",
            Op::FfiGet(..) => "ffiget",
            Op::Push(..) => "push",
            Op::Concat(a, b) if a == b => "concat-self",
            Op::Concat(..) => "concat",
            Op::Plus(a, b) if a == b => "plus-self",
            Op::Plus(..) => "plus",
            Op::Contains(..) => "contains",
            Op::Swap(..) => "swap",
            Op::Len(..) => "len",
            Op::Clone(..) => "clone",
            Op::Drop(..) => "drop",
            Op::Eq(a, b) if a == b => "eq-self",
            Op::Eq(..) => "eq",
            Op::EqTyped(a, b) if a == b => "eqtyped-self",
            Op::EqTyped(..) => "eqtyped",
            Op::Index(..) => "index",
            Op::IsEmpty(..) => "is_empty",
            Op::ToVec(..) => "to_vec",
            Op::IterNew(..) => "iter-new",
            Op::IterNext | Op::IterGet(..) => "iter-next",
            Op::IterDrop => "iter-drop",
        }
    }
    /// the operation as the model has it: the typed `==` and the script's
    /// `==` are `Op.eq`, `+` is `concat`; through a script `get` is the
    /// script-side get (`ffi::list_get`)
    fn model_text(&self, script: bool) -> String {
        match self {
            Op::EqTyped(a, b) => format!("e{a}.{b}"),
            Op::Plus(a, b) => format!("c{a}.{b}"),
            Op::Get(l, i) if script => format!("f{l}.{i}"),
            o => o.text(),
        }
    }
    fn parse(s: &str) -> Option<Op> {
        match s {
            "N" => return Some(Op::IterNext),
            "Q" => return Some(Op::IterDrop),
            "" => return None,
            _ => {}
        }
        let (k, rest) = s.split_at(1);
        let n: Vec<u64> = rest.split('.').map(|x| x.parse().ok()).collect::<Option<_>>()?;
        Some(match (k, n.as_slice()) {
            ("g", [l, i]) => Op::Get(*l as usize, *i as usize),
            ("f", [l, i]) => Op::FfiGet(*l as usize, *i as usize),
            ("p", [l, v]) => Op::Push(*l as usize, *v),
            ("c", [a, b]) => Op::Concat(*a as usize, *b as usize),
            ("a", [a, b]) => Op::Plus(*a as usize, *b as usize),
            ("h", [l, v]) => Op::Contains(*l as usize, *v),
            ("s", [l, i, j]) => Op::Swap(*l as usize, *i as usize, *j as usize),
            ("n", [l]) => Op::Len(*l as usize),
            ("k", [l]) => Op::Clone(*l as usize),
            ("d", [l]) => Op::Drop(*l as usize),
            ("e", [a, b]) => Op::Eq(*a as usize, *b as usize),
            ("E", [a, b]) => Op::EqTyped(*a as usize, *b as usize),
            ("x", [l, v]) => Op::Index(*l as usize, *v),
            ("y", [l]) => Op::IsEmpty(*l as usize),
            ("t", [l]) => Op::ToVec(*l as usize),
            ("I", [l]) => Op::IterNew(*l as usize),
            _ => return None,
        })
    }
}

#[derive(Clone, Debug, PartialEq)]
enum Res {
    Unit,
    Opt(Option<u64>),
    Bool(bool),
    Nat(usize),
    List(Vec<u64>),
    Uaf,
}

fn dots(v: &[u64]) -> String {
    v.iter().map(|x| x.to_string()).collect::<Vec<_>>().join(".")
}

impl Res {
    fn text(&self) -> String {
        match self {
            Res::Unit => "u".into(),
            Res::Opt(None) => "o-".into(),
            Res::Opt(Some(v)) => format!("o{v}"),
            Res::Bool(b) => if *b { "b1".into() } else { "b0".into() },
            Res::Nat(n) => format!("n{n}"),
            Res::List(v) => format!("l{}", dots(v)),
            Res::Uaf => "X".into(),
        }
    }
}

#[derive(Clone, Debug)]
struct Case {
    lists: Vec<Vec<u64>>,
    progs: Vec<Vec<Op>>,
    /// the lists hold probe elements (`hk::ProbeElem`): every clone /
    /// comparison of an element is a schedule point of its own; such a case
    /// is judged by the property oracle only (the Lean model's steps are
    /// those of `u64` elements)
    elem: bool,
    /// the operations that have a script-side adapter (get, push, concat /
    /// `+`, contains, index, swap, len, is_empty, `==`) are called through
    /// compiled Roto functions (`u64` elements)
    script: bool,
}

impl Case {
    fn lists_text(&self) -> String {
        self.lists.iter().map(|l| format!("L{}", dots(l))).collect::<Vec<_>>().join(";")
    }
    /// the programs as the model sees them
    fn model_progs_text(&self) -> String {
        self.progs
            .iter()
            .map(|p| p.iter().map(|o| o.model_text(self.script)).collect::<Vec<_>>().join(","))
            .collect::<Vec<_>>()
            .join(";")
    }
    fn progs_text(&self) -> String {
        self.progs
            .iter()
            .map(|p| p.iter().map(|o| o.text()).collect::<Vec<_>>().join(","))
            .collect::<Vec<_>>()
            .join(";")
    }
    fn parse(lists: &str, progs: &str) -> Option<Case> {
        let lists = lists
            .split(';')
            .map(|l| {
                let l = l.strip_prefix('L')?;
                if l.is_empty() { Some(vec![]) } else { l.split('.').map(|x| x.parse().ok()).collect() }
            })
            .collect::<Option<Vec<_>>>()?;
        let progs = progs
            .split(';')
            .map(|p| if p.is_empty() { Some(vec![]) } else { p.split(',').map(Op::parse).collect() })
            .collect::<Option<Vec<_>>>()?;
        Some(Case { lists, progs, elem: false, script: false })
    }
    /// some thread drives a Rust-side iterator (an adaptive program)
    fn has_iter(&self) -> bool {
        self.progs.iter().flatten().any(|o| matches!(o, Op::IterNew(..) | Op::IterNext | Op::IterDrop))
    }
    /// The programs as the property oracle sees them: every `next` that has a
    /// result (and the one in progress) is the `get` at the iterator's cursor,
    /// where the cursor starts at 0 and moves iff `next` yielded an element —
    /// the shared-vector meaning of an iterator, independent of the model.
    fn resolved(&self, results: &[Vec<Res>]) -> Case {
        let mut c = self.clone();
        for (t, p) in c.progs.iter_mut().enumerate() {
            let mut cur: Option<(usize, usize)> = None;
            for (k, op) in p.iter_mut().enumerate() {
                let res = results.get(t).and_then(|r| r.get(k));
                match op {
                    Op::IterNew(l) => cur = Some((*l, 0)),
                    Op::IterDrop => cur = None,
                    Op::IterNext => {
                        if let Some((l, i)) = cur {
                            *op = Op::IterGet(l, i);
                            if let Some(Res::Opt(Some(_))) = res {
                                cur = Some((l, i + 1));
                            }
                        }
                    }
                    _ => {}
                }
                if res.is_none() {
                    break; // what comes after the operation in progress depends on its result
                }
            }
        }
        c
    }
    fn json(&self) -> serde_json::Value {
        let mut j = json!({"lists": self.lists_text(), "progs": self.progs_text()});
        if self.elem {
            j["elem"] = json!(true);
        }
        if self.script {
            j["script"] = json!(true);
        }
        j
    }
    /// class signature: the kinds of operations per thread (sorted by thread text)
    fn kinds(&self) -> String {
        let mut t: Vec<String> =
            self.progs.iter().map(|p| p.iter().map(|o| o.kind()).collect::<Vec<_>>().join("+")).collect();
        t.sort();
        if self.elem {
            format!("elem:{}", t.join("|"))
        } else if self.script {
            format!("script:{}", t.join("|"))
        } else {
            t.join("|")
        }
    }
}

// ---------------------------------------------------------------- the script-side adapters

const SCRIPT_SRC: &str = "
fn l_get(l: List[u64], i: u64) -> u64? { l.get(i) }
fn l_push(l: List[u64], v: u64) { l.push(v); }
fn l_concat(a: List[u64], b: List[u64]) -> List[u64] { a.concat(b) }
fn l_plus(a: List[u64], b: List[u64]) -> List[u64] { a + b }
fn l_contains(l: List[u64], v: u64) -> bool { l.contains(v) }
fn l_index(l: List[u64], v: u64) -> u64? { l.index(v) }
fn l_swap(l: List[u64], i: u64, j: u64) { l.swap(i, j); }
fn l_len(l: List[u64]) -> u64 { l.len() }
fn l_is_empty(l: List[u64]) -> bool { l.is_empty() }
fn l_eq(a: List[u64], b: List[u64]) -> bool { a == b }
";

type L = List<u64>;
type TF<F> = roto::TypedFunc<roto::NoCtx, F>;

/// the list operations as compiled Roto functions (`src/runtime/basic.rs`
/// adapters between the script and `ErasedList`)
struct ScriptFns {
    get: TF<fn(L, u64) -> Option<u64>>,
    push: TF<fn(L, u64)>,
    concat: TF<fn(L, L) -> L>,
    plus: TF<fn(L, L) -> L>,
    contains: TF<fn(L, u64) -> bool>,
    index: TF<fn(L, u64) -> Option<u64>>,
    swap: TF<fn(L, u64, u64)>,
    len: TF<fn(L) -> u64>,
    is_empty: TF<fn(L) -> bool>,
    eq: TF<fn(L, L) -> bool>,
}

fn script_fns() -> &'static ScriptFns {
    static FNS: std::sync::OnceLock<ScriptFns> = std::sync::OnceLock::new();
    FNS.get_or_init(|| {
        let rt = roto::Runtime::new();
        let mut pkg = roto::FileTree::test_file("c16.roto", SCRIPT_SRC, 0)
            .compile(&rt)
            .unwrap_or_else(|e| panic!("the C16 script does not compile: {e}"));
        ScriptFns {
            get: pkg.get_function("l_get").expect("l_get"),
            push: pkg.get_function("l_push").expect("l_push"),
            concat: pkg.get_function("l_concat").expect("l_concat"),
            plus: pkg.get_function("l_plus").expect("l_plus"),
            contains: pkg.get_function("l_contains").expect("l_contains"),
            index: pkg.get_function("l_index").expect("l_index"),
            swap: pkg.get_function("l_swap").expect("l_swap"),
            len: pkg.get_function("l_len").expect("l_len"),
            is_empty: pkg.get_function("l_is_empty").expect("l_is_empty"),
            eq: pkg.get_function("l_eq").expect("l_eq"),
        }
    })
}

/// what a script-side operation gave: a result, or the fresh list of a concat
enum ScriptOut<T: roto::Value> {
    Res(Res),
    NewList(List<T>),
}

fn script_op_u64(op: &Op, bag: &[Vec<L>]) -> Option<ScriptOut<u64>> {
    let f = script_fns();
    let h = |l: &usize| bag[*l].last().unwrap().clone();
    Some(match op {
        Op::Get(l, i) | Op::FfiGet(l, i) => ScriptOut::Res(Res::Opt(f.get.call(h(l), *i as u64))),
        Op::Push(l, v) => {
            f.push.call(h(l), *v);
            ScriptOut::Res(Res::Unit)
        }
        Op::Concat(a, b) => ScriptOut::NewList(f.concat.call(h(a), h(b))),
        Op::Plus(a, b) => ScriptOut::NewList(f.plus.call(h(a), h(b))),
        Op::Contains(l, v) => ScriptOut::Res(Res::Bool(f.contains.call(h(l), *v))),
        Op::Index(l, v) => ScriptOut::Res(Res::Opt(f.index.call(h(l), *v))),
        Op::Swap(l, i, j) => {
            f.swap.call(h(l), *i as u64, *j as u64);
            ScriptOut::Res(Res::Unit)
        }
        Op::Len(l) => ScriptOut::Res(Res::Nat(f.len.call(h(l)) as usize)),
        Op::IsEmpty(l) => ScriptOut::Res(Res::Bool(f.is_empty.call(h(l)))),
        Op::Eq(a, b) => ScriptOut::Res(Res::Bool(f.eq.call(h(a), h(b)))),
        // no script-side adapter: the Rust side
        Op::EqTyped(..) | Op::ToVec(..) | Op::Clone(..) | Op::Drop(..) => return None,
        Op::IterNew(..) | Op::IterNext | Op::IterDrop | Op::IterGet(..) => return None,
    })
}

// ---------------------------------------------------------------- element types

/// the element type of the lists of a case
trait El: 'static {
    type T: roto::Value<Transformed: PartialEq> + Clone + Send + Sync + 'static;
    fn mk(v: u64) -> Self::T;
    /// the two halves of an element (equal for every value ever stored)
    fn halves(t: &Self::T) -> (u64, u64);
    fn lock_id(l: &List<Self::T>) -> usize;
    fn ffi_get(l: &List<Self::T>, i: u64) -> Option<(u64, u64)>;
    fn contains_owned(l: &List<Self::T>, v: u64) -> bool;
    fn erased_eq(a: &List<Self::T>, b: &List<Self::T>) -> bool;
    /// the operation through its script-side adapter (`u64` lists only)
    fn script_op(_op: &Op, _bag: &[Vec<List<Self::T>>]) -> Option<ScriptOut<Self::T>> {
        None
    }
}

struct U64El;
impl El for U64El {
    type T = u64;
    fn mk(v: u64) -> u64 {
        v
    }
    fn halves(t: &u64) -> (u64, u64) {
        (*t, *t)
    }
    fn lock_id(l: &List<u64>) -> usize {
        hk::lock_id(l)
    }
    fn ffi_get(l: &List<u64>, i: u64) -> Option<(u64, u64)> {
        hk::ffi_get_u64(l, i).map(|v| (v, v))
    }
    fn contains_owned(l: &List<u64>, v: u64) -> bool {
        hk::contains_owned_u64(l, v)
    }
    fn erased_eq(a: &List<u64>, b: &List<u64>) -> bool {
        hk::erased_eq_u64(a, b)
    }
    fn script_op(op: &Op, bag: &[Vec<List<u64>>]) -> Option<ScriptOut<u64>> {
        script_op_u64(op, bag)
    }
}

struct ProbeEl;
impl El for ProbeEl {
    type T = roto::Val<hk::ProbeElem>;
    fn mk(v: u64) -> Self::T {
        roto::Val(hk::ProbeElem::new(v))
    }
    fn halves(t: &Self::T) -> (u64, u64) {
        t.0.halves()
    }
    fn lock_id(l: &List<Self::T>) -> usize {
        hk::lock_id_of(l)
    }
    fn ffi_get(l: &List<Self::T>, i: u64) -> Option<(u64, u64)> {
        hk::ffi_get_probe(l, i)
    }
    fn contains_owned(l: &List<Self::T>, v: u64) -> bool {
        hk::contains_owned_probe(l, v)
    }
    fn erased_eq(a: &List<Self::T>, b: &List<Self::T>) -> bool {
        hk::erased_eq_of(a, b)
    }
}

// ---------------------------------------------------------------- one schedule on the real code

/// what one executed schedule looked like
#[derive(Clone, Debug, Default)]
struct Exec {
    /// the schedule actually taken
    sched: Vec<usize>,
    /// per step: (tid, event letters, threads blocked before the step)
    steps: Vec<(usize, String, Vec<usize>)>,
    /// per step: enabled threads before the step (for the depth-first search)
    enabled: Vec<Vec<usize>>,
    /// "ok" | "dl" | "trap" | "hung" | "bad:<why>"
    end: String,
    results: Vec<Vec<Res>>,
    /// per thread, per completed operation: (first step index, last step index)
    spans: Vec<Vec<(usize, usize)>>,
    /// per thread, per completed operation: the indices of all its steps
    op_steps: Vec<Vec<Vec<usize>>>,
    /// per thread: is an operation in progress (some but not all of its steps done)
    in_progress: Vec<bool>,
    lists: Vec<Option<Vec<u64>>>,
    /// site names of schedule points at which `O` / `S` were reported
    sites: Vec<(usize, char, String)>,
    /// what the threads themselves noticed: (thread, operation index, what) —
    /// `torn-element` (a result whose two halves differ: never in the list),
    /// `concat-aliases-operand` (the result of concat is not a fresh list)
    flags: Vec<(usize, usize, String)>,
}

impl Exec {
    /// the observation in the driver's format (see lean/Driver/C16.lean)
    fn obs(&self) -> String {
        let steps: Vec<String> = self
            .steps
            .iter()
            .map(|(t, e, b)| format!("{t}{e}~{}", b.iter().map(|x| x.to_string()).collect::<String>()))
            .collect();
        let res: Vec<String> =
            self.results.iter().map(|r| r.iter().map(|x| x.text()).collect::<Vec<_>>().join(",")).collect();
        let lists: Vec<String> =
            self.lists.iter().map(|l| l.as_ref().map(|l| dots(l)).unwrap_or_else(|| "-".into())).collect();
        // completed operations in completion order: thread, first step, last step
        let mut spans: Vec<(usize, usize, usize)> = self
            .spans
            .iter()
            .enumerate()
            .flat_map(|(t, v)| v.iter().map(move |(a, b)| (t, *a, *b)))
            .collect();
        spans.sort_by_key(|x| x.2);
        let spans: Vec<String> = spans.iter().map(|(t, a, b)| format!("{t}:{a}-{b}")).collect();
        format!("{};{};{};{};{}", steps.join(","), self.end, res.join("/"), lists.join("/"), spans.join(","))
    }
    fn sched_text(&self) -> String {
        self.sched.iter().map(|t| t.to_string()).collect()
    }
}

fn ev_letter(e: &hk::Event) -> char {
    match e {
        hk::Event::PtrObtained { .. } => 'P',
        hk::Event::PtrOutsideLock { .. } => 'O',
        hk::Event::PtrUse { stale: false, .. } => 'U',
        hk::Event::PtrUse { stale: true, .. } => 'S',
        hk::Event::PtrUseFinished { .. } => 'F',
        hk::Event::Realloc { .. } => 'R',
        hk::Event::Free { .. } => 'D',
    }
}

/// generous: the machine may be heavily loaded; a real hang ends the case
const STEP_LIMIT: Duration = Duration::from_secs(20);
/// steps that did not come back so far in this process: after two of them (the
/// tree is reported as violating anyway) the following ones wait 3 s only, so that
/// a change that blocks on an unannounced lock in many cases does not cost
/// 20 s for each of them
static HUNG_STEPS: std::sync::atomic::AtomicUsize = std::sync::atomic::AtomicUsize::new(0);
fn step_limit() -> Duration {
    if HUNG_STEPS.load(std::sync::atomic::Ordering::SeqCst) >= 2 { Duration::from_secs(3) } else { STEP_LIMIT }
}

/// what a thread hands back: results, spans are computed by the controller
struct ThreadOut<E: El> {
    results: Vec<Res>,
    /// number of operations completed
    handles: Vec<Vec<List<E::T>>>,
}

type Flags = std::sync::Arc<std::sync::Mutex<Vec<(usize, usize, String)>>>;

fn run_thread<E: El>(
    session: std::sync::Arc<hk::Session>,
    tid: usize,
    prog: Vec<Op>,
    mut bag: Vec<Vec<List<E::T>>>,
    done: std::sync::Arc<std::sync::Mutex<Vec<Vec<Res>>>>,
    flags: Flags,
    script: bool,
) -> ThreadOut<E> {
    session.attach(tid);
    let mut results = vec![];
    // this thread's live iterator: (list, iterator, a second handle through which the
    // final contents can be read if the iterator is alive at the end)
    let mut iter: Option<(usize, <List<E::T> as IntoIterator>::IntoIter, List<E::T>)> = None;
    let r = std::panic::catch_unwind(std::panic::AssertUnwindSafe(|| {
        for (opi, op) in prog.iter().enumerate() {
            // one value of an element; different halves = a value that never was in the list
            let one = |h: (u64, u64)| -> u64 {
                if h.0 != h.1 {
                    flags.lock().unwrap().push((tid, opi, format!("torn-element {}|{}", h.0, h.1)));
                }
                h.0
            };
            let vals = |v: &[E::T]| -> Vec<u64> { v.iter().map(|e| one(E::halves(e))).collect() };
            hk::op_begin();
            // the result of a concat: must be a fresh list, not one of the
            // operands; reading (and releasing) it is not part of the
            // operation — detach meanwhile. Afterwards a push to the result,
            // which no operand may see.
            let fresh = |n: List<E::T>, a: &usize, b: &usize| -> Res {
                let id = E::lock_id(&n);
                if id == E::lock_id(bag[*a].last().unwrap()) || id == E::lock_id(bag[*b].last().unwrap()) {
                    flags.lock().unwrap().push((tid, opi, "concat-aliases-operand".into()));
                }
                Res::List(vals(&unattached(&session, tid, move || {
                    let v = n.to_vec();
                    n.push(E::mk(99));
                    v
                })))
            };
            if script {
                if let Op::Eq(a, b) = op {
                    if a == b {
                        // `l == l` takes no lock: the operation's one step starts here
                        hk::sched_op("harness:eq-same");
                    }
                }
            }
            let scripted = if script { E::script_op(op, &bag) } else { None };
            let res = match (scripted, op) {
                (Some(ScriptOut::Res(r)), _) => r,
                (Some(ScriptOut::NewList(n)), Op::Concat(a, b) | Op::Plus(a, b)) => fresh(n, a, b),
                (Some(ScriptOut::NewList(_)), _) => unreachable!(),
                (None, op) => match op {
                Op::Get(l, i) => Res::Opt(bag[*l].last().unwrap().get(*i).map(|e| one(E::halves(&e)))),
                Op::FfiGet(l, i) => Res::Opt(E::ffi_get(bag[*l].last().unwrap(), *i as u64).map(one)),
                Op::Push(l, v) => {
                    bag[*l].last().unwrap().push(E::mk(*v));
                    Res::Unit
                }
                Op::Concat(a, b) | Op::Plus(a, b) => {
                    let n = bag[*a].last().unwrap().concat(bag[*b].last().unwrap());
                    fresh(n, a, b)
                }
                Op::Contains(l, v) => Res::Bool(E::contains_owned(bag[*l].last().unwrap(), *v)),
                Op::Swap(l, i, j) => {
                    bag[*l].last().unwrap().swap(*i, *j);
                    Res::Unit
                }
                Op::Len(l) => Res::Nat(bag[*l].last().unwrap().len()),
                Op::EqTyped(a, b) => {
                    if a == b {
                        hk::sched_op("harness:eq-same");
                    }
                    Res::Bool(bag[*a].last().unwrap() == bag[*b].last().unwrap())
                }
                Op::Index(l, v) => Res::Opt(bag[*l].last().unwrap().index(&E::mk(*v)).map(|i| i as u64)),
                Op::IsEmpty(l) => Res::Bool(bag[*l].last().unwrap().is_empty()),
                Op::ToVec(l) => Res::List(vals(&bag[*l].last().unwrap().to_vec())),
                Op::Clone(l) => {
                    hk::sched_op("harness:clone");
                    let c = bag[*l].last().unwrap().clone();
                    bag[*l].push(c);
                    Res::Unit
                }
                Op::Drop(l) => {
                    hk::sched_op("harness:drop");
                    drop(bag[*l].pop());
                    Res::Unit
                }
                Op::Eq(a, b) => {
                    if a == b {
                        hk::sched_op("harness:eq-same");
                    }
                    Res::Bool(E::erased_eq(bag[*a].last().unwrap(), bag[*b].last().unwrap()))
                }
                Op::IterNew(l) => {
                    hk::sched_op("harness:iter-new");
                    let h = bag[*l].last().unwrap();
                    iter = Some((*l, h.clone().into_iter(), h.clone()));
                    Res::Unit
                }
                Op::IterNext | Op::IterGet(..) => match iter.as_mut() {
                    Some((_, it, _)) => Res::Opt(it.next().map(|e| one(E::halves(&e)))),
                    None => panic!("harness: `next` without an iterator"),
                },
                Op::IterDrop => {
                    hk::sched_op("harness:iter-drop");
                    if let Some((_, it, keep)) = iter.take() {
                        drop(keep);
                        drop(it);
                    }
                    Res::Unit
                }
                },
            };
            done.lock().unwrap()[tid].push(res.clone());
            results.push(res);
        }
    }));
    if let Err(p) = r {
        if p.downcast_ref::<hk::StaleUse>().is_some() {
            done.lock().unwrap()[tid].push(Res::Uaf);
            results.push(Res::Uaf);
        } else if p.downcast_ref::<hk::Aborted>().is_some() {
            // session ended while parked
        } else {
            let msg = p
                .downcast_ref::<String>()
                .cloned()
                .or_else(|| p.downcast_ref::<&str>().map(|s| s.to_string()))
                .unwrap_or_else(|| "panic".into());
            eprintln!("C16-THREAD-PANIC {tid}: {msg}");
            // in the shared-vector model every operation returns
            flags.lock().unwrap().push((tid, results.len(), format!("panic {msg}")));
        }
    }
    session.finish(tid);
    if let Some((l, it, keep)) = iter.take() {
        bag[l].push(keep);
        drop(it);
    }
    ThreadOut { results, handles: bag }
}

/// run `f` with the calling thread detached from the session (its lock
/// acquisitions are not schedule points)
fn unattached<R>(session: &std::sync::Arc<hk::Session>, tid: usize, f: impl FnOnce() -> R) -> R {
    hk::detach();
    let r = f();
    session.attach(tid);
    r
}

/// Execute `case` along `prefix`, then (if `extend`) keep going with the
/// lowest enabled thread until nobody can move.
fn exec(case: &Case, prefix: &[usize], extend: bool) -> Exec {
    if case.elem { exec_with::<ProbeEl>(case, prefix, extend) } else { exec_with::<U64El>(case, prefix, extend) }
}

fn exec_with<E: El>(case: &Case, prefix: &[usize], extend: bool) -> Exec {
    let n = case.progs.len();
    // through a script a stale use cannot unwind (frames of compiled code):
    // it is reported and performed
    let script = case.script;
    if script {
        let _ = script_fns(); // compile before anybody is attached
    }
    let session = hk::Session::new(n, !script);
    // list index order = address order of the lists' mutexes (`==` locks in
    // address order; the model uses the index)
    let mut shared: Vec<List<E::T>> = case.lists.iter().map(|_| List::new()).collect();
    shared.sort_by_key(E::lock_id);
    for (l, elems) in shared.iter().zip(&case.lists) {
        for v in elems {
            l.push(E::mk(*v));
        }
    }
    let done = std::sync::Arc::new(std::sync::Mutex::new(vec![vec![]; n]));
    let flags: Flags = Default::default();
    let mut joins = vec![];
    for t in 0..n {
        let bag: Vec<Vec<List<E::T>>> = shared.iter().map(|l| vec![l.clone()]).collect();
        let (s, p, d, f) = (session.clone(), case.progs[t].clone(), done.clone(), flags.clone());
        // the machine may be out of threads for a moment: wait and try again
        let mut job = Some((s, p, bag, d, f));
        let mut tries = 0;
        let handle = loop {
            let (s, p, bag, d, f) = job.take().unwrap();
            let r = std::thread::Builder::new().stack_size(256 * 1024).spawn(move || run_thread::<E>(s, t, p, bag, d, f, script));
            match r {
                Ok(h) => break h,
                Err(e) => {
                    tries += 1;
                    if tries > 50 {
                        panic!("cannot spawn a thread: {e}");
                    }
                    std::thread::sleep(Duration::from_millis(100));
                    // the closure (and what it captured) is gone: rebuild the job
                    let bag: Vec<Vec<List<E::T>>> = shared.iter().map(|l| vec![l.clone()]).collect();
                    job = Some((session.clone(), case.progs[t].clone(), bag, done.clone(), flags.clone()));
                }
            }
        };
        joins.push(handle);
    }
    drop(shared); // strong count of every list = number of threads
    let mut ex = Exec { spans: vec![vec![]; n], op_steps: vec![vec![]; n], ..Default::default() };
    let mut first_step: Vec<Option<usize>> = vec![None; n];
    let mut cur_steps: Vec<Vec<usize>> = vec![vec![]; n];
    let mut completed: Vec<usize> = vec![0; n];
    if !session.wait_quiescent(step_limit()) {
        HUNG_STEPS.fetch_add(1, std::sync::atomic::Ordering::SeqCst);
        ex.end = "hung".into();
    }
    let mut k = 0usize;
    while ex.end.is_empty() {
        let st: Vec<hk::Status> = (0..n).map(|t| session.status(t)).collect();
        let blocked: Vec<usize> = (0..n)
            .filter(|&t| matches!(st[t], hk::Status::Parked { lock_free: Some(false), .. }))
            .collect();
        let enabled: Vec<usize> = (0..n)
            .filter(|&t| matches!(st[t], hk::Status::Parked { .. }) && !blocked.contains(&t))
            .collect();
        let t = if k < prefix.len() {
            let t = prefix[k];
            if !enabled.contains(&t) {
                ex.end = format!("bad:step {k}: thread {t} is not enabled (enabled {enabled:?}, blocked {blocked:?})");
                break;
            }
            t
        } else if !extend {
            // end of the given schedule
            ex.end = if enabled.is_empty() && blocked.is_empty() {
                "ok".into()
            } else if enabled.is_empty() {
                "dl".into()
            } else {
                "bad:schedule ends before the threads do".into()
            };
            break;
        } else if let Some(&t) = enabled.first() {
            t
        } else {
            ex.end = if blocked.is_empty() { "ok".into() } else { "dl".into() };
            break;
        };
        let site = match &st[t] {
            hk::Status::Parked { site, .. } => site.to_string(),
            _ => String::new(),
        };
        let (end, evs) = session.grant(t, step_limit());
        let letters: String = evs.iter().map(ev_letter).collect();
        for e in &evs {
            match e {
                hk::Event::PtrOutsideLock { site, .. } => ex.sites.push((k, 'O', site.to_string())),
                hk::Event::PtrUse { stale: true, .. } => ex.sites.push((k, 'S', site.clone())),
                _ => {}
            }
        }
        ex.sched.push(t);
        ex.steps.push((t, letters.clone(), blocked));
        ex.enabled.push(enabled);
        if first_step[t].is_none() {
            first_step[t] = Some(k);
        }
        cur_steps[t].push(k);
        // operations completed by this step
        let now = done.lock().unwrap()[t].len();
        while completed[t] < now {
            ex.spans[t].push((first_step[t].unwrap_or(k), k));
            ex.op_steps[t].push(std::mem::take(&mut cur_steps[t]));
            completed[t] += 1;
            first_step[t] = None;
        }
        k += 1;
        if end == hk::StepEnd::Hung {
            HUNG_STEPS.fetch_add(1, std::sync::atomic::Ordering::SeqCst);
            ex.end = "hung".into();
        } else if letters.contains('S') {
            ex.end = "trap".into();
        }
    }
    ex.in_progress = cur_steps.iter().map(|c| !c.is_empty()).collect();
    let clean = ex.end == "ok";
    // what had completed when the schedule ended (a thread released from an
    // element-level schedule point by `abort` runs on to the end of its program)
    let results_at_end = done.lock().unwrap().clone();
    if !clean {
        if script {
            session.abort_nounwind();
        } else {
            session.abort();
        }
    }
    let mut outs = vec![];
    if script && (ex.end == "dl" || ex.end == "hung") {
        // the threads stay blocked on the real locks for good: leave them
        LEAKED_SESSIONS.fetch_add(1, std::sync::atomic::Ordering::SeqCst);
        std::mem::forget(joins);
    } else if ex.end != "hung" {
        for j in joins {
            match j.join() {
                Ok(o) => outs.push(o),
                Err(_) => ex.end = format!("bad:thread panicked outside the operations ({})", ex.end),
            }
        }
    }
    ex.results = results_at_end;
    ex.flags = flags.lock().unwrap().clone();
    let panicked = ex.flags.iter().any(|f| f.2.starts_with("panic "));
    if panicked && ex.end == "ok" {
        // (the list's mutex is poisoned: its contents cannot be read any more)
        ex.end = "panic".into();
    }
    if clean && !panicked && outs.len() == n {
        // final contents of the shared lists, through any handle still alive
        for l in 0..case.lists.len() {
            let h = outs.iter().find_map(|o| o.handles[l].last());
            ex.lists.push(h.map(|h| {
                h.to_vec()
                    .iter()
                    .map(|e| {
                        let (a, b) = E::halves(e);
                        if a != b {
                            ex.flags.push((usize::MAX, 0, format!("torn-element {a}|{b}")));
                        }
                        a
                    })
                    .collect()
            }));
        }
    }
    let _ = outs.iter().map(|o| o.results.len()).sum::<usize>();
    ex
}

/// script-side sessions that ended in a deadlock: their threads are still there
static LEAKED_SESSIONS: std::sync::atomic::AtomicUsize = std::sync::atomic::AtomicUsize::new(0);

/// every maximal schedule of the real code, by stateless depth-first search
fn enumerate_real(case: &Case, limit: usize) -> (Vec<Exec>, bool) {
    let mut out = vec![];
    let mut todo: Vec<Vec<usize>> = vec![vec![]];
    let mut cut = false;
    while let Some(prefix) = todo.pop() {
        if out.len() >= limit || LEAKED_SESSIONS.load(std::sync::atomic::Ordering::SeqCst) > 40 {
            cut = true;
            break;
        }
        let ex = exec(case, &prefix, true);
        if ex.end == "hung" {
            // a step that never comes back: one report is enough for this case
            out.push(ex);
            cut = true;
            break;
        }
        for k in prefix.len()..ex.sched.len() {
            for &alt in &ex.enabled[k] {
                if alt != ex.sched[k] {
                    let mut p = ex.sched[..k].to_vec();
                    p.push(alt);
                    todo.push(p);
                }
            }
        }
        out.push(ex);
    }
    (out, cut)
}

// ---------------------------------------------------------------- the property oracle

/// sequential specification on plain vectors
fn spec_op(lists: &mut [Vec<u64>], op: &Op) -> Res {
    match op {
        Op::Get(l, i) | Op::FfiGet(l, i) | Op::IterGet(l, i) => Res::Opt(lists[*l].get(*i).copied()),
        Op::IterNew(_) | Op::IterDrop => Res::Unit,
        // (a `next` whose cursor is not known has no result to explain)
        Op::IterNext => Res::Uaf,
        Op::Push(l, v) => {
            lists[*l].push(*v);
            Res::Unit
        }
        Op::Concat(a, b) | Op::Plus(a, b) => {
            let mut v = lists[*a].clone();
            v.extend_from_slice(&lists[*b]);
            Res::List(v)
        }
        Op::Contains(l, v) => Res::Bool(lists[*l].contains(v)),
        Op::Swap(l, i, j) => {
            if *i < lists[*l].len() && *j < lists[*l].len() {
                lists[*l].swap(*i, *j);
            }
            Res::Unit
        }
        Op::Len(l) => Res::Nat(lists[*l].len()),
        Op::Index(l, v) => Res::Opt(lists[*l].iter().position(|x| x == v).map(|i| i as u64)),
        Op::IsEmpty(l) => Res::Bool(lists[*l].is_empty()),
        Op::ToVec(l) => Res::List(lists[*l].clone()),
        Op::Clone(_) | Op::Drop(_) => Res::Unit,
        Op::Eq(a, b) | Op::EqTyped(a, b) => Res::Bool(lists[*a] == lists[*b]),
    }
}

/// Is there a total order of the completed operations that keeps real-time
/// order (an operation whose last step precedes another's first step comes
/// first) and whose sequential results and final lists are the observed ones?
fn linearizable(case: &Case, ex: &Exec) -> bool {
    fn go(case: &Case, ex: &Exec, pos: &mut Vec<usize>, lists: &mut Vec<Vec<u64>>) -> bool {
        let n = case.progs.len();
        if (0..n).all(|t| pos[t] == ex.results[t].len()) {
            // a list whose every handle was dropped cannot be observed any more
            return lists.iter().zip(&ex.lists).all(|(a, b)| b.as_ref().map(|b| a == b).unwrap_or(true));
        }
        for t in 0..n {
            if pos[t] >= ex.results[t].len() {
                continue;
            }
            let (start, _) = ex.spans[t][pos[t]];
            // real-time order: nobody else's pending operation ended before this one started
            let ok = (0..n).all(|u| u == t || pos[u] >= ex.results[u].len() || ex.spans[u][pos[u]].1 >= start);
            if !ok {
                continue;
            }
            let saved = lists.clone();
            let r = spec_op(lists, &case.progs[t][pos[t]]);
            if r == ex.results[t][pos[t]] {
                pos[t] += 1;
                if go(case, ex, pos, lists) {
                    return true;
                }
                pos[t] -= 1;
            }
            *lists = saved;
        }
        false
    }
    go(case, ex, &mut vec![0; case.progs.len()], &mut case.lists.clone())
}

/// Replay the schedule on the sequential specification with every operation
/// taking effect at its last step, except that `concat` reads its first
/// operand at its second step (where the implementation copies it) and its
/// second operand at its last step. True if that explains every result and
/// the final lists: the only departure from atomicity is `concat` reading its
/// operands in two critical sections.
fn explained_by_two_section_concat(case: &Case, ex: &Exec) -> bool {
    // (only a history with a concat can be explained by it; an operation that
    // passed no schedule point at all has no step to be replayed at)
    if !case.progs.iter().flatten().any(|o| matches!(o, Op::Concat(..) | Op::Plus(..))) {
        return false;
    }
    let n = case.progs.len();
    let mut lists = case.lists.clone();
    let mut snap: Vec<Option<Vec<u64>>> = vec![None; n];
    for k in 0..ex.sched.len() {
        let t = ex.sched[k];
        let Some(i) = ex.op_steps[t].iter().position(|st| st.contains(&k)) else {
            return false;
        };
        let op = &case.progs[t][i];
        let st = &ex.op_steps[t][i];
        if let Op::Concat(a, b) | Op::Plus(a, b) = op {
            if st.len() != 3 {
                return false;
            }
            if k == st[1] {
                snap[t] = Some(lists[*a].clone());
            }
            if k == st[2] {
                let mut v = snap[t].take().unwrap_or_default();
                v.extend_from_slice(&lists[*b]);
                if Res::List(v) != ex.results[t][i] {
                    return false;
                }
            }
            continue;
        }
        if k == *st.last().unwrap() && spec_op(&mut lists, op) != ex.results[t][i] {
            return false;
        }
    }
    lists.iter().zip(&ex.lists).all(|(a, b)| b.as_ref().map(|b| a == b).unwrap_or(true))
}

fn replay_json(case: &Case, ex: &Exec) -> serde_json::Value {
    let mut j = json!({"lists": case.lists_text(), "progs": case.progs_text(), "sched": ex.sched_text(), "observed": ex.obs()});
    if case.elem {
        j["elem"] = json!(true);
    }
    if case.script {
        j["script"] = json!(true);
    }
    j
}

/// the operation thread `t` was executing at step `k`
fn op_at(case: &Case, ex: &Exec, t: usize, k: usize) -> Option<Op> {
    let mut i = 0;
    for (a, b) in &ex.spans[t] {
        if k >= *a && k <= *b {
            return case.progs[t].get(i).cloned();
        }
        i += 1;
    }
    case.progs[t].get(i).cloned()
}

/// check one executed schedule against the property; report violations
fn judge_resolved(orig: &Case, case: &Case, ex: &Exec, rep: &mut Report) {
    for (t, opi, what) in &ex.flags {
        let opk = case.progs.get(*t).and_then(|p| p.get(*opi)).map(|o| o.kind()).unwrap_or("final-contents");
        if let Some(msg) = what.strip_prefix("panic ") {
            rep.violation(
                "a list operation panicked (in the shared-vector model every operation returns; the panic also poisons the list's lock for every other handle)",
                &format!("panic-in-operation {opk}"),
                {
                    let mut j = replay_json(orig, ex);
                    j["panic"] = json!(msg);
                    j
                },
            );
        } else if what.starts_with("torn-element") {
            rep.violation(
                "an operation returned an element whose two halves differ (every element ever stored has equal halves): the element was read while another thread was writing it",
                &format!("torn-element {opk}"),
                {
                    let mut j = replay_json(orig, ex);
                    j["torn"] = json!(what);
                    j
                },
            );
        } else {
            rep.violation(
                "the result of concat is one of its operands, not a fresh list (a later push through one handle is seen through the other)",
                &format!("{what} {opk}"),
                replay_json(orig, ex),
            );
        }
    }
    for (k, (t, letters, _)) in ex.steps.iter().enumerate() {
        let opk = op_at(case, ex, *t, k).map(|o| o.kind()).unwrap_or("?");
        if letters.contains('S') {
            let site = ex.sites.iter().find(|s| s.0 == k && s.1 == 'S').map(|s| s.2.clone()).unwrap_or_default();
            rep.violation(
                "an element was read through a pointer obtained before another thread's push reallocated the buffer (use after free)",
                &format!("stale-pointer-use {opk} at {site}"),
                replay_json(orig, ex),
            );
        }
        if letters.contains('O') {
            let site = ex.sites.iter().find(|s| s.0 == k && s.1 == 'O').map(|s| s.2.clone()).unwrap_or_default();
            rep.violation(
                "an element pointer is held across a schedule point while the list's mutex is free (it outlives its critical section)",
                &format!("pointer-outside-lock {opk} at {site}"),
                replay_json(orig, ex),
            );
        }
    }
    match ex.end.as_str() {
        "dl" => {
            // the threads that hold a mutex while they wait (an operation in
            // progress); a thread blocked at the first step of its operation
            // holds nothing and is a victim, not part of the cycle
            let mut kinds: Vec<&str> = (0..case.progs.len())
                .filter(|&t| ex.in_progress.get(t).copied().unwrap_or(false))
                .filter_map(|t| case.progs[t].get(ex.results[t].len()).map(|o| o.kind()))
                .collect();
            kinds.sort();
            rep.violation(
                "deadlock: every unfinished thread waits for a list mutex held by another",
                &format!("deadlock {}", kinds.join("+")),
                replay_json(orig, ex),
            );
        }
        "hung" => rep.violation(
            "a step did not reach its next schedule point within the time limit",
            "hung-step",
            replay_json(orig, ex),
        ),
        "ok" => {
            if !linearizable(case, ex) {
                let who = if explained_by_two_section_concat(case, ex) {
                    "concat-two-critical-sections".to_string()
                } else {
                    let mut kinds: Vec<&str> = case.progs.iter().flatten().map(|o| o.kind()).collect();
                    kinds.sort();
                    kinds.dedup();
                    format!("other {}", kinds.join("+"))
                };
                rep.violation(
                    "the results of this schedule are not those of any sequential order of the operations that respects real-time order",
                    &format!("not-linearizable {who}"),
                    replay_json(orig, ex),
                );
            }
        }
        _ => {}
    }
}

/// a thread that drives an iterator is judged as the `get`s at its cursor
fn judge(case: &Case, ex: &Exec, rep: &mut Report) {
    if case.has_iter() {
        judge_resolved(case, &case.resolved(&ex.results), ex, rep)
    } else {
        judge_resolved(case, case, ex, rep)
    }
}

// ---------------------------------------------------------------- cases

/// the operation alphabet over two shared lists: list 0 is full (a push
/// reallocates), list 1 has room
fn alphabet() -> Vec<Op> {
    vec![
        Op::Get(0, 1),
        Op::Get(0, 4),
        Op::FfiGet(0, 1),
        Op::FfiGet(0, 4),
        Op::Push(0, 7),
        Op::Push(1, 8),
        Op::Concat(0, 1),
        Op::Concat(0, 0),
        Op::Concat(1, 0),
        Op::Contains(0, 7),
        Op::Swap(0, 0, 1),
        Op::Len(0),
        Op::Clone(0),
        Op::Eq(0, 1),
        Op::Eq(1, 0),
        Op::Eq(0, 0),
        Op::Get(1, 0),
        Op::FfiGet(1, 1),
        Op::Contains(1, 8),
        Op::Len(1),
        Op::Index(0, 3),
        Op::ToVec(0),
        Op::IsEmpty(1),
        Op::EqTyped(0, 1),
        Op::EqTyped(1, 0),
    ]
}

fn base_lists() -> Vec<Vec<u64>> {
    vec![vec![1, 2, 3, 4], vec![5]]
}

/// a program may end with the drop of a handle it owns
fn with_drops(p: &[Op], rng: &mut Prng) -> Vec<Op> {
    let mut p = p.to_vec();
    if rng.chance(1, 6) {
        p.push(Op::Drop(rng.below(2) as usize));
        // nothing after a drop uses the list (the thread has no other handle)
    }
    p
}

fn random_op(rng: &mut Prng) -> Op {
    let l = rng.below(2) as usize;
    match rng.below(12) {
        0 | 1 => Op::Get(l, rng.below(6) as usize),
        2 | 3 => Op::FfiGet(l, rng.below(6) as usize),
        4 | 5 | 6 => Op::Push(l, 6 + rng.below(4)),
        7 => {
            if rng.chance(1, 3) { Op::Plus(l, rng.below(2) as usize) } else { Op::Concat(l, rng.below(2) as usize) }
        }
        8 => Op::Contains(l, 1 + rng.below(8)),
        9 => Op::Swap(l, rng.below(5) as usize, rng.below(5) as usize),
        10 => {
            if rng.chance(1, 2) { Op::Eq(l, rng.below(2) as usize) } else { Op::EqTyped(l, rng.below(2) as usize) }
        }
        _ => match rng.below(5) {
            0 => Op::Len(l),
            1 => Op::Clone(l),
            2 => Op::Index(l, 1 + rng.below(8)),
            3 => Op::IsEmpty(l),
            _ => Op::ToVec(l),
        },
    }
}

/// initial lists for random cases: lengths around the capacity steps 4 and 8
fn random_lists(rng: &mut Prng) -> Vec<Vec<u64>> {
    (0..2)
        .map(|_| {
            let len = *rng.pick(&[0usize, 1, 3, 4, 4, 7, 8]);
            (0..len).map(|i| 1 + (i as u64 % 5)).collect()
        })
        .collect()
}

/// reduced alphabet for the exhaustive 2 threads × ≤ 2 operations block of
/// the thorough tier
fn small_alphabet() -> Vec<Op> {
    vec![
        Op::Get(0, 1),
        Op::FfiGet(0, 3),
        Op::Push(0, 7),
        Op::Push(1, 8),
        Op::Concat(0, 1),
        Op::Concat(0, 0),
        Op::Swap(0, 0, 1),
        Op::Eq(0, 1),
        Op::Eq(1, 0),
    ]
}

/// all programs of one or two operations over the small alphabet
fn small_programs() -> Vec<Vec<Op>> {
    let a = small_alphabet();
    let mut out: Vec<Vec<Op>> = a.iter().map(|o| vec![o.clone()]).collect();
    for x in &a {
        for y in &a {
            out.push(vec![x.clone(), y.clone()]);
        }
    }
    // a live iterator over the full list (against every program above, and itself)
    out.push(vec![Op::IterNew(0), Op::IterNext, Op::IterNext]);
    out
}

fn n_random(thorough: bool) -> u64 {
    if thorough { 3_000 } else { 1_600 }
}

/// random cases over probe elements (element-level schedule points)
fn n_random_elem(thorough: bool) -> u64 {
    if thorough { 1_500 } else { 250 }
}

/// Class representatives, run first whatever the seed.
///
/// (a) element-level: every operation that reads elements (the *walkers*:
/// Rust-side get / to_vec / == / index, script-side get / == / contains,
/// concat in the three lock orders) against every operation that relocates
/// the buffer or rewrites elements (push to a full list, swap) on either
/// list, over probe elements: each clone / comparison of an element is a
/// schedule point, so a walk that is not covered by the list's lock can be
/// interleaved with the mutator. Lists `[1,2,3,4]` (full) and `[1,1,3,4]`
/// (full; equal to the first after a swap that lands between the comparison
/// of elements 0 and 1).
/// (b) concat with an empty operand on either side (the result must be a
/// fresh list), over `u64` and probe elements.
fn representatives() -> Vec<Case> {
    let mut out = vec![];
    let walkers = [
        Op::Get(0, 1),
        Op::FfiGet(0, 1),
        Op::ToVec(0),
        Op::EqTyped(0, 1),
        Op::EqTyped(1, 0),
        Op::Eq(0, 1),
        Op::Eq(1, 0),
        // (2 is in the list all the time; a swap that lands between the
        // comparisons of elements 0 and 1 hides it from an unlocked scan)
        Op::Contains(0, 2),
        Op::Index(0, 2),
        Op::Concat(0, 1),
        Op::Concat(1, 0),
        Op::Concat(0, 0),
    ];
    let mutators = [Op::Push(0, 7), Op::Swap(0, 0, 1), Op::Push(1, 7), Op::Swap(1, 0, 1)];
    for w in &walkers {
        for m in &mutators {
            out.push(Case {
                lists: vec![vec![1, 2, 3, 4], vec![1, 1, 3, 4]],
                progs: vec![vec![w.clone()], vec![m.clone()]],
                elem: true,
                script: false,
            });
        }
    }
    // `==` over two equal lists: the comparison walks to the end
    for w in [Op::EqTyped(0, 1), Op::EqTyped(1, 0), Op::Eq(0, 1), Op::Eq(1, 0)] {
        for m in &mutators {
            out.push(Case {
                lists: vec![vec![1, 2, 3, 4], vec![1, 2, 3, 4]],
                progs: vec![vec![w.clone()], vec![m.clone()]],
                elem: true,
                script: false,
            });
        }
    }
    // (c) the script-side adapters (`src/runtime/basic.rs`): histories through
    // compiled Roto functions — `a.concat(b)` and `a + b` with empty and
    // non-empty operands in every order, then a push / swap on the operands
    // (and, inside the harness, a push to the result) and reads of all of
    // them: first one thread alone, then against a pusher under the scheduler
    for (a, b) in [(vec![], vec![1u64, 2]), (vec![1, 2], vec![]), (vec![], vec![]), (vec![1, 2], vec![3])] {
        for (x, y) in [(0, 1), (1, 0), (0, 0), (1, 1)] {
            for plus in [false, true] {
                let c = if plus { Op::Plus(x, y) } else { Op::Concat(x, y) };
                out.push(Case {
                    lists: vec![a.clone(), b.clone()],
                    progs: vec![vec![
                        c.clone(),
                        Op::Push(0, 9),
                        Op::Swap(1, 0, 1),
                        Op::ToVec(0),
                        Op::ToVec(1),
                        Op::Get(0, 0),
                        Op::Len(1),
                        Op::Eq(0, 1),
                    ]],
                    elem: false,
                    script: true,
                });
                out.push(Case {
                    lists: vec![a.clone(), b.clone()],
                    progs: vec![vec![c, Op::ToVec(x)], vec![Op::Push(y, 8)]],
                    elem: false,
                    script: true,
                });
            }
        }
    }
    // every scripted operation against a relocating push and a swap
    for w in [
        Op::Get(0, 1),
        Op::Contains(0, 2),
        Op::Index(0, 2),
        Op::Eq(0, 1),
        Op::Eq(1, 0),
        Op::Len(0),
        Op::IsEmpty(0),
        Op::Swap(0, 1, 2),
        Op::Push(0, 6),
    ] {
        for m in [Op::Push(0, 7), Op::Swap(0, 0, 1)] {
            out.push(Case {
                lists: vec![vec![1, 2, 3, 4], vec![1, 2, 3, 4]],
                progs: vec![vec![w.clone()], vec![m]],
                elem: false,
                script: true,
            });
        }
    }
    // (d) a LIVE Rust-side iterator (`IntoIter`: one `List::get` per `next`, so an
    // iteration is a sequence of separate critical sections) against every kind
    // of operation another thread may run between two calls: over `u64` (model +
    // oracle: the operations issued are the `get`s at the cursor) and over probe
    // elements (the clone inside `next` is a schedule point of its own)
    let it = |l: usize, n: usize| -> Vec<Op> {
        let mut p = vec![Op::IterNew(l)];
        p.extend((0..n).map(|_| Op::IterNext));
        p
    };
    for elem in [false, true] {
        for other in [
            vec![Op::Push(0, 7)],
            vec![Op::Swap(0, 0, 1)],
            vec![Op::Concat(0, 0)],
            vec![Op::Eq(0, 1)],
            vec![Op::ToVec(0)],
            vec![Op::Drop(0)],
            it(0, 2),
        ] {
            out.push(Case {
                lists: vec![vec![1, 2, 3, 4], vec![1, 1, 3, 4]],
                progs: vec![it(0, 2), other],
                elem,
                script: false,
            });
        }
        // the iterator reaches the end (`None`), a push arrives, `next` again: it resumes
        out.push(Case { lists: vec![vec![1, 2, 3, 4], vec![5]], progs: vec![it(1, 3), vec![Op::Push(1, 8)]], elem, script: false });
        // made, used and dropped while the other thread drops its handle: the last one frees
        let mut p = it(1, 1);
        p.push(Op::IterDrop);
        p.push(Op::Drop(1));
        out.push(Case { lists: vec![vec![1, 2, 3, 4], vec![5]], progs: vec![p, vec![Op::Drop(1)]], elem, script: false });
    }
    // the iterating thread pushes to its own list between two calls; three threads
    out.push(Case {
        lists: vec![vec![1, 2, 3, 4], vec![5]],
        progs: vec![vec![Op::IterNew(1), Op::IterNext, Op::Push(1, 9), Op::IterNext], vec![Op::Push(1, 8)]],
        elem: false,
        script: false,
    });
    out.push(Case {
        lists: vec![vec![1, 2, 3, 4], vec![5]],
        progs: vec![it(0, 2), vec![Op::Push(0, 7)], vec![Op::Swap(0, 0, 1)]],
        elem: false,
        script: false,
    });
    for elem in [false, true] {
        for (a, b) in [(vec![], vec![1u64, 2]), (vec![1, 2], vec![]), (vec![], vec![])] {
            for c in [Op::Concat(0, 1), Op::Concat(1, 0), Op::Concat(0, 0)] {
                out.push(Case {
                    lists: vec![a.clone(), b.clone()],
                    progs: vec![vec![c, Op::Push(0, 9), Op::ToVec(1)], vec![Op::Push(1, 8)]],
                    elem,
                    script: false,
                });
            }
        }
    }
    out
}

fn random_elem_case(seed: u64, index: u64) -> Case {
    let mut rng = Prng::for_case(seed ^ 0xE1E_E1E, index);
    let lists: Vec<Vec<u64>> = (0..2)
        .map(|_| {
            let len = *rng.pick(&[0usize, 1, 2, 4, 4]);
            (0..len).map(|i| 1 + (i as u64 % 3)).collect()
        })
        .collect();
    let mut progs: Vec<Vec<Op>> = vec![];
    for _ in 0..2 {
        let n = 1 + rng.below(2) as usize;
        progs.push((0..n).map(|_| random_op(&mut rng)).collect());
    }
    // every 5th: thread 0 walks a list with a live iterator (the clone inside
    // every `next` is a schedule point of its own)
    if index % 5 == 2 {
        let mut p = vec![Op::IterNew(rng.below(2) as usize)];
        p.extend((0..1 + rng.below(2)).map(|_| Op::IterNext));
        progs[0] = p;
    }
    Case { lists, progs, elem: true, script: false }
}

/// case `index` of the run
fn case_for(seed: u64, thorough: bool, index: u64) -> Case {
    // 0. class representatives
    let reps = representatives();
    if (index as usize) < reps.len() {
        return reps[index as usize].clone();
    }
    let index = index - reps.len() as u64;
    let a = alphabet();
    let na = a.len() as u64;
    // 1. every pair of single operations
    if index < na * na {
        return Case {
            lists: base_lists(),
            progs: vec![vec![a[(index / na) as usize].clone()], vec![a[(index % na) as usize].clone()]],
            elem: false,
            script: false,
        };
    }
    let index = index - na * na;
    // 2. random cases
    if index < n_random(thorough) {
        let mut rng = Prng::for_case(seed, index);
        // quick: every 16th random case has three threads (one operation each)
        let threads = if thorough && rng.chance(1, 3) || !thorough && index % 16 == 0 { 3 } else { 2 };
        let max_ops = if thorough { 3 } else { 2 };
        let mut progs = vec![];
        for _ in 0..threads {
            // keep the number of interleavings in check: 3 threads get ≤ 2 ops (1 in the quick tier)
            let cap = if threads == 3 { if thorough { 2 } else { 1 } } else { max_ops };
            let n = 1 + rng.below(cap) as usize;
            let p: Vec<Op> = (0..n).map(|_| random_op(&mut rng)).collect();
            progs.push(with_drops(&p, &mut rng));
        }
        // every 8th random case goes through the script-side adapters
        let script = index % 8 == 3;
        // every 10th: thread 0 drives a live iterator (1-2 calls of `next`, then
        // maybe its drop) instead of its random program
        if index % 10 == 7 && !script {
            let mut p = vec![Op::IterNew(rng.below(2) as usize)];
            p.extend((0..1 + rng.below(2)).map(|_| Op::IterNext));
            if rng.chance(1, 3) {
                p.push(Op::IterDrop);
            }
            progs[0] = p;
        }
        return Case { lists: random_lists(&mut rng), progs, elem: false, script };
    }
    let index = index - n_random(thorough);
    // 2b. random cases over probe elements
    if index < n_random_elem(thorough) {
        return random_elem_case(seed, index);
    }
    // 3. (thorough) every pair of programs of ≤ 2 operations over the small alphabet
    let index = index - n_random_elem(thorough);
    let sp = small_programs();
    let n = sp.len() as u64;
    Case { lists: base_lists(), progs: vec![sp[(index / n) as usize].clone(), sp[(index % n) as usize].clone()], elem: false, script: false }
}

fn total_cases(thorough: bool) -> u64 {
    let na = alphabet().len() as u64;
    let sp = small_programs().len() as u64;
    representatives().len() as u64 + na * na + n_random(thorough) + n_random_elem(thorough) + if thorough { sp * sp } else { 0 }
}

// ---------------------------------------------------------------- running cases

/// model's enumeration: schedule text -> observation
fn model_enum(drv: &mut Driver, facts: &str, case: &Case) -> Result<BTreeMap<String, String>, String> {
    // adaptive programs (a live iterator): the driver issues the operations on the way
    let req = if case.has_iter() { "ienum" } else { "enum" };
    let ans = drv.ask(&format!("c16 {req} {facts} {} {}", case.lists_text(), case.model_progs_text()));
    if ans == "bad-op" {
        return Err("driver answered bad-op".into());
    }
    let mut m = BTreeMap::new();
    for part in ans.split('|') {
        let (s, o) = part.split_once(':').ok_or("malformed driver answer")?;
        m.insert(s.to_string(), o.to_string());
    }
    Ok(m)
}

/// The model keeps running the other threads after a stale use; the harness
/// stops there. Cut a model observation after its first `S` step.
fn model_obs_cut_at_trap(obs: &str) -> Option<(String, usize)> {
    let steps_part = obs.split(';').next()?;
    let steps: Vec<&str> = steps_part.split(',').collect();
    let k = steps.iter().position(|s| s.split('~').next().unwrap_or("").contains('S'))?;
    Some((steps[..=k].join(","), k + 1))
}

fn run_case(case: &Case, drv: Option<&mut Driver>, rep: &mut Report, limit: usize) {
    // element-level cases: oracle only, and two long walks over different
    // lists have very many interleavings that differ in nothing
    let limit = if case.elem { limit.min(400) } else { limit };
    let drv = if case.elem { None } else { drv };
    let (execs, cut) = enumerate_real(case, limit);
    rep.hist(
        "elements",
        if case.elem {
            "probe (element-level schedule points)"
        } else if case.script {
            "u64 through compiled scripts"
        } else {
            "u64"
        },
    );
    rep.hist("schedules-per-case", bucket(execs.len()));
    rep.hist("threads", case.progs.len().to_string());
    for p in &case.progs {
        for o in p {
            rep.hist("op", o.kind());
        }
    }
    if cut {
        let n = format!("schedule enumeration cut at {limit} for some cases");
        if !rep.notes.contains(&n) {
            rep.notes.push(n);
        }
    }
    let mut ends: BTreeMap<String, u64> = BTreeMap::new();
    for ex in &execs {
        rep.evaluations += 1;
        judge(case, ex, rep);
        *ends.entry(ex.end.split(':').next().unwrap_or("").to_string()).or_insert(0) += 1;
        let reloc = ex.steps.iter().any(|s| s.1.contains('R'));
        let blocked = ex.steps.iter().any(|s| !s.2.is_empty());
        rep.hist("end", ex.end.split(':').next().unwrap_or(""));
        rep.class(format!(
            "{} end={} realloc={} blocked={}",
            case.kinds(),
            ex.end.split(':').next().unwrap_or(""),
            reloc as u8,
            blocked as u8
        ));
        if ex.end.starts_with("bad") {
            rep.mismatch(&format!("the scheduler lost control: {}", ex.end), replay_json(case, ex));
        }
    }
    if let Some(first) = execs.first() {
        rep.sample(json!({"case": case.json(), "schedules": execs.len(), "first": {"sched": first.sched_text(), "obs": first.obs()}}));
    }
    // ---- the model's prediction
    let Some(drv) = drv else { return };
    let model = match model_enum(drv, "gen", case) {
        Ok(m) => m,
        Err(e) => {
            rep.mismatch(&format!("model enumeration failed: {e}"), case.json());
            return;
        }
    };
    let mut seen_prefix: BTreeMap<String, ()> = BTreeMap::new();
    for ex in &execs {
        let s = ex.sched_text();
        if ex.end == "trap" {
            // compare the prefix up to the trap with every model schedule extending it
            let mine = ex.obs();
            let my_steps = mine.split(';').next().unwrap_or("").to_string();
            let hit = model.iter().any(|(ms, mo)| {
                ms.starts_with(&s) && model_obs_cut_at_trap(mo).map(|(st, k)| st == my_steps && k == ex.sched.len()).unwrap_or(false)
            });
            if !hit {
                rep.mismatch(
                    "real run stops at a stale pointer use; the model has no schedule with this prefix and these events",
                    replay_json(case, ex),
                );
            }
            seen_prefix.insert(s, ());
            continue;
        }
        match model.get(&s) {
            None => rep.mismatch("the real code admits a maximal schedule the model does not have", replay_json(case, ex)),
            Some(mo) => {
                if *mo != ex.obs() {
                    let mut j = replay_json(case, ex);
                    j["model"] = json!(mo);
                    rep.mismatch("model and implementation disagree on this schedule", j);
                }
            }
        }
    }
    if !cut {
        for (ms, mo) in &model {
            let covered = execs.iter().any(|ex| {
                let s = ex.sched_text();
                s == *ms || (ex.end == "trap" && ms.starts_with(&s))
            });
            if !covered {
                rep.mismatch(
                    "the model has a maximal schedule the real code does not admit",
                    json!({"lists": case.lists_text(), "progs": case.progs_text(), "sched": ms, "model": mo}),
                );
            }
        }
    }
}

// ---------------------------------------------------------------- stress (search mode)

/// Free-running races (no scheduler: the threads are not attached to a
/// session, so every hook returns immediately): two threads released by a
/// spin barrier run one or two operations each on fresh lists at a capacity
/// boundary; the results and final contents must be those of some sequential
/// order. Finds lock-scope defects the schedule points cannot see (code that
/// touches the buffer outside every guard without passing a hook), by chance.
fn stress_case(seed: u64, index: u64) -> Case {
    let mut rng = Prng::for_case(seed ^ 0x5712_E55, index);
    let ops = [
        Op::Push(0, 7),
        Op::Push(0, 8),
        Op::Swap(0, 0, 1),
        Op::Swap(0, 1, 3),
        Op::Get(0, 1),
        Op::FfiGet(0, 0),
        Op::Contains(0, 2),
        Op::Len(0),
        Op::Push(1, 9),
        Op::Swap(1, 0, 1),
        // the Rust-side walks over the whole buffer, and the script-side ones
        Op::ToVec(0),
        Op::ToVec(0),
        Op::EqTyped(0, 1),
        Op::EqTyped(1, 0),
        Op::Eq(0, 1),
        Op::Index(0, 4),
        Op::Concat(0, 1),
        Op::Concat(0, 0),
    ];
    let mut progs = vec![];
    for t in 0..2 {
        let n = 1 + rng.below(2) as usize;
        let mut p: Vec<Op> = (0..n).map(|_| rng.pick(&ops).clone()).collect();
        if t == 0 && !p.iter().any(|o| matches!(o, Op::Push(..))) {
            p[0] = Op::Push(0, 7);
        }
        progs.push(p);
    }
    let len0 = *rng.pick(&[4usize, 4, 4, 8]);
    // every 6th case: thread 1 walks list 0 with a live iterator (one critical
    // section per `next`) to the end and one call beyond, while thread 0 pushes
    if rng.chance(1, 6) {
        let mut p = vec![Op::IterNew(0)];
        p.extend((0..len0 + 2).map(|_| Op::IterNext));
        progs[1] = p;
    }
    // list 1: now and then equal to list 0, so that `==` walks to the end
    let l1: Vec<u64> = if rng.chance(1, 3) { (1..=len0 as u64).collect() } else { vec![5, 6, 7, 8] };
    Case { lists: vec![(1..=len0 as u64).collect(), l1], progs, elem: false, script: false }
}

/// spawn a thread; if the machine is out of threads for a moment, wait and try again
fn spawn_retry<F, T>(mk: impl Fn() -> F) -> std::thread::JoinHandle<T>
where
    F: FnOnce() -> T + Send + 'static,
    T: Send + 'static,
{
    let mut tries = 0;
    loop {
        match std::thread::Builder::new().spawn(mk()) {
            Ok(h) => return h,
            Err(e) => {
                tries += 1;
                if tries > 50 {
                    panic!("cannot spawn a thread: {e}");
                }
                std::thread::sleep(Duration::from_millis(100));
            }
        }
    }
}

fn run_stress_trial(case: &Case, spin: [u32; 2]) -> (Vec<Vec<Res>>, Vec<Vec<u64>>) {
    use std::sync::atomic::{AtomicUsize, Ordering};
    let shared: Vec<List<u64>> = case.lists.iter().map(|l| List::from(l.clone())).collect();
    let gate = std::sync::Arc::new(AtomicUsize::new(0));
    let mut joins = vec![];
    for t in 0..2 {
      let mk = || {
        let lists: Vec<List<u64>> = shared.iter().map(|l| l.clone()).collect();
        let prog = case.progs[t].clone();
        let gate = gate.clone();
        let sp = spin[t];
        move || {
            gate.fetch_add(1, Ordering::SeqCst);
            while gate.load(Ordering::SeqCst) < 2 {
                std::hint::spin_loop();
            }
            for _ in 0..sp {
                std::hint::spin_loop();
            }
            let mut out = vec![];
            let mut iter: Option<<List<u64> as IntoIterator>::IntoIter> = None;
            for op in &prog {
                out.push(match op {
                    Op::IterNew(l) => {
                        iter = Some(lists[*l].clone().into_iter());
                        Res::Unit
                    }
                    Op::IterNext | Op::IterGet(..) => Res::Opt(iter.as_mut().and_then(|it| it.next())),
                    Op::IterDrop => {
                        iter = None;
                        Res::Unit
                    }
                    Op::Get(l, i) => Res::Opt(lists[*l].get(*i)),
                    Op::FfiGet(l, i) => Res::Opt(hk::ffi_get_u64(&lists[*l], *i as u64)),
                    Op::Push(l, v) => {
                        lists[*l].push(*v);
                        Res::Unit
                    }
                    Op::Contains(l, v) => Res::Bool(hk::contains_owned_u64(&lists[*l], *v)),
                    Op::Swap(l, i, j) => {
                        lists[*l].swap(*i, *j);
                        Res::Unit
                    }
                    Op::Len(l) => Res::Nat(lists[*l].len()),
                    Op::ToVec(l) => Res::List(lists[*l].to_vec()),
                    Op::EqTyped(a, b) => Res::Bool(lists[*a] == lists[*b]),
                    Op::Eq(a, b) => Res::Bool(hk::erased_eq_u64(&lists[*a], &lists[*b])),
                    Op::Index(l, v) => Res::Opt(lists[*l].index(v).map(|i| i as u64)),
                    Op::IsEmpty(l) => Res::Bool(lists[*l].is_empty()),
                    Op::Concat(a, b) | Op::Plus(a, b) => Res::List(lists[*a].concat(&lists[*b]).to_vec()),
                    Op::Clone(_) | Op::Drop(_) => Res::Unit,
                });
            }
            out
        }
      };
      joins.push(spawn_retry(mk));
    }
    let results: Vec<Vec<Res>> = joins.into_iter().map(|j| j.join().unwrap_or_default()).collect();
    let lists = shared.iter().map(|l| l.to_vec()).collect();
    (results, lists)
}

/// some merge of the two programs explains results and final lists
fn some_order_explains(case: &Case, results: &[Vec<Res>], lists: &[Vec<u64>]) -> bool {
    fn go(case: &Case, results: &[Vec<Res>], fin: &[Vec<u64>], pos: &mut [usize; 2], cur: &mut Vec<Vec<u64>>) -> bool {
        if pos[0] == case.progs[0].len() && pos[1] == case.progs[1].len() {
            return cur.as_slice() == fin;
        }
        for t in 0..2 {
            if pos[t] < case.progs[t].len() {
                let saved = cur.clone();
                let r = spec_op(cur, &case.progs[t][pos[t]]);
                if r == results[t][pos[t]] {
                    pos[t] += 1;
                    if go(case, results, fin, pos, cur) {
                        return true;
                    }
                    pos[t] -= 1;
                }
                *cur = saved;
            }
        }
        false
    }
    // a thread that drives an iterator: every `next` is the `get` at its cursor
    let case = &case.resolved(results);
    results.len() == 2
        && results[0].len() == case.progs[0].len()
        && results[1].len() == case.progs[1].len()
        && go(case, results, lists, &mut [0, 0], &mut case.lists.clone())
}

fn stress_batch(seed: u64, off: u64, from: u64, n: u64, rep: &mut Report) {
    for k in from..from + n {
        let i = off + k;
        // (one line per block of trials that share a case: the parent names the case by it)
        if k == from || i % 64 == 0 {
            println!("START {k}");
            use std::io::Write;
            std::io::stdout().flush().ok();
        }
        let case = stress_case(seed, i / 64);
        let mut rng = Prng::for_case(seed ^ 0xABCD, i);
        let spin = [rng.below(60) as u32, rng.below(60) as u32];
        let (results, lists) = run_stress_trial(&case, spin);
        rep.evaluations += 1;
        rep.hist("stress-case", case.kinds());
        if !some_order_explains(&case, &results, &lists) {
            let res: Vec<String> =
                results.iter().map(|r| r.iter().map(|x| x.text()).collect::<Vec<_>>().join(",")).collect();
            rep.violation(
                "free-running race: results / final contents are not those of any sequential order of the operations",
                &format!("stress-not-linearizable {}", case.kinds()),
                json!({"lists": case.lists_text(), "progs": case.progs_text(), "stress": true, "trial": i, "seed": seed,
                       "results": res.join("/"), "final": lists.iter().map(|l| dots(l)).collect::<Vec<_>>().join("/")}),
            );
        }
    }
}

// ---------------------------------------------------------------- ThreadSanitizer (search mode / thorough)

/// newest ThreadSanitizer report in `$C16_TSAN_LOGDIR` (files `tsan.<pid>`)
fn newest_tsan_report() -> Option<String> {
    let dir = std::env::var("C16_TSAN_LOGDIR").ok()?;
    let mut best: Option<(std::time::SystemTime, std::path::PathBuf)> = None;
    for e in std::fs::read_dir(&dir).ok()?.flatten() {
        let p = e.path();
        if !p.file_name().and_then(|n| n.to_str()).map(|n| n.starts_with("tsan.")).unwrap_or(false) {
            continue;
        }
        let t = e.metadata().and_then(|m| m.modified()).ok()?;
        if best.as_ref().map(|b| t > b.0).unwrap_or(true) {
            best = Some((t, p));
        }
    }
    let (_, p) = best?;
    let text = std::fs::read_to_string(&p).ok();
    let _ = std::fs::remove_file(&p);
    text
}

/// the list functions on the two sides of a reported race (first frame of
/// each stack inside `roto::value::list`), and the kind of report
fn tsan_key(report: &str) -> (String, Vec<String>) {
    let kind = report
        .lines()
        .find_map(|l| l.trim().strip_prefix("WARNING: ThreadSanitizer: "))
        .map(|l| l.split(" (pid").next().unwrap_or(l).to_string())
        .unwrap_or_else(|| "report".into());
    let mut sides = vec![];
    let mut in_stack = false;
    let mut found = false;
    for l in report.lines() {
        let t = l.trim();
        if !t.starts_with('#') {
            in_stack = false;
            found = false;
            continue;
        }
        if !in_stack {
            in_stack = true;
        }
        if !found && t.contains("roto::value::list") {
            // "#5 <roto::value::list::ErasedList>::swap /path:line:col (…)"
            let f = t.splitn(2, ' ').nth(1).unwrap_or(t);
            let f = f.split(" /").next().unwrap_or(f);
            let f = f.replace("roto::value::list::", "").replace("boundary::", "");
            sides.push(f);
            found = true;
        }
    }
    sides.truncate(2);
    sides.sort();
    (kind, sides)
}

/// free-running races in a ThreadSanitizer build (this binary built with
/// `-Zsanitizer=thread`): a report = an access to list memory that is not
/// ordered by the list's mutex
fn tsan_parent(seed: u64, trials: u64, rep: &mut Report) {
    let seed_s = seed.to_string();
    let mut off = 0u64;
    let mut reports = 0;
    while off < trials && reports < 2 {
        // one worker per chunk; a worker that dies (ThreadSanitizer halts at
        // the first report) ends its chunk
        let chunk = 1_000.min(trials - off);
        let (off_s, n_s) = (off.to_string(), chunk.to_string());
        let (ended, out) =
            rotov_harness::worker::run_worker_keep_stdout(&["stress", &seed_s, &off_s, "0", &n_s], Duration::from_secs(900));
        if let Some(v) = Report::parse_stdout(&out) {
            rep.merge_json(&v);
        }
        let mut ended = ended;
        let mut out = out;
        if ended != Ended::Exit(0, String::new()) && ended != Ended::Exit(66, String::new()) {
            // not a ThreadSanitizer report: machine trouble? once more
            let (e2, o2) =
                rotov_harness::worker::run_worker_keep_stdout(&["stress", &seed_s, &off_s, "0", &n_s], Duration::from_secs(900));
            rep.notes.push(format!("a thread-sanitizer worker ended {ended:?} without a report; rerun ended {e2:?}"));
            ended = e2;
            out = o2;
            if let Some(v) = Report::parse_stdout(&out) {
                rep.merge_json(&v);
            }
        }
        if ended != Ended::Exit(0, String::new()) {
            reports += 1;
            let idx = out
                .lines()
                .rev()
                .find_map(|l| l.strip_prefix("START "))
                .and_then(|s| s.trim().parse::<u64>().ok())
                .unwrap_or(0);
            let c = stress_case(seed, (off + idx) / 64);
            let text = newest_tsan_report().unwrap_or_default();
            let (kind, sides) = tsan_key(&text);
            let excerpt: Vec<&str> = text
                .lines()
                .filter(|l| {
                    let t = l.trim();
                    t.starts_with("WARNING") || t.starts_with("Write of") || t.starts_with("Read of") || t.starts_with("Previous")
                        || t.starts_with("SUMMARY") || t.contains("roto::value::list")
                })
                .take(14)
                .collect();
            rep.violation(
                "ThreadSanitizer: list memory is accessed without the ordering the list's mutex gives (free-running race of these operations)",
                &format!("tsan {kind}: {}", if sides.is_empty() { "?".to_string() } else { sides.join(" / ") }),
                json!({"lists": c.lists_text(), "progs": c.progs_text(), "stress": true, "tsan": true, "seed": seed, "trial": off + idx,
                       "ended": format!("{ended:?}"), "report": excerpt}),
            );
        }
        off += chunk;
    }
    rep.notes.push(format!("thread-sanitizer: {} free-running races (2 threads x 1-2 operations) in a -Zsanitizer=thread build (std rebuilt, so the mutex's atomics are seen)", off));
}

fn bucket(n: usize) -> String {
    match n {
        0..=1 => "1".into(),
        2..=5 => "2-5".into(),
        6..=20 => "6-20".into(),
        21..=100 => "21-100".into(),
        101..=1000 => "101-1000".into(),
        _ => ">1000".into(),
    }
}

fn quiet_panics() {
    std::panic::set_hook(Box::new(|info| {
        let p = info.payload();
        if p.downcast_ref::<hk::StaleUse>().is_some() || p.downcast_ref::<hk::Aborted>().is_some() {
            return;
        }
        eprintln!("panic: {info}");
        // the worker's stderr is discarded: leave the message where the parent reads
        println!("C16-PANIC {}", info.to_string().replace('\n', " "));
    }));
}

fn main() {
    let args: Vec<String> = std::env::args().collect();
    let mut rep = Report::default();
    quiet_panics();
    match args.get(1).map(|s| s.as_str()) {
        Some("run") => {
            let seed: u64 = args.get(2).and_then(|s| s.parse().ok()).unwrap_or(1);
            let tier = args.get(3).cloned().unwrap_or_else(|| "quick".into());
            let thorough = tier == "thorough";
            let model = !args.iter().any(|a| a == "--no-model");
            let total = total_cases(thorough);
            let seed_s = seed.to_string();
            let m = if model { "1" } else { "0" };
            run_batches(
                &["cases", &seed_s, &tier, m],
                total,
                100,
                Duration::from_secs(900),
                &mut rep,
                |rep: &mut Report, idx: u64, how: &Ended| {
                    // a worker can die for reasons of the machine (thread
                    // limit, memory): run the case alone again and report
                    // only a death that repeats
                    let c = case_for(seed, thorough, idx);
                    let idx_s = idx.to_string();
                    let mut again = vec![];
                    for _ in 0..2 {
                        let (e, out) = rotov_harness::worker::run_worker_keep_stdout(
                            &["cases", &seed_s, &tier, m, &idx_s, "1"],
                            Duration::from_secs(900),
                        );
                        let panic_msg: Vec<String> =
                            out.lines().filter_map(|l| l.strip_prefix("C16-PANIC ")).map(|s| s.to_string()).collect();
                        if e == Ended::Exit(0, String::new()) {
                            if let Some(v) = Report::parse_stdout(&out) {
                                rep.merge_json(&v);
                            }
                            rep.notes.push(format!(
                                "a worker died once ({how:?}) around case {idx} ({}), which ran clean alone afterwards: not counted",
                                c.progs_text()
                            ));
                            return;
                        }
                        again.push(format!("{e:?} {}", panic_msg.join(" | ")));
                    }
                    rep.violation(
                        "the process died or hung while running the schedules of this case (three times: in its batch and twice alone)",
                        &format!("crash {}", c.kinds()),
                        json!({"lists": c.lists_text(), "progs": c.progs_text(), "ended": format!("{how:?}"), "alone": again, "origin": {"seed": seed, "index": idx}}),
                    );
                },
            );
            rep.notes.push(format!(
                "cases: {} class representatives first (element-level walker x mutator, == over equal lists, concat / + with empty operands through compiled scripts and directly, every scripted operation x mutator), then every pair of single operations from a {}-operation alphabet on two shared lists (one full, one with room), then {} random cases (2{} threads × ≤ {} ops, + handle drops{}; every 8th through compiled scripts), then {} random cases over probe elements{}; every maximal schedule of every case is executed on the real code",
                representatives().len(),
                alphabet().len(),
                n_random(thorough),
                if thorough { "–3" } else { "" },
                if thorough { 3 } else { 2 },
                if thorough { "" } else { "; every 16th has 3 threads x 1 op" },
                n_random_elem(thorough),
                if thorough { format!(", then every pair of the {} programs of ≤ 2 operations over an {}-operation alphabet", small_programs().len(), small_alphabet().len()) } else { String::new() },
            ));
            if !model {
                rep.notes.push("run without the Lean model (property oracle only)".into());
            }
            let stress: u64 = args
                .iter()
                .position(|a| a == "--stress")
                .and_then(|i| args.get(i + 1))
                .and_then(|s| s.parse().ok())
                .unwrap_or(if thorough { 40_000 } else { 0 });
            if stress > 0 {
                let crashes = std::cell::Cell::new(0u32);
                let mut off = 0u64;
                while off < stress && crashes.get() < 4 {
                    let chunk = 20_000.min(stress - off);
                    let off_s = off.to_string();
                    run_batches(&["stress", &seed_s, &off_s], chunk, 20_000, Duration::from_secs(600), &mut rep, |rep: &mut Report, idx: u64, how: &Ended| {
                        // machine trouble or a real crash? run that block of trials again, alone
                        let idx_s = idx.to_string();
                        let (e, out) = rotov_harness::worker::run_worker_keep_stdout(
                            &["stress", &seed_s, &off_s, &idx_s, "64"],
                            Duration::from_secs(600),
                        );
                        if e == Ended::Exit(0, String::new()) {
                            if let Some(v) = Report::parse_stdout(&out) {
                                rep.merge_json(&v);
                            }
                            rep.notes.push(format!("a stress worker died once ({how:?}) at trial {}; the block ran clean alone afterwards: not counted", off + idx));
                            return;
                        }
                        crashes.set(crashes.get() + 1);
                        let c = stress_case(seed, (off + idx) / 64);
                        rep.violation(
                            "the process died during a free-running race of these operations (memory corruption)",
                            &format!("stress-crash {}", c.kinds()),
                            json!({"lists": c.lists_text(), "progs": c.progs_text(), "stress": true, "trial": off + idx, "seed": seed, "ended": format!("{how:?}")}),
                        );
                    });
                    off += chunk;
                }
                rep.notes.push(format!("stress: {stress} free-running races of 2 threads x 1-2 operations (push/swap/get/contains/len/to_vec/==/index/concat) on lists at a capacity boundary, each checked against every sequential order"));
            }
        }
        Some("tsan") => {
            let seed: u64 = args.get(2).and_then(|s| s.parse().ok()).unwrap_or(1);
            let trials: u64 = args.get(3).and_then(|s| s.parse().ok()).unwrap_or(4000);
            tsan_parent(seed, trials, &mut rep);
        }
        Some("worker") if args[2] == "stress" => {
            // worker stress <seed> <off> <from> <n>
            let seed: u64 = args[3].parse().unwrap();
            let off: u64 = args[4].parse().unwrap();
            let from: u64 = args[5].parse().unwrap();
            let n: u64 = args[6].parse().unwrap();
            stress_batch(seed, off, from, n, &mut rep);
        }
        Some("worker") => {
            // worker cases <seed> <tier> <model> <from> <n>
            let seed: u64 = args[3].parse().unwrap();
            let thorough = args[4] == "thorough";
            let model = args[5] == "1";
            let from: u64 = args[6].parse().unwrap();
            let n: u64 = args[7].parse().unwrap();
            let mut drv = if model { Some(Driver::spawn().expect("driver")) } else { None };
            let limit = if thorough { 2000 } else { 1500 };
            for i in from..from + n {
                println!("START {i}");
                use std::io::Write;
                std::io::stdout().flush().ok();
                let c = case_for(seed, thorough, i);
                run_case(&c, drv.as_mut(), &mut rep, limit);
                let hung = rep.impl_violations.iter().filter(|v| v["key"] == "hung-step").count();
                if hung >= 3 {
                    rep.notes.push("batch cut short after 3 cases with a hung step".into());
                    break;
                }
            }
        }
        Some("replay") => {
            let v: serde_json::Value = serde_json::from_str(&args[2]).expect("json");
            let mut case = Case::parse(v["lists"].as_str().unwrap_or(""), v["progs"].as_str().unwrap_or("")).expect("case");
            case.elem = v["elem"].as_bool() == Some(true);
            case.script = v["script"].as_bool() == Some(true);
            if v["stress"].as_bool() == Some(true) {
                // probabilistic: repeat the race
                let seed = v["seed"].as_u64().unwrap_or(1);
                let mut hits = 0;
                for i in 0..200_000u64 {
                    let mut rng = Prng::for_case(seed ^ 0xABCD, i);
                    let spin = [rng.below(60) as u32, rng.below(60) as u32];
                    let (results, lists) = run_stress_trial(&case, spin);
                    rep.evaluations += 1;
                    if !some_order_explains(&case, &results, &lists) {
                        hits += 1;
                        rep.violation(
                            "free-running race: results / final contents are not those of any sequential order of the operations",
                            &format!("stress-not-linearizable {}", case.kinds()),
                            json!({"lists": case.lists_text(), "progs": case.progs_text(), "stress": true, "trial": i}),
                        );
                        break;
                    }
                }
                println!("REPLAY stress hits={hits}");
                rep.emit();
                return;
            }
            match v["sched"].as_str() {
                Some(s) => {
                    let sched: Vec<usize> = s.bytes().map(|b| (b - b'0') as usize).collect();
                    let ex = exec(&case, &sched, false);
                    println!("REPLAY sched={} obs={}", ex.sched_text(), ex.obs());
                    rep.evaluations += 1;
                    judge(&case, &ex, &mut rep);
                    if case.elem {
                        println!("MODEL  (none: element-level schedule points are judged by the property oracle only)");
                    } else if let Ok(mut d) = Driver::spawn() {
                        let req = if case.has_iter() { "irun" } else { "run" };
                        let m = d.ask(&format!("c16 {req} gen {} {} {}", case.lists_text(), case.model_progs_text(), s));
                        println!("MODEL  obs={m}");
                    }
                }
                None => {
                    let mut d = Driver::spawn().ok();
                    run_case(&case, d.as_mut(), &mut rep, 4000);
                }
            }
        }
        _ => {
            eprintln!("usage: c16 run <seed> <quick|thorough> [--no-model] | replay <json> | worker …");
            std::process::exit(64);
        }
    }
    rep.emit();
}
