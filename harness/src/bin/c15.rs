//! C15 correspondence: operation sequences on `roto::List<T>` handles, issued
//! through the Rust API, through compiled scripts, or alternating, compared
//! after every operation with
//!  (a) the property itself — the same operations on `Rc<RefCell<Vec<_>>>`
//!      (a shared vector), live tracked elements = elements of live vectors,
//!      every operation finishes within a time limit; and
//!  (b) the Lean model run on the same history (`c15 run …` of rotov-driver),
//!      which additionally predicts the capacity.
//!
//! usage: c15 run <seed> <quick|thorough>
//!        c15 replay '<json {"etype": "u64", "ops": "n:0 p:0:5 …"}>'
//!        c15 worker <cases|one> …          (crash-isolated children)
use roto::{List, RotoString, Val, Value};
use rotov_harness::driver::Driver;
use rotov_harness::worker::{Ended, run_worker_keep_stdout};
use rotov_harness::{Prng, Report};
use serde_json::json;
use std::cell::RefCell;
use std::io::Write;
use std::rc::Rc;
use std::sync::atomic::{AtomicI64, AtomicU64, Ordering};
use std::time::Duration;

#[path = "../c15/script.rs"]
mod script;
#[path = "../c15/nested.rs"]
mod nested;

const NSLOTS: usize = 3;
/// Rust-side iterators (`List<T>::into_iter`) that may be alive at once; in the
/// Lean model iterator `k` keeps its handle in variable `NSLOTS + k`
const NITERS: usize = 2;
/// time limit of a single operation (the machine may be heavily loaded)
const OP_LIMIT_MS: u64 = 8_000;

// ---------------------------------------------------------------- tracked types

pub static LIVE0: AtomicI64 = AtomicI64::new(0);
pub static LIVE24: AtomicI64 = AtomicI64::new(0);
pub static BAD: AtomicU64 = AtomicU64::new(0);
const POISON: u64 = 0xDEAD_DEAD_DEAD_0000;

/// zero-sized, drop-tracked
#[derive(Debug)]
pub struct Tk0;
impl Tk0 {
    pub fn new() -> Tk0 {
        LIVE0.fetch_add(1, Ordering::SeqCst);
        Tk0
    }
}
impl Clone for Tk0 {
    fn clone(&self) -> Tk0 {
        Tk0::new()
    }
}
impl Drop for Tk0 {
    fn drop(&mut self) {
        LIVE0.fetch_sub(1, Ordering::SeqCst);
    }
}
impl PartialEq for Tk0 {
    fn eq(&self, _: &Tk0) -> bool {
        true
    }
}

/// 24 bytes, drop-tracked; a dropped instance is poisoned so a double drop or
/// a read after drop is counted
#[derive(Debug)]
pub struct Tk24 {
    pub v: u64,
    chk: u64,
    pad: u64,
}
impl Tk24 {
    pub fn new(v: u64) -> Tk24 {
        LIVE24.fetch_add(1, Ordering::SeqCst);
        Tk24 { v, chk: !v, pad: 24 }
    }
    pub fn value(&self) -> u64 {
        if self.chk != !self.v || self.pad != 24 {
            BAD.fetch_add(1, Ordering::SeqCst);
        }
        self.v
    }
}
impl Clone for Tk24 {
    fn clone(&self) -> Tk24 {
        Tk24::new(self.value())
    }
}
impl Drop for Tk24 {
    fn drop(&mut self) {
        if self.chk != !self.v || self.pad != 24 {
            BAD.fetch_add(1, Ordering::SeqCst);
        }
        LIVE24.fetch_sub(1, Ordering::SeqCst);
        unsafe {
            std::ptr::write_volatile(&mut self.chk, POISON);
        }
    }
}
impl PartialEq for Tk24 {
    fn eq(&self, o: &Tk24) -> bool {
        self.value() == o.value()
    }
}

// ---------------------------------------------------------------- element types

pub trait Elem: Value + Clone + 'static
where
    Self::Transformed: PartialEq,
{
    const NAME: &'static str;
    /// Roto spelling of the type
    const ROTO: &'static str;
    const TRACKED: bool;
    fn make(v: u64) -> Self;
    fn val(&self) -> u64;
    fn live() -> i64 {
        0
    }
    fn size() -> usize {
        std::mem::size_of::<Self::Transformed>()
    }
    /// values the generator draws from
    fn domain(v: u64) -> u64 {
        v
    }
    /// `==` of the elements the two values stand for (`T: PartialEq` — what a
    /// `Vec<T>` compares with): the identity for every type but `f64`
    fn same(a: u64, b: u64) -> bool {
        a == b
    }
}

impl Elem for u8 {
    const NAME: &'static str = "u8";
    const ROTO: &'static str = "u8";
    const TRACKED: bool = false;
    fn make(v: u64) -> u8 {
        v as u8
    }
    fn val(&self) -> u64 {
        *self as u64
    }
    fn domain(v: u64) -> u64 {
        v % 256
    }
}
impl Elem for u64 {
    const NAME: &'static str = "u64";
    const ROTO: &'static str = "u64";
    const TRACKED: bool = false;
    fn make(v: u64) -> u64 {
        v
    }
    fn val(&self) -> u64 {
        *self
    }
}
impl Elem for RotoString {
    const NAME: &'static str = "String";
    const ROTO: &'static str = "String";
    const TRACKED: bool = false;
    fn make(v: u64) -> RotoString {
        elem_string(v).into()
    }
    fn val(&self) -> u64 {
        let s: &str = self.as_ref();
        if let Some(k) = STR_SPECIAL.iter().position(|x| *x == s) {
            return k as u64;
        }
        match s.strip_prefix('s').and_then(|d| d.parse::<u64>().ok()) {
            Some(v) if v >= STR_SPECIAL.len() as u64 && elem_string(v) == s => v,
            _ => panic!("a string element that no value stands for: {s:?}"),
        }
    }
}

/// The strings the small element values of a `List[String]` stand for (the Lean
/// model has the same table, `RotoV.ListM.elemStr`; `c15 worker strings` compares
/// the two): the empty string, a proper prefix of another element, a multi-byte
/// character, a separator character, a string differing in case only, one with a
/// trailing blank, multi-byte followed by ASCII. Every other value `v` is `"s<v>"`.
pub const STR_SPECIAL: [&str; 8] = ["", "s1", "s", "é", ",", "S1", "s1 ", "→x"];

pub fn elem_string(v: u64) -> String {
    match STR_SPECIAL.get(v as usize) {
        Some(s) => s.to_string(),
        None => format!("s{v}"),
    }
}

/// separators of `join`, by index: one byte, empty, two bytes, one multi-byte
/// character, equal to an element, multi-byte + ASCII
pub const SEPS: [&str; 6] = [",", "", ", ", "→", "s1", "é,"];

/// a string result as the protocol shows it: `t<byte,byte,…>`
pub fn show_str(s: &str) -> String {
    format!("t{}", s.bytes().map(|b| b.to_string()).collect::<Vec<_>>().join(","))
}

/// `t<byte,…>` back into something readable for a report
fn read_str(out: &str) -> Option<String> {
    let b = out.strip_prefix('t')?;
    if b.is_empty() {
        return Some(String::new());
    }
    let bytes: Option<Vec<u8>> = b.split(',').map(|x| x.parse().ok()).collect();
    Some(String::from_utf8_lossy(&bytes?).into_owned())
}
impl Elem for Val<Tk0> {
    const NAME: &'static str = "Tk0";
    const ROTO: &'static str = "Tk0";
    const TRACKED: bool = true;
    fn make(_: u64) -> Self {
        Val(Tk0::new())
    }
    fn val(&self) -> u64 {
        0
    }
    fn live() -> i64 {
        LIVE0.load(Ordering::SeqCst)
    }
    fn domain(_: u64) -> u64 {
        0
    }
}
impl Elem for Val<Tk24> {
    const NAME: &'static str = "Tk24";
    const ROTO: &'static str = "Tk24";
    const TRACKED: bool = true;
    fn make(v: u64) -> Self {
        Val(Tk24::new(v))
    }
    fn val(&self) -> u64 {
        self.0.value()
    }
    fn live() -> i64 {
        LIVE24.load(Ordering::SeqCst)
    }
}

/// nested lists: the element `v` is the (immutable) list `[v; 1 + v % 3]`, so
/// element equality is equality of the inner lists' contents and clone / drop
/// are handle clone / drop of the inner `Arc`
impl Elem for List<u64> {
    const NAME: &'static str = "List";
    const ROTO: &'static str = "List[u64]";
    const TRACKED: bool = false;
    fn make(v: u64) -> Self {
        List::from(vec![v; 1 + (v % 3) as usize])
    }
    fn val(&self) -> u64 {
        let v = self.get(0).expect("inner list");
        assert_eq!(self.len(), 1 + (v % 3) as usize, "inner list length");
        v
    }
}

/// `f64`: a Copy element type whose `==` is NOT the comparison of its bytes —
/// `0.0 == -0.0` with different bits, `NaN != NaN` with the same bits. The value
/// of an element is its bit pattern (the Lean model's element `2^64 + bits`,
/// compared with `RotoV.ListM.f64Eq`; `floats_tie` compares the two relations).
/// A script-built `List[f64]` has an element vtable without clone function.
impl Elem for f64 {
    const NAME: &'static str = "f64";
    const ROTO: &'static str = "f64";
    const TRACKED: bool = false;
    fn make(v: u64) -> f64 {
        f64::from_bits(v)
    }
    fn val(&self) -> u64 {
        self.to_bits()
    }
    fn domain(v: u64) -> u64 {
        F64_VALS[(v % F64_VALS.len() as u64) as usize]
    }
    fn same(a: u64, b: u64) -> bool {
        f64::from_bits(a) == f64::from_bits(b)
    }
}

pub const F_Z: u64 = 0; // 0.0
pub const F_NZ: u64 = 0x8000_0000_0000_0000; // -0.0
pub const F_NAN: u64 = 0x7FF8_0000_0000_0000; // the quiet NaN `0.0 / 0.0` gives
pub const F_NAN2: u64 = 0xFFF8_0000_0000_0001; // another NaN: sign and payload set
pub const F_ONE5: u64 = 0x3FF8_0000_0000_0000; // 1.5
/// the values a `List[f64]` history draws from, most interesting first (the
/// generators take a prefix): both zeros, two NaNs, infinities, a subnormal
pub const F64_VALS: [u64; 12] = [
    F_Z,
    F_NZ,
    F_NAN,
    F_ONE5,
    F_NAN2,
    0x7FF0_0000_0000_0000, // inf
    0xBFF8_0000_0000_0000, // -1.5
    1,                     // 5e-324
    0x3FF0_0000_0000_0000, // 1.0
    0x4000_0000_0000_0000, // 2.0
    0xFFF0_0000_0000_0000, // -inf
    0x8000_0000_0000_0001, // -5e-324
];

pub const ETYPES: [&str; 7] = ["u8", "u64", "String", "Tk0", "Tk24", "List", "f64"];

// ---------------------------------------------------------------- operations

#[derive(Clone, Debug, PartialEq)]
pub enum Op {
    New(usize),
    FromVec(usize, Vec<u64>),
    CloneH(usize, usize),
    DropH(usize),
    Push(usize, u64),
    Get(usize, u64),
    Len(usize),
    IsEmpty(usize),
    Capacity(usize),
    Swap(usize, u64, u64),
    Concat(usize, usize, usize),
    Contains(usize, u64),
    Index(usize, u64),
    /// Rust: `List<T>::eq`; script: `==` (`ErasedList::eq`)
    Eq(usize, usize),
    ToVec(usize),
    Iter(usize),
    /// script `l.join(SEPS[k])` on a `List[String]`
    Join(usize, usize),
    /// script `for x in l { out.push(x); if i == k { <body> } i = i + 1; }` over
    /// the handle `h` (the function's variable `l`); the result is `out`
    ForDo(usize, u64, Body),
    /// Rust: iterator `k` = `h.clone().into_iter()` (kept alive across the following operations)
    ItNew(usize, usize),
    /// Rust: `next()` of iterator `k`
    ItNext(usize),
    /// Rust: iterator `k` is dropped
    ItDrop(usize),
}

/// what the body of a script `for` does during iteration `k`. `o` is a second
/// variable of the function holding handle `g` (which may be the walked list).
#[derive(Clone, Debug, PartialEq)]
pub enum Body {
    /// `l = o;` — the NAME the loop was written over gets another handle: not
    /// an operation on the vector being walked
    Rebind(usize),
    /// `l = l + o;`
    RebindConcat(usize),
    /// `l = [];`
    RebindNew,
    /// the iterable is a field path: `for x in r.items { … r.items = o; … }`
    RebindField(usize),
    /// `o.push(v);` — an operation on a vector, seen by the loop when it is the walked one
    Push(usize, u64),
    /// `o.swap(i, j);`
    Swap(usize, u64, u64),
}

impl Body {
    fn text(&self) -> String {
        match self {
            Body::Rebind(g) => format!("r:{g}"),
            Body::RebindConcat(g) => format!("c:{g}"),
            Body::RebindNew => "n".into(),
            Body::RebindField(g) => format!("f:{g}"),
            Body::Push(g, v) => format!("p:{g}:{v}"),
            Body::Swap(g, i, j) => format!("s:{g}:{i}:{j}"),
        }
    }
    pub fn other(&self) -> Option<usize> {
        match self {
            Body::Rebind(g) | Body::RebindConcat(g) | Body::RebindField(g) | Body::Push(g, _) | Body::Swap(g, _, _) => Some(*g),
            Body::RebindNew => None,
        }
    }
}

/// who issues the operation
#[derive(Clone, Copy, Debug, PartialEq)]
pub enum Via {
    Rust,
    Script,
}

fn nats(xs: &[u64]) -> String {
    xs.iter().map(|x| x.to_string()).collect::<Vec<_>>().join(",")
}

impl Op {
    pub fn kind(&self) -> &'static str {
        match self {
            Op::New(_) => "new",
            Op::FromVec(..) => "from",
            Op::CloneH(..) => "clone",
            Op::DropH(_) => "drop",
            Op::Push(..) => "push",
            Op::Get(..) => "get",
            Op::Len(_) => "len",
            Op::IsEmpty(_) => "is_empty",
            Op::Capacity(_) => "capacity",
            Op::Swap(..) => "swap",
            Op::Concat(..) => "concat",
            Op::Contains(..) => "contains",
            Op::Index(..) => "index",
            Op::Eq(..) => "eq",
            Op::ToVec(_) => "to_vec",
            Op::Iter(_) => "iter",
            Op::Join(..) => "join",
            Op::ForDo(_, _, Body::Rebind(_)) => "for-rebind",
            Op::ForDo(_, _, Body::RebindConcat(_)) => "for-rebind-concat",
            Op::ForDo(_, _, Body::RebindNew) => "for-rebind-new",
            Op::ForDo(_, _, Body::RebindField(_)) => "for-rebind-field",
            Op::ForDo(_, _, Body::Push(..)) => "for-push",
            Op::ForDo(_, _, Body::Swap(..)) => "for-swap",
            Op::ItNew(..) => "iter-new",
            Op::ItNext(_) => "iter-next",
            Op::ItDrop(_) => "iter-drop",
        }
    }
    /// what the issuer really runs: a script collects with a `for` loop
    pub fn kind_via(&self, via: Via) -> &'static str {
        match (self, via) {
            (Op::ToVec(_) | Op::Iter(_), Via::Script) => "for",
            _ => self.kind(),
        }
    }
    /// token of the Lean driver's protocol
    fn lean(&self, via: Via) -> String {
        match self {
            Op::New(d) => format!("n:{d}"),
            Op::FromVec(d, xs) => format!("f:{d}:{}", nats(xs)),
            Op::CloneH(d, s) => format!("c:{d}:{s}"),
            Op::DropH(h) => format!("d:{h}"),
            Op::Push(h, v) => format!("p:{h}:{v}"),
            Op::Get(h, i) => format!("g:{h}:{i}"),
            Op::Len(h) => format!("l:{h}"),
            Op::IsEmpty(h) => format!("e:{h}"),
            Op::Capacity(h) => format!("k:{h}"),
            Op::Swap(h, i, j) => format!("s:{h}:{i}:{j}"),
            Op::Concat(d, a, b) => format!("+:{d}:{a}:{b}"),
            Op::Contains(h, v) => format!("?:{h}:{v}"),
            Op::Index(h, v) => format!("i:{h}:{v}"),
            Op::Eq(a, b) => match via {
                Via::Rust => format!("=:{a}:{b}"),
                Via::Script => format!("~:{a}:{b}"),
            },
            Op::ToVec(h) => format!("v:{h}"),
            Op::Iter(h) => format!("it:{h}"),
            Op::Join(h, k) => format!(
                "j:{h}:{}",
                SEPS[*k].bytes().map(|b| b.to_string()).collect::<Vec<_>>().join(",")
            ),
            // not one operation of the model: see `Case::lean_marked`
            Op::ForDo(..) => "fb".into(),
            Op::ItNew(k, h) => format!("in:{}:{h}", NSLOTS + k),
            Op::ItNext(k) => format!("ix:{}", NSLOTS + k),
            Op::ItDrop(k) => format!("id:{}", NSLOTS + k),
        }
    }
    fn text(&self, via: Via) -> String {
        let base = match self {
            Op::Eq(a, b) => format!("=:{a}:{b}"),
            Op::Join(h, k) => format!("j:{h}:{k}"),
            Op::ForDo(h, k, b) => format!("fb:{h}:{k}:{}", b.text()),
            Op::ItNew(k, h) => format!("in:{k}:{h}"),
            Op::ItNext(k) => format!("ix:{k}"),
            Op::ItDrop(k) => format!("id:{k}"),
            o => o.lean(Via::Rust),
        };
        match via {
            Via::Rust => base,
            Via::Script => format!("{base}@s"),
        }
    }
    fn parse(tok: &str) -> Option<(Op, Via)> {
        let (body, via) = match tok.strip_suffix("@s") {
            Some(b) => (b, Via::Script),
            None => (tok, Via::Rust),
        };
        let p: Vec<&str> = body.split(':').collect();
        let n = |i: usize| -> Option<u64> { p.get(i)?.parse().ok() };
        let h = |i: usize| -> Option<usize> { p.get(i)?.parse().ok() };
        let op = match (p[0], p.len()) {
            ("n", 2) => Op::New(h(1)?),
            ("f", 2) => Op::FromVec(h(1)?, vec![]),
            ("f", 3) => {
                let xs = if p[2].is_empty() {
                    vec![]
                } else {
                    p[2].split(',').map(|x| x.parse().ok()).collect::<Option<Vec<u64>>>()?
                };
                Op::FromVec(h(1)?, xs)
            }
            ("c", 3) => Op::CloneH(h(1)?, h(2)?),
            ("d", 2) => Op::DropH(h(1)?),
            ("p", 3) => Op::Push(h(1)?, n(2)?),
            ("g", 3) => Op::Get(h(1)?, n(2)?),
            ("l", 2) => Op::Len(h(1)?),
            ("e", 2) => Op::IsEmpty(h(1)?),
            ("k", 2) => Op::Capacity(h(1)?),
            ("s", 4) => Op::Swap(h(1)?, n(2)?, n(3)?),
            ("+", 4) => Op::Concat(h(1)?, h(2)?, h(3)?),
            ("?", 3) => Op::Contains(h(1)?, n(2)?),
            ("i", 3) => Op::Index(h(1)?, n(2)?),
            ("=", 3) => Op::Eq(h(1)?, h(2)?),
            ("v", 2) => Op::ToVec(h(1)?),
            ("it", 2) => Op::Iter(h(1)?),
            ("j", 2) => Op::Join(h(1)?, 0),
            ("j", 3) => Op::Join(h(1)?, h(2).filter(|k| *k < SEPS.len())?),
            ("in", 3) => Op::ItNew(h(1).filter(|k| *k < NITERS)?, h(2)?),
            ("ix", 2) => Op::ItNext(h(1).filter(|k| *k < NITERS)?),
            ("id", 2) => Op::ItDrop(h(1).filter(|k| *k < NITERS)?),
            ("fb", 5) if p[3] == "r" => Op::ForDo(h(1)?, n(2)?, Body::Rebind(h(4)?)),
            ("fb", 5) if p[3] == "c" => Op::ForDo(h(1)?, n(2)?, Body::RebindConcat(h(4)?)),
            ("fb", 4) if p[3] == "n" => Op::ForDo(h(1)?, n(2)?, Body::RebindNew),
            ("fb", 5) if p[3] == "f" => Op::ForDo(h(1)?, n(2)?, Body::RebindField(h(4)?)),
            ("fb", 6) if p[3] == "p" => Op::ForDo(h(1)?, n(2)?, Body::Push(h(4)?, n(5)?)),
            ("fb", 7) if p[3] == "s" => Op::ForDo(h(1)?, n(2)?, Body::Swap(h(4)?, n(5)?, n(6)?)),
            _ => return None,
        };
        Some((op, via))
    }
    /// slots that must be bound / the slot that gets bound (iterator `k` counts as slot `NSLOTS + k`)
    fn uses(&self) -> (Vec<usize>, Option<usize>) {
        match *self {
            Op::ItNew(k, h) => (vec![h], Some(NSLOTS + k)),
            Op::ItNext(k) | Op::ItDrop(k) => (vec![NSLOTS + k], None),
            Op::New(d) | Op::FromVec(d, _) => (vec![], Some(d)),
            Op::CloneH(d, s) => (vec![s], Some(d)),
            Op::Concat(d, a, b) => (vec![a, b], Some(d)),
            Op::Eq(a, b) => (vec![a, b], None),
            Op::DropH(h)
            | Op::Push(h, _)
            | Op::Get(h, _)
            | Op::Len(h)
            | Op::IsEmpty(h)
            | Op::Capacity(h)
            | Op::Swap(h, _, _)
            | Op::Contains(h, _)
            | Op::Index(h, _)
            | Op::ToVec(h)
            | Op::Iter(h)
            | Op::Join(h, _) => (vec![h], None),
            Op::ForDo(h, _, ref b) => match b.other() {
                Some(g) => (vec![h, g], None),
                None => (vec![h], None),
            },
        }
    }
}

#[derive(Clone, Debug)]
pub struct Case {
    pub etype: &'static str,
    pub ops: Vec<(Op, Via)>,
}

impl Case {
    fn text(&self) -> String {
        self.ops.iter().map(|(o, v)| o.text(*v)).collect::<Vec<_>>().join(" ")
    }
    fn has_iters(&self) -> bool {
        self.ops.iter().any(|(o, _)| matches!(o, Op::ItNew(..) | Op::ItNext(_) | Op::ItDrop(_)))
    }
    fn lean(&self, size: usize) -> String {
        let f = if self.etype == "f64" { "f" } else { "" };
        if self.has_iters() {
            // histories with live Rust-side iterators: `RotoV.ListM.istep`; the iterators' own
            // handle variables come after the NSLOTS that are shown
            return format!(
                "c15 runi{f} {size} {NSLOTS} {} {}",
                NSLOTS + NITERS,
                self.ops.iter().map(|(o, v)| o.lean(*v)).collect::<Vec<_>>().join(" ")
            );
        }
        format!(
            "c15 run{f} {size} {NSLOTS} {}",
            self.ops.iter().map(|(o, v)| o.lean(*v)).collect::<Vec<_>>().join(" ")
        )
    }
    fn has_loops(&self) -> bool {
        self.ops.iter().any(|(o, _)| matches!(o, Op::ForDo(..)))
    }
    /// A history with script loops that have a body, for the model: a loop is
    /// not one operation of the model but what the lowering of `for` makes of
    /// it — the function's variables `l` (slot 4) and `o` (slot 5) are clones of
    /// the handles passed in, the loop keeps its OWN clone of `l` (slot 3) made
    /// once before the first iteration, every iteration is `get(<slot 3>, i)`
    /// until `None`, the body works on the variables, and all three are dropped
    /// at the end. Every operation is followed by the dump marker `!`. Returns
    /// the request and, per operation, how many result records it has.
    fn lean_marked(&self, size: usize) -> (String, Vec<usize>) {
        let f = if self.etype == "f64" { "f" } else { "" };
        let mut toks: Vec<String> = vec![];
        let mut plan = vec![];
        let mut rf = Reference::new(|a, b| a == b);
        for (op, via) in &self.ops {
            match op {
                Op::ForDo(h, k, body) => {
                    let n = rf.walk_len(*h, *k, body);
                    let mut t = vec![format!("c:4:{h}")];
                    if let Some(g) = body.other() {
                        t.push(format!("c:5:{g}"));
                    }
                    let b = match body {
                        Body::Rebind(_) | Body::RebindField(_) => "c/4/5".to_string(),
                        Body::RebindConcat(_) => "+/4/4/5".to_string(),
                        Body::RebindNew => "n/4".to_string(),
                        Body::Push(_, v) => format!("p/5/{v}"),
                        Body::Swap(_, i, j) => format!("s/5/{i}/{j}"),
                    };
                    // the loop itself is expanded by the model (`RotoV.ListM.forOps`, which follows
                    // the lowering facts generated from src/mir/lower.rs): the loop's own handle,
                    // one `get` per iteration and the one that answers `None`, the body, the drop
                    t.push(format!("for:3:4:{n}:{k}:{b}"));
                    let pre = t.len() - 1;
                    let in_loop = 1 + (n as usize + 1) + usize::from(*k < n) + 1;
                    t.push("d:4".into());
                    if body.other().is_some() {
                        t.push("d:5".into());
                    }
                    let post = t.len() - pre - 1;
                    plan.push(pre + in_loop + post);
                    toks.extend(t);
                }
                o => {
                    plan.push(1);
                    toks.push(o.lean(*via));
                }
            }
            toks.push("!".into());
            rf.step(op);
        }
        (format!("c15 runm{f} {size} {} {}", NSLOTS + 3, toks.join(" ")), plan)
    }
    /// the model's records of a marked run, one per operation of the history
    fn read_marked(&self, plan: &[usize], ans: &str) -> Option<Vec<Rec>> {
        let mut it = ans.split('|');
        let mut recs = vec![];
        for ((op, _), n) in self.ops.iter().zip(plan) {
            let outs: Vec<&str> = (0..*n).map(|_| it.next()).collect::<Option<Vec<_>>>()?;
            let dump = it.next()?.strip_prefix('!')?;
            let (slots_s, live_s) = dump.split_once(';')?;
            let all: Vec<&str> = slots_s.split('/').collect();
            let tail_clean = all.iter().skip(NSLOTS).all(|x| *x == "-");
            let out = match op {
                Op::ForDo(..) => {
                    // the elements the `get`s returned, up to the first `None`
                    let gets: Vec<&str> = outs.iter().copied().filter(|o| o.starts_with('o')).collect();
                    let mut vals = vec![];
                    let mut ended = false;
                    for g in &gets {
                        if *g == "o-" {
                            ended = true;
                            break;
                        }
                        vals.push(g[1..].to_string());
                    }
                    let faults: Vec<&str> = outs.iter().copied().filter(|o| o.starts_with("F:")).collect();
                    if !faults.is_empty() {
                        faults[0].to_string()
                    } else if !ended || !tail_clean {
                        format!("v{}+unfinished", vals.join(","))
                    } else {
                        format!("v{}", vals.join(","))
                    }
                }
                _ => outs[0].to_string(),
            };
            let head = all.iter().take(NSLOTS).copied().collect::<Vec<_>>().join("/");
            recs.push(parse_rec(&format!("{out};{head};{live_s}"))?);
        }
        Some(recs)
    }
    fn json(&self) -> serde_json::Value {
        json!({"etype": self.etype, "ops": self.text()})
    }
    fn parse(etype: &str, ops: &str) -> Option<Case> {
        let etype = ETYPES.iter().find(|e| **e == etype)?;
        let ops = ops.split_whitespace().map(Op::parse).collect::<Option<Vec<_>>>()?;
        Some(Case { etype, ops })
    }
    /// every operation only touches bound handles (expressible in Rust / Roto)
    fn valid(&self) -> bool {
        let mut bound = [false; NSLOTS + NITERS];
        let loops = self.has_loops();
        for (op, via) in &self.ops {
            let (need, binds) = op.uses();
            if need.iter().any(|h| *h >= NSLOTS + NITERS || !bound[*h]) {
                return false;
            }
            if let Op::DropH(h) = op {
                bound[*h] = false;
            }
            if let Op::ItDrop(k) = op {
                bound[NSLOTS + *k] = false;
            }
            if let Some(d) = binds {
                if d >= NSLOTS + NITERS {
                    return false;
                }
                bound[d] = true;
            }
            // iterators are a Rust-side thing; one model run has either lowered loops or iterators
            if matches!(op, Op::ItNew(..) | Op::ItNext(_) | Op::ItDrop(_)) && (*via != Via::Rust || loops) {
                return false;
            }
            if matches!(op, Op::Join(..)) && (self.etype != "String" || *via != Via::Script) {
                return false;
            }
            // a loop with a body exists in scripts only
            if matches!(op, Op::ForDo(..)) && *via != Via::Script {
                return false;
            }
        }
        true
    }
}

// ---------------------------------------------------------------- observations

/// what one step shows: the operation's result, every slot, the live count
#[derive(Clone, Debug, PartialEq)]
pub struct Rec {
    pub out: String,
    /// per slot: None = unbound, Some((len, cap, contents))
    pub slots: Vec<Option<(u64, Option<u64>, Vec<u64>)>>,
    pub live: Option<i64>,
}

fn show_opt(o: Option<u64>) -> String {
    match o {
        Some(v) => format!("o{v}"),
        None => "o-".into(),
    }
}

fn parse_rec(s: &str) -> Option<Rec> {
    let mut it = s.split(';');
    let out = it.next()?.to_string();
    let slots_s = it.next()?;
    let live_s = it.next()?;
    let mut slots = vec![];
    for sl in slots_s.split('/') {
        if sl == "-" {
            slots.push(None);
            continue;
        }
        let p: Vec<&str> = sl.split(':').collect();
        if p.len() != 3 {
            return None;
        }
        let xs = if p[2].is_empty() {
            vec![]
        } else {
            p[2].split(',').map(|x| x.parse().ok()).collect::<Option<Vec<u64>>>()?
        };
        slots.push(Some((p[0].parse().ok()?, p[1].parse().ok(), xs)));
    }
    Some(Rec { out, slots, live: live_s.parse().ok() })
}

// ---------------------------------------------------------------- the reference: shared vectors

type RefList = Rc<RefCell<Vec<u64>>>;

/// an element of the reference vectors as `Vec`'s own `==` / `contains` see it:
/// `PartialEq` is the element type's (`Elem::same`)
#[derive(Clone, Copy)]
struct W(u64, fn(u64, u64) -> bool);
impl PartialEq for W {
    fn eq(&self, o: &W) -> bool {
        (self.1)(self.0, o.0)
    }
}

struct Reference {
    slots: Vec<Option<RefList>>,
    /// live iterators: the shared vector walked and the cursor into it
    iters: Vec<Option<(RefList, usize)>>,
    same: fn(u64, u64) -> bool,
}

impl Reference {
    fn new(same: fn(u64, u64) -> bool) -> Self {
        Reference { slots: vec![None; NSLOTS], iters: vec![None; NITERS], same }
    }
    fn typed(&self, h: usize) -> Vec<W> {
        self.get(h).borrow().iter().map(|x| W(*x, self.same)).collect()
    }
    /// both handles hold the same vector and it has an element that is not equal to itself
    fn same_vector_with_nan(&self, a: usize, b: usize) -> bool {
        let (x, y) = (self.get(a), self.get(b));
        Rc::ptr_eq(&x, &y) && x.borrow().iter().any(|e| !(self.same)(*e, *e))
    }
    /// the script loop `for x in <h> { out.push(x); if i == k { body } i += 1 }` on
    /// shared vectors: the loop walks, by index, the ONE vector `h` referred to
    /// when it started; assignments to the variable are not operations on it
    fn walk(&mut self, h: usize, k: u64, body: &Body) -> Vec<u64> {
        let walked = self.get(h);
        let mut out = vec![];
        let mut i = 0u64;
        loop {
            let x = walked.borrow().get(i as usize).copied();
            let Some(x) = x else { break };
            out.push(x);
            if i == k {
                match body {
                    Body::Rebind(_) | Body::RebindConcat(_) | Body::RebindNew | Body::RebindField(_) => {}
                    Body::Push(g, v) => self.get(*g).borrow_mut().push(*v),
                    Body::Swap(g, a, b) => {
                        let l = self.get(*g);
                        let mut v = l.borrow_mut();
                        let (a, b) = (*a as usize, *b as usize);
                        if a < v.len() && b < v.len() {
                            v.swap(a, b);
                        }
                    }
                }
            }
            i += 1;
        }
        out
    }
    /// how many elements that loop visits (on a copy: nothing changes)
    fn walk_len(&self, h: usize, k: u64, body: &Body) -> u64 {
        let mut copy = Reference { slots: vec![], iters: vec![None; NITERS], same: self.same };
        // same aliasing structure, copied vectors
        let mut seen: Vec<(*const RefCell<Vec<u64>>, RefList)> = vec![];
        for s in &self.slots {
            copy.slots.push(s.as_ref().map(|l| {
                let p = Rc::as_ptr(l);
                if let Some((_, c)) = seen.iter().find(|(q, _)| *q == p) {
                    c.clone()
                } else {
                    let c = Rc::new(RefCell::new(l.borrow().clone()));
                    seen.push((p, c.clone()));
                    c
                }
            }));
        }
        copy.walk(h, k, body).len() as u64
    }
    fn get(&self, h: usize) -> RefList {
        self.slots[h].clone().expect("bound")
    }
    fn step(&mut self, op: &Op) -> String {
        match op {
            Op::New(d) => {
                self.slots[*d] = Some(Rc::new(RefCell::new(vec![])));
                "u".into()
            }
            Op::FromVec(d, xs) => {
                self.slots[*d] = Some(Rc::new(RefCell::new(xs.clone())));
                "u".into()
            }
            Op::CloneH(d, s) => {
                let l = self.get(*s);
                self.slots[*d] = Some(l);
                "u".into()
            }
            Op::DropH(h) => {
                self.slots[*h] = None;
                "u".into()
            }
            Op::Push(h, v) => {
                self.get(*h).borrow_mut().push(*v);
                "u".into()
            }
            Op::Get(h, i) => show_opt(self.get(*h).borrow().get(*i as usize).copied()),
            Op::Len(h) => format!("n{}", self.get(*h).borrow().len()),
            Op::IsEmpty(h) => format!("b{}", self.get(*h).borrow().is_empty() as u8),
            Op::Capacity(_) => "n?".into(),
            Op::Swap(h, i, j) => {
                let l = self.get(*h);
                let mut v = l.borrow_mut();
                let (i, j) = (*i as usize, *j as usize);
                if i < v.len() && j < v.len() {
                    v.swap(i, j);
                }
                "u".into()
            }
            Op::Concat(d, a, b) => {
                let mut v = self.get(*a).borrow().clone();
                v.extend(self.get(*b).borrow().iter().copied());
                self.slots[*d] = Some(Rc::new(RefCell::new(v)));
                "u".into()
            }
            // `Vec<T>::contains`, `iter().position`, `Vec<T> == Vec<T>` with T's own `==`
            Op::Contains(h, v) => format!("b{}", self.typed(*h).contains(&W(*v, self.same)) as u8),
            Op::Index(h, v) => {
                let w = W(*v, self.same);
                show_opt(self.typed(*h).iter().position(|x| *x == w).map(|i| i as u64))
            }
            Op::Eq(a, b) => format!("b{}", (self.typed(*a) == self.typed(*b)) as u8),
            Op::ToVec(h) | Op::Iter(h) => format!("v{}", nats(&self.get(*h).borrow())),
            // the property: `Vec<String>::join` of the same strings
            Op::Join(h, k) => {
                let v: Vec<String> = self.get(*h).borrow().iter().map(|x| elem_string(*x)).collect();
                show_str(&v.join(SEPS[*k]))
            }
            Op::ForDo(h, k, body) => format!("v{}", nats(&self.walk(*h, *k, body))),
            // the property: an iterator is a cursor into the ONE shared vector — `next` is the
            // element at the cursor of the vector as it is now (`None` past its end, and again
            // an element once the vector has grown), the cursor moves on iff there was one
            Op::ItNew(k, h) => {
                self.iters[*k] = Some((self.get(*h), 0));
                "u".into()
            }
            Op::ItNext(k) => {
                let (l, c) = self.iters[*k].as_mut().expect("live iterator");
                let x = l.borrow().get(*c).copied();
                if x.is_some() {
                    *c += 1;
                }
                show_opt(x)
            }
            Op::ItDrop(k) => {
                self.iters[*k] = None;
                "u".into()
            }
        }
    }
    fn observe(&self, out: String) -> Rec {
        // live elements = elements of distinct live vectors
        let mut seen: Vec<*const RefCell<Vec<u64>>> = vec![];
        let mut live = 0i64;
        let mut slots = vec![];
        // a live iterator keeps its vector alive
        for (l, _) in self.iters.iter().flatten() {
            let p = Rc::as_ptr(l);
            if !seen.contains(&p) {
                seen.push(p);
                live += l.borrow().len() as i64;
            }
        }
        for s in &self.slots {
            match s {
                None => slots.push(None),
                Some(l) => {
                    let p = Rc::as_ptr(l);
                    if !seen.contains(&p) {
                        seen.push(p);
                        live += l.borrow().len() as i64;
                    }
                    slots.push(Some((l.borrow().len() as u64, None, l.borrow().clone())));
                }
            }
        }
        Rec { out, slots, live: Some(live) }
    }
}

// ---------------------------------------------------------------- the implementation

/// case indices below this one report the known deviation `nan-same-list` (the boundary stream; everything for a single-case run)
static REPORT_KNOWN_BELOW: AtomicU64 = AtomicU64::new(u64::MAX);
static OP_STARTED_MS: AtomicU64 = AtomicU64::new(0);
static OP_INDEX: AtomicU64 = AtomicU64::new(0);
static CASE_INDEX: AtomicU64 = AtomicU64::new(0);

fn now_ms() -> u64 {
    use std::time::{SystemTime, UNIX_EPOCH};
    SystemTime::now().duration_since(UNIX_EPOCH).unwrap().as_millis() as u64
}

/// kills the process when one operation runs over its time limit
fn start_watchdog() {
    std::thread::spawn(|| {
        loop {
            std::thread::sleep(Duration::from_millis(25));
            let t = OP_STARTED_MS.load(Ordering::SeqCst);
            if t != 0 && now_ms().saturating_sub(t) > OP_LIMIT_MS {
                println!(
                    "HANG {} {}",
                    CASE_INDEX.load(Ordering::SeqCst),
                    OP_INDEX.load(Ordering::SeqCst)
                );
                let _ = std::io::stdout().flush();
                std::process::exit(3);
            }
        }
    });
}

struct Impl<T: Elem>
where
    T::Transformed: PartialEq,
{
    slots: Vec<Option<List<T>>>,
    iters: Vec<Option<<List<T> as IntoIterator>::IntoIter>>,
    script: Option<script::Funcs<T>>,
}

impl<T: Elem> Impl<T>
where
    T::Transformed: PartialEq,
{
    fn new(script: Option<script::Funcs<T>>) -> Self {
        Impl { slots: (0..NSLOTS).map(|_| None).collect(), iters: (0..NITERS).map(|_| None).collect(), script }
    }
    fn h(&self, h: usize) -> &List<T> {
        self.slots[h].as_ref().expect("bound")
    }
    fn step(&mut self, op: &Op, via: Via) -> String {
        if via == Via::Script {
            let f = self.script.as_ref().expect("script functions for this element type");
            return script::step(f, &mut self.slots, op);
        }
        match op {
            Op::New(d) => {
                self.slots[*d] = Some(List::new());
                "u".into()
            }
            Op::FromVec(d, xs) => {
                let v: Vec<T> = xs.iter().map(|x| T::make(*x)).collect();
                // the four conversions of the API, chosen by the length
                let l = match xs.len() % 4 {
                    0 => List::from(v),
                    1 => List::from(&v[..]),
                    2 => v.into_iter().collect::<List<T>>(),
                    _ => match <[T; 3]>::try_from(v) {
                        Ok(a) => List::from(a),
                        Err(v) => List::from(v),
                    },
                };
                self.slots[*d] = Some(l);
                "u".into()
            }
            Op::CloneH(d, s) => {
                let l = self.h(*s).clone();
                self.slots[*d] = Some(l);
                "u".into()
            }
            Op::DropH(h) => {
                self.slots[*h] = None;
                "u".into()
            }
            Op::Push(h, v) => {
                self.h(*h).push(T::make(*v));
                "u".into()
            }
            Op::Get(h, i) => show_opt(self.h(*h).get(*i as usize).map(|x| x.val())),
            Op::Len(h) => format!("n{}", self.h(*h).len()),
            Op::IsEmpty(h) => format!("b{}", self.h(*h).is_empty() as u8),
            Op::Capacity(h) => format!("n{}", self.h(*h).capacity()),
            Op::Swap(h, i, j) => {
                self.h(*h).swap(*i as usize, *j as usize);
                "u".into()
            }
            Op::Concat(d, a, b) => {
                let l = self.h(*a).concat(self.h(*b));
                self.slots[*d] = Some(l);
                "u".into()
            }
            Op::Contains(h, v) => {
                let item = T::make(*v);
                format!("b{}", self.h(*h).contains(&item) as u8)
            }
            Op::Index(h, v) => {
                let item = T::make(*v);
                show_opt(self.h(*h).index(&item).map(|i| i as u64))
            }
            Op::Eq(a, b) => format!("b{}", (self.h(*a) == self.h(*b)) as u8),
            Op::ToVec(h) => {
                let v: Vec<u64> = self.h(*h).to_vec().iter().map(|x| x.val()).collect();
                format!("v{}", nats(&v))
            }
            Op::Iter(h) => {
                let mut v = vec![];
                for x in self.h(*h).clone() {
                    v.push(x.val());
                }
                format!("v{}", nats(&v))
            }
            Op::Join(..) | Op::ForDo(..) => "unsupported".into(),
            Op::ItNew(k, h) => {
                let it = self.h(*h).clone().into_iter();
                self.iters[*k] = Some(it);
                "u".into()
            }
            Op::ItNext(k) => show_opt(self.iters[*k].as_mut().expect("live iterator").next().map(|x| x.val())),
            Op::ItDrop(k) => {
                self.iters[*k] = None;
                "u".into()
            }
        }
    }
    fn observe(&self, out: String) -> Rec {
        let slots = self
            .slots
            .iter()
            .map(|s| {
                s.as_ref().map(|l| {
                    let v: Vec<u64> = l.to_vec().iter().map(|x| x.val()).collect();
                    (l.len() as u64, Some(l.capacity() as u64), v)
                })
            })
            .collect();
        Rec { out, slots, live: T::TRACKED.then(|| T::live()) }
    }
}

/// run one case on the implementation and on the reference, compare, and
/// return the implementation's records (for the model comparison)
fn run_case<T: Elem>(
    idx: u64,
    case: &Case,
    funcs: &mut Option<script::Funcs<T>>,
    rep: &mut Report,
) -> (Vec<Rec>, bool)
where
    T::Transformed: PartialEq,
{
    CASE_INDEX.store(idx, Ordering::SeqCst);
    let live0 = T::live();
    let bad0 = BAD.load(Ordering::SeqCst);
    let mut imp = Impl::<T>::new(funcs.take());
    let mut rf = Reference::new(T::same);
    let mut recs = vec![];
    let mut failed = false;
    for (k, (op, via)) in case.ops.iter().enumerate() {
        OP_INDEX.store(k as u64, Ordering::SeqCst);
        OP_STARTED_MS.store(now_ms(), Ordering::SeqCst);
        let out = imp.step(op, *via);
        let got = imp.observe(out);
        OP_STARTED_MS.store(0, Ordering::SeqCst);
        let mut got = got;
        if let Some(l) = got.live.as_mut() {
            *l -= live0;
        }
        // `l == l` for a list holding a NaN: both `==` answer `true` without looking
        // (`Arc::ptr_eq`), a vector compared with itself is `false`. A genuine
        // deviation (Lean: `eq_same_list_nan_differs`), reported under its own key,
        // a few times per worker; the history goes on being compared after it.
        let refl_nan = matches!(op, Op::Eq(a, b) if rf.same_vector_with_nan(*a, *b));
        let want_out = rf.step(op);
        let mut want = rf.observe(want_out);
        if refl_nan && got.out == "b1" && want.out == "b0" {
            // reported from the class representatives (and a replay) only: the enumerated and
            // random histories meet it thousands of times and would fill the report
            if idx < REPORT_KNOWN_BELOW.load(Ordering::SeqCst) {
                let via_s = if *via == Via::Script { "script" } else { "rust" };
                let mut cut = case.clone();
                cut.ops.truncate(k + 1);
                rep.violation(
                    &format!(
                        "step {k} `{}` of a {} list: the list holds a NaN and is compared with itself: true, but a vector compared with itself gives false (no element is looked at when both operands are the same Arc)",
                        op.text(*via),
                        case.etype
                    ),
                    &format!("vec:{}:eq:{via_s}:nan-same-list", case.etype),
                    json!({"case": cut.json(), "step": k, "got": got.out, "want": want.out}),
                );
            }
            want.out = got.out.clone();
        }
        if !failed {
            if let Some(what) = disagree(&got, &want, op) {
                failed = true;
                let via_s = if *via == Via::Script { "script" } else { "rust" };
                rep.violation(
                    &format!(
                        "step {k} `{}` of a {} list: {what}",
                        op.text(*via),
                        case.etype
                    ),
                    &format!(
                        "vec:{}:{}:{}:{}",
                        case.etype,
                        op.kind_via(*via),
                        via_s,
                        what.split(':').next().unwrap_or("")
                    ),
                    json!({"case": case.json(), "step": k, "got": format!("{got:?}"), "want": format!("{want:?}")}),
                );
            }
        }
        recs.push(got);
    }
    // dropping every handle must release every element
    let script = imp.script.take();
    drop(imp);
    *funcs = script;
    if T::TRACKED && T::live() != live0 && !failed {
        failed = true;
        rep.violation(
            &format!("after dropping every handle {} tracked elements remain", T::live() - live0),
            &format!("tokens:{}:leak-at-end", case.etype),
            json!({"case": case.json()}),
        );
    }
    if BAD.load(Ordering::SeqCst) != bad0 {
        failed = true;
        rep.violation(
            "a tracked element was read or dropped after its drop",
            &format!("tokens:{}:use-after-drop", case.etype),
            json!({"case": case.json()}),
        );
    }
    (recs, failed)
}

/// the reflexive-shortcut deviation (reported, but the history is not cut there)
fn is_known_deviation(v: &serde_json::Value) -> bool {
    v["key"].as_str().is_some_and(|k| k.ends_with(":nan-same-list"))
}

/// first violation key of running `case` (on a scratch report)
fn first_key<T: Elem>(idx: u64, case: &Case, funcs: &mut Option<script::Funcs<T>>) -> Option<(String, Option<usize>)>
where
    T::Transformed: PartialEq,
{
    let mut tmp = Report::default();
    let _ = run_case::<T>(idx, case, funcs, &mut tmp);
    let v = tmp.impl_violations.iter().find(|v| !is_known_deviation(v))?;
    Some((
        v["key"].as_str().unwrap_or("").to_string(),
        v["input"]["step"].as_u64().map(|k| k as usize),
    ))
}

/// Run a case; when it violates the property without crashing, report the
/// smallest history found by cutting after the failing step and greedily
/// deleting chunks of operations (same violation key required).
fn run_case_shrunk<T: Elem>(
    idx: u64,
    case: &Case,
    funcs: &mut Option<script::Funcs<T>>,
    rep: &mut Report,
) -> (Vec<Rec>, bool)
where
    T::Transformed: PartialEq,
{
    let mut tmp = Report::default();
    let (recs, failed) = run_case::<T>(idx, case, funcs, &mut tmp);
    let first_real = tmp.impl_violations.iter().position(|v| !is_known_deviation(v));
    let (true, true, Some(first_real)) = (failed, case.ops.len() > 4, first_real) else {
        for v in tmp.impl_violations {
            if rep.impl_violations.len() < 200 {
                rep.impl_violations.push(v);
            }
        }
        return (recs, failed);
    };
    for v in tmp.impl_violations.iter().filter(|v| is_known_deviation(v)) {
        rep.impl_violations.push(v.clone());
    }
    let key = tmp.impl_violations[first_real]["key"].as_str().unwrap_or("").to_string();
    let mut cur = case.clone();
    if let Some(k) = tmp.impl_violations[first_real]["input"]["step"].as_u64() {
        cur.ops.truncate(k as usize + 1);
    }
    let mut budget = 400;
    let mut chunk = (cur.ops.len() / 2).max(1);
    loop {
        let mut i = 0;
        while i + chunk < cur.ops.len() && budget > 0 {
            let mut cand = cur.clone();
            cand.ops.drain(i..i + chunk);
            budget -= 1;
            let same = cand.valid()
                && matches!(first_key::<T>(idx, &cand, funcs), Some((k, _)) if k == key);
            if same {
                cur = cand;
            } else {
                i += chunk;
            }
        }
        if chunk == 1 || budget == 0 {
            break;
        }
        chunk /= 2;
    }
    // the violation as the small history shows it (cut again after its failing step)
    if let Some((k, Some(step))) = first_key::<T>(idx, &cur, funcs) {
        if k == key {
            cur.ops.truncate(step + 1);
        }
    }
    let mut fin = Report::default();
    let _ = run_case::<T>(idx, &cur, funcs, &mut fin);
    let mut pushed = false;
    for mut v in fin.impl_violations {
        if v["key"].as_str() == Some(&key) && !pushed {
            v["input"]["shrunk_from_ops"] = json!(case.ops.len());
            rep.impl_violations.push(v);
            pushed = true;
        }
    }
    if !pushed {
        for v in tmp.impl_violations.into_iter().filter(|v| !is_known_deviation(v)) {
            rep.impl_violations.push(v);
        }
    }
    (recs, failed)
}

/// the property: results and contents as a shared vector gives them, tokens balanced
fn disagree(got: &Rec, want: &Rec, op: &Op) -> Option<String> {
    if !matches!(op, Op::Capacity(_)) && got.out != want.out {
        if let (Op::Join(_, k), Some(g), Some(w)) = (op, read_str(&got.out), read_str(&want.out)) {
            return Some(format!(
                "result: join({:?}) gives {g:?} but the same strings in a vector join to {w:?}",
                SEPS[*k]
            ));
        }
        return Some(format!("result: {} but a shared vector gives {}", got.out, want.out));
    }
    // `capacity` is the one result a vector's contents do not determine, but asking twice
    // without a mutation in between gives one answer: the number the call returned (from a
    // script: through the `capacity` binding) against the capacity the same list reports to
    // the observation right after it (Rust API)
    if let Op::Capacity(h) = op {
        let said = got.out.strip_prefix('n').and_then(|s| s.parse::<u64>().ok());
        if let (Some(c), Some(Some((_, Some(gc), _)))) = (said, got.slots.get(*h)) {
            if c != *gc {
                return Some(format!(
                    "result: capacity() returns {c}, asked again right after (no mutation in between) the same list reports {gc}"
                ));
            }
        }
    }
    for (h, (g, w)) in got.slots.iter().zip(&want.slots).enumerate() {
        match (g, w) {
            (None, None) => {}
            (Some((gl, gc, gv)), Some((wl, _, wv))) => {
                if gl != wl || gv != wv {
                    return Some(format!("contents: handle {h} holds {gv:?} (len {gl}), a shared vector holds {wv:?}"));
                }
                if let Some(c) = gc {
                    if c < gl {
                        return Some(format!("capacity: handle {h} reports capacity {c} < len {gl}"));
                    }
                }
            }
            _ => return Some(format!("binding: handle {h}")),
        }
    }
    if let (Some(g), Some(w)) = (got.live, want.live) {
        if g != w {
            return Some(format!("tokens: {g} tracked elements alive, live lists hold {w}"));
        }
    }
    None
}

/// model vs implementation (everything, including the capacity)
fn model_disagree(got: &Rec, model: &Rec) -> Option<String> {
    if got.out != model.out {
        return Some(format!("result {} vs model {}", got.out, model.out));
    }
    if got.slots.len() != model.slots.len() {
        return Some("slot count".into());
    }
    for (h, (g, m)) in got.slots.iter().zip(&model.slots).enumerate() {
        if g != m {
            return Some(format!("handle {h}: {g:?} vs model {m:?}"));
        }
    }
    if let (Some(g), Some(m)) = (got.live, model.live) {
        if g != m {
            return Some(format!("live {g} vs model {m}"));
        }
    }
    None
}

// ---------------------------------------------------------------- generators

/// the alphabet of the exhaustive enumeration over `ns` handles: creators,
/// mutators and the two-list operations; the observers (len, capacity,
/// contents) are applied to every handle after every operation anyway
fn alphabet(ns: usize) -> Vec<Op> {
    let mut a = vec![];
    for d in 0..ns {
        a.push(Op::New(d));
        a.push(Op::FromVec(d, vec![1, 2]));
        a.push(Op::DropH(d));
        a.push(Op::Push(d, 1));
        a.push(Op::Push(d, 2));
        a.push(Op::Swap(d, 0, 1));
        a.push(Op::Swap(d, 1, 1));
        a.push(Op::Swap(d, 0, 2));
        a.push(Op::Get(d, 1));
        a.push(Op::Contains(d, 2));
        a.push(Op::Index(d, 2));
        a.push(Op::Iter(d));
        // a script loop over `d` whose body gives the variable another handle after the first element
        a.push(Op::ForDo(d, 0, Body::Rebind((d + 1) % ns)));
        for s in 0..ns {
            if s != d {
                a.push(Op::CloneH(d, s));
            }
            a.push(Op::Eq(d, s));
            for b in 0..ns {
                a.push(Op::Concat(d, s, b));
            }
        }
    }
    // a Rust-side iterator that stays alive between the letters
    for h in 0..ns {
        a.push(Op::ItNew(0, h));
    }
    a.push(Op::ItNext(0));
    a.push(Op::ItDrop(0));
    a
}

/// the alphabet for lists of strings: value 2 becomes 0 — the empty string —
/// so that every enumerated history has empty elements in it, and `join` is a letter
fn string_alphabet(ns: usize) -> Vec<Op> {
    let z = |v: u64| if v == 2 { 0 } else { v };
    let mut a: Vec<Op> = alphabet(ns)
        .into_iter()
        .map(|o| match o {
            Op::FromVec(d, xs) => Op::FromVec(d, xs.iter().map(|v| z(*v)).collect()),
            Op::Push(h, v) => Op::Push(h, z(v)),
            Op::Contains(h, v) => Op::Contains(h, z(v)),
            Op::Index(h, v) => Op::Index(h, z(v)),
            o => o,
        })
        .collect();
    for d in 0..ns {
        a.push(Op::Join(d, 0));
    }
    a
}

/// the alphabet for lists of `f64`: value 1 is `0.0`, value 2 is `-0.0` (equal,
/// other bits), and the two-element list is `[0.0, NaN]` (same bits, not equal)
fn f64_values(op: Op) -> Op {
    let z = |v: u64| if v == 2 { F_NZ } else { F_Z };
    match op {
        Op::FromVec(d, _) => Op::FromVec(d, vec![F_Z, F_NAN]),
        Op::Push(h, v) => Op::Push(h, z(v)),
        Op::Contains(h, v) => Op::Contains(h, z(v)),
        Op::Index(h, v) => Op::Index(h, z(v)),
        Op::ForDo(h, k, Body::Push(g, v)) => Op::ForDo(h, k, Body::Push(g, z(v))),
        o => o,
    }
}

fn zero_values(op: Op) -> Op {
    match op {
        Op::FromVec(d, xs) => Op::FromVec(d, xs.iter().map(|_| 0).collect()),
        Op::Push(h, _) => Op::Push(h, 0),
        Op::Contains(h, _) => Op::Contains(h, 0),
        Op::Index(h, _) => Op::Index(h, 0),
        Op::ForDo(h, k, Body::Push(g, _)) => Op::ForDo(h, k, Body::Push(g, 0)),
        o => o,
    }
}

fn random_case(etype: &'static str, seed: u64, idx: u64, via_mode: u64) -> Case {
    let mut p = Prng::for_case(seed, idx);
    let n = 1 + p.below(200) as usize;
    // value domain: small, so contains / index / == hit and miss
    let vmax = *p.pick(&[2u64, 5, 40]);
    let mut bound = [false; NSLOTS];
    let mut lens = [0u64; NSLOTS]; // rough, only to aim indices
    let mut ops = vec![];
    // a third of the histories keep Rust-side iterators alive between their operations
    // (those have no script loop with a body: one model run has either)
    let with_iters = p.chance(1, 3);
    let mut it_live = [false; NITERS];
    let val = |p: &mut Prng| -> u64 {
        match etype {
            "Tk0" => 0,
            "f64" => F64_VALS[p.below(vmax.min(F64_VALS.len() as u64)) as usize],
            "u8" => p.below(vmax.min(255)) + if p.chance(1, 20) { 200 } else { 0 },
            _ => p.below(vmax),
        }
    };
    while ops.len() < n {
        let via = match via_mode {
            0 => Via::Rust,
            1 => Via::Script,
            _ => if p.chance(1, 2) { Via::Rust } else { Via::Script },
        };
        let any: Vec<usize> = (0..NSLOTS).filter(|h| bound[*h]).collect();
        if any.is_empty() || p.chance(1, 25) {
            let d = p.below(NSLOTS as u64) as usize;
            if p.chance(1, 2) {
                ops.push((Op::New(d), via));
                lens[d] = 0;
            } else {
                let k = p.below(10);
                let xs: Vec<u64> = (0..k).map(|_| val(&mut p)).collect();
                lens[d] = k;
                ops.push((Op::FromVec(d, xs), via));
            }
            bound[d] = true;
            continue;
        }
        let h = *p.pick(&any);
        let h2 = *p.pick(&any);
        let d = p.below(NSLOTS as u64) as usize;
        if with_iters && via == Via::Rust && p.chance(1, 4) {
            let k = p.below(NITERS as u64) as usize;
            let op = if !it_live[k] || p.chance(1, 8) {
                it_live[k] = true;
                Op::ItNew(k, h)
            } else if p.chance(1, 10) {
                it_live[k] = false;
                Op::ItDrop(k)
            } else {
                Op::ItNext(k)
            };
            ops.push((op, via));
            continue;
        }
        let idx = |p: &mut Prng, len: u64| -> u64 {
            match p.below(10) {
                0 => len,
                1 => len + 1 + p.below(3),
                2 => u64::MAX - p.below(2),
                // in range only after a truncating cast (u8 / u16 / u32 / i64) in an adapter
                3 if p.chance(1, 2) => (1u64 << *p.pick(&[8u32, 16, 32, 63])) + p.below(len.max(1)),
                _ => p.below(len.max(1)),
            }
        };
        let op = match p.below(100) {
            0..=29 => {
                lens[h] += 1;
                Op::Push(h, val(&mut p))
            }
            30..=36 => Op::Get(h, idx(&mut p, lens[h])),
            37..=39 => Op::Len(h),
            40..=41 => Op::IsEmpty(h),
            42..=44 => Op::Capacity(h),
            45..=54 => Op::Swap(h, idx(&mut p, lens[h]), idx(&mut p, lens[h])),
            55..=62 => {
                // keep the lists from exploding
                if lens[h] + lens[h2] > 600 {
                    Op::Len(h)
                } else {
                    let l = lens[h] + lens[h2];
                    bound[d] = true;
                    let op = Op::Concat(d, h, h2);
                    lens[d] = l;
                    op
                }
            }
            63..=69 => Op::Contains(h, val(&mut p)),
            70..=76 => Op::Index(h, val(&mut p)),
            77..=84 => Op::Eq(h, h2),
            85..=87 => Op::ToVec(h),
            88..=90 => Op::Iter(h),
            91..=95 => {
                if d == h {
                    Op::Len(h)
                } else {
                    bound[d] = true;
                    lens[d] = lens[h];
                    Op::CloneH(d, h)
                }
            }
            96..=97 => {
                bound[h] = false;
                Op::DropH(h)
            }
            _ => {
                if etype == "String" && via == Via::Script {
                    Op::Join(h, p.below(SEPS.len() as u64) as usize)
                } else {
                    Op::Len(h)
                }
            }
        };
        // a list of strings is joined more often than the 2 % above (script issuer only)
        let op = if etype == "String" && via == Via::Script && matches!(op, Op::Len(_) | Op::Capacity(_) | Op::IsEmpty(_)) && p.chance(1, 2) {
            Op::Join(h, p.below(SEPS.len() as u64) as usize)
        } else {
            op
        };
        let op = if etype == "Tk0" && via == Via::Script && known_tk0_for(&op) { Op::Len(h) } else { op };
        // script loops with a body: the variable is rebound / the walked list is changed through an alias
        let op = if !with_iters && via == Via::Script && matches!(op, Op::Len(_) | Op::Capacity(_) | Op::IsEmpty(_) | Op::ToVec(_) | Op::Iter(_)) && p.chance(1, 2) {
            let k = p.below(lens[h].max(1) + 1);
            let body = match p.below(8) {
                0 | 1 => Body::Rebind(h2),
                2 => Body::RebindConcat(h2),
                3 => Body::RebindNew,
                4 => Body::RebindField(h2),
                5 | 6 => {
                    lens[h2] += 1;
                    Body::Push(h2, val(&mut p))
                }
                _ => Body::Swap(h2, idx(&mut p, lens[h2]), idx(&mut p, lens[h2])),
            };
            Op::ForDo(h, k, body)
        } else {
            op
        };
        ops.push((op, via));
    }
    Case { etype, ops }
}

/// Class representatives for Rust-side iteration INTERLEAVED with operations through
/// aliases: an iterator (`List::into_iter`) stays alive while the list it walks grows /
/// is permuted through another Rust handle or through a script, while the variable it
/// was made from is rebound or dropped, next to a second iterator over the same list;
/// a walk over a list that starts empty; `next` again after `None`. One minimal
/// history per shape, independent of the seed, first in every run.
fn iterator_cases(etype: &'static str) -> Vec<String> {
    let z = etype == "Tk0";
    let v = |x: u64| if z { 0 } else { x };
    let mut t = vec![
        // the list grows through another Rust handle during the walk (a work queue)
        format!("f:0:{},{} c:1:0 in:0:0 ix:0 p:1:{} p:1:{} ix:0 ix:0 ix:0 ix:0 id:0 v:0", v(1), v(2), v(10), v(11)),
        // a walk over a list that starts empty; `next` after `None` once the list has grown
        format!("n:0 in:0:0 ix:0 p:0:{} ix:0 ix:0 p:0:{} ix:0 ix:0 id:0", v(7), v(8)),
        // the iterator keeps the list alive after every handle is gone
        format!("f:0:{},{} in:0:0 d:0 ix:0 ix:0 ix:0 id:0", v(1), v(2)),
        // two iterators over one list, a swap through the handle, the handle rebound to a concatenation
        format!(
            "f:0:{},{},{} in:0:0 in:1:0 ix:0 s:0:0:2 ix:1 ix:0 +:0:0:0 ix:0 ix:0 p:0:{} ix:0 ix:1 ix:1 ix:1 id:0 id:1 v:0",
            v(1), v(2), v(3), v(9)
        ),
        // an iterator made anew over another list while alive; a one-shot walk next to it
        format!("f:0:{} f:1:{},{} in:0:0 ix:0 in:0:1 ix:0 it:1 ix:0 ix:0 id:0", v(1), v(2), v(3)),
        // growth across a capacity boundary (reallocation) under a live iterator
        format!(
            "f:0:{},{},{},{},{},{},{},{} in:0:0 ix:0 ix:0 p:0:{} ix:0 ix:0 ix:0 ix:0 ix:0 ix:0 ix:0 ix:0 id:0 k:0",
            v(1), v(2), v(3), v(4), v(5), v(6), v(7), v(8), v(9)
        ),
    ];
    if script::AVAILABLE {
        // the list grows through a script during the walk; a script-built list walked from Rust;
        // the script's own `for` over the same list while the Rust iterator is alive
        t.push(format!("f:0:{},{} in:0:0 ix:0 p:0:{}@s ix:0 ix:0 ix:0 id:0 v:0@s", v(1), v(2), v(10)));
        t.push(format!("f:0:{}@s in:0:0 p:0:{}@s ix:0 it:0@s ix:0 +:1:0:0@s ix:0 p:0:{} ix:0 id:0", v(1), v(2), v(3)));
        t.push(format!("n:0@s in:0:0 ix:0 p:0:{}@s ix:0 ix:0 d:0@s ix:0 id:0", v(7)));
    }
    t
}

/// fixed histories run first: growth boundaries, self-concatenation, aliasing,
/// equality of distinct / aliased / same handles
fn boundary_cases(etype: &'static str) -> Vec<Case> {
    let z = etype == "Tk0";
    let v = |x: u64| if z { 0 } else { x };
    let mut texts: Vec<String> = iterator_cases(etype);
    texts.extend(vec![
        // the pinned tree's defect: == between two distinct lists
        format!("f:0:{} f:1:{} =:0:1 =:1:0 =:0:0", v(1), v(1)),
        format!("f:0:{} f:1:{} =:0:1", v(1), v(2)),
        "n:0 n:1 =:0:1 c:2:0 =:0:2 =:2:1".into(),
        format!("f:0:{},{} c:1:0 +:2:0:1 +:0:2:2 =:0:2 p:1:{} =:0:1", v(1), v(2), v(3)),
        // self-concatenation while aliased
        format!("f:0:{},{} +:0:0:0 +:0:0:0 +:1:0:0 c:2:1 d:1 l:2", v(1), v(2)),
        // swap edges
        format!("f:0:{},{},{} s:0:0:2 s:0:2:2 s:0:0:3 s:0:3:0 s:0:18446744073709551615:0 v:0", v(1), v(2), v(3)),
        // get edges
        format!("f:0:{} g:0:0 g:0:1 g:0:18446744073709551615 n:1 g:1:0", v(7)),
        "n:0 e:0 k:0 l:0 it:0 v:0 +:1:0:0 e:1 k:1".into(),
    ]);
    // growth: push across every power of two up to 130 and watch the capacity
    let mut grow = String::from("n:0");
    for i in 0..130u64 {
        grow.push_str(&format!(" p:0:{}", v(i % 50)));
    }
    grow.push_str(" k:0 c:1:0 +:2:0:1 k:2 d:0 d:1 k:2");
    texts.push(grow);
    // from / concat sizes around the minimum capacities
    for n in [0u64, 1, 3, 4, 5, 7, 8, 9, 16, 17] {
        let xs: Vec<String> = (0..n).map(|i| v(i % 9).to_string()).collect();
        texts.push(format!("f:0:{} k:0 +:1:0:0 k:1 p:1:{} k:1 +:2:1:0 k:2", xs.join(","), v(1)));
    }
    if script::AVAILABLE {
        // scripts: literal, methods, operators, for — and the alternation with Rust
        texts.push(format!(
            "f:0:{},{}@s p:0:{} c:1:0@s +:2:0:1@s =:0:2@s =:2:0 s:2:0:4@s g:2:0@s g:2:9@s ?:2:{}@s i:2:{}@s l:2@s e:2@s k:2@s d:0@s d:1 v:2 d:2@s",
            v(1), v(2), v(3), v(3), v(3)
        ));
        if !z {
            texts.push(format!("f:0:{},{},{}@s it:0@s v:0@s it:0 d:0@s", v(1), v(2), v(3)));
        } else {
            // zero-sized tracked elements copied out by a script: `for` and `get` over lists
            // built by Rust and by the script (literal, `List.new` + push), then concatenated
            texts.push("f:0:0,0 it:0@s".into());
            texts.push("f:0:0,0@s it:0@s v:0@s g:0:0@s g:0:1@s g:0:2@s it:0 d:0@s".into());
            texts.push("n:0@s p:0:0@s p:0:0@s p:0:0 it:0@s c:1:0@s +:2:0:1@s it:2@s g:2:5@s d:0 it:1@s d:1@s it:2@s d:2".into());
            texts.push("f:0:0,0,0@s +:1:0:0 it:1@s +:2:1:0@s it:2@s v:2 g:2:8@s".into());
        }
    }
    // indices that are in range only after a truncating cast (the script-side
    // adapters take u64 and call the usize API; `ffi::list_get` likewise)
    for at in ["", "@s"] {
        texts.push(format!(
            "f:0:{},{},{}{at} g:0:256{at} g:0:65537{at} g:0:4294967296{at} g:0:4294967298{at} g:0:9223372036854775808{at} g:0:9223372036854775809{at} s:0:4294967296:1{at} s:0:2:4294967297{at} s:0:256:1{at} s:0:1:65538{at} s:0:9223372036854775808:2{at} s:0:18446744073709551614:1{at} v:0",
            v(1), v(2), v(3)
        ));
    }
    if !z {
        // results beyond 255 (a narrowing cast of a length / capacity / index on its way
        // back to the script): 260 equal elements, then the one that is looked for
        let many = vec![v(1).to_string(); 260].join(",");
        for at in ["", "@s"] {
            texts.push(format!(
                "f:0:{many} p:0:{}{at} l:0{at} k:0{at} e:0{at} i:0:{}{at} ?:0:{}{at} g:0:260{at} g:0:4{at} g:0:261{at} s:0:260:0{at} i:0:{}{at} g:0:0{at}",
                v(2), v(2), v(2), v(2)
            ));
        }
    }
    if !z {
        // element VALUES that matter to contains / index / == / get / to_vec / for:
        // for strings 0 = "", 1 = "s1", 2 = "s" (a prefix of 1), 5 = "S1", 6 = "s1 ", 3 / 7 multi-byte
        for at in ["", "@s"] {
            texts.push(format!(
                "f:0:0,1,2,5,6{at} ?:0:0{at} ?:0:2{at} ?:0:6{at} ?:0:3{at} ?:0:7{at} i:0:0{at} i:0:1{at} i:0:2{at} i:0:5{at} i:0:6{at} i:0:4{at} g:0:0{at} g:0:4{at} v:0{at} it:0{at}"
            ));
            texts.push(format!(
                "f:0:0{at} n:1{at} =:0:1{at} =:1:0{at} f:1:0{at} =:0:1{at} f:0:1{at} f:1:5{at} =:0:1{at} f:1:6{at} =:0:1{at} =:1:0{at} f:1:2{at} =:0:1{at} f:0:2,1{at} f:1:1,2{at} =:0:1{at} f:0:3,7,0{at} f:1:3,7,0{at} =:0:1{at} ?:0:7{at} i:1:0{at}"
            ));
            texts.push(format!("n:0{at} p:0:0{at} p:0:0{at} l:0{at} e:0{at} ?:0:0{at} i:0:0{at} ?:0:1{at} +:1:0:0{at} v:1{at} s:1:0:3{at} g:1:3{at}"));
        }
    }
    if script::AVAILABLE {
        // script loops with a body: the NAME the loop is written over is given another
        // handle while the loop runs (a variable, a parameter, a field path; another list,
        // a concatenation, a new list) — the loop goes on walking the vector it started
        // on; a push / swap through an alias of the walked list IS seen. Lists built by
        // Rust and by the script, rebinding in the first / a middle / the last iteration.
        // (one kind of body per history: a history is cut at its first failing step)
        for at in ["", "@s"] {
            let a = format!("f:0:{},{},{},{}{at} f:1:{},{},{},{},{},{}{at}", v(1), v(2), v(3), v(4), v(7), v(7), v(7), v(7), v(7), v(7));
            let b = format!("f:0:{},{},{}{at} f:1:{},{}{at}", v(1), v(2), v(3), v(8), v(9));
            // `l = o` in a middle / the first / the last iteration, the other way round, in no iteration
            texts.push(format!("{a} fb:0:1:r:1@s fb:0:0:r:1@s fb:0:3:r:1@s fb:1:2:r:0@s fb:0:9:r:1@s v:0 v:1"));
            // `l = l + o`, `l = l + l`
            texts.push(format!("{b} fb:0:0:c:1@s fb:0:1:c:0@s fb:1:1:c:0@s l:0 l:1"));
            // `l = []`
            texts.push(format!("{b} fb:0:0:n@s fb:0:2:n@s fb:1:1:n@s l:0 l:1"));
            // the iterable is a field path: `r.items = o`
            texts.push(format!("{b} fb:0:1:f:1@s fb:1:0:f:0@s fb:0:2:f:0@s l:0 l:1"));
            // push / swap through an alias of the walked list, through the walked list itself, through another list
            texts.push(format!(
                "f:0:{},{},{}{at} c:1:0 f:2:{}{at} fb:0:0:p:1:{}@s fb:0:1:p:0:{}@s fb:0:1:p:2:{}@s fb:0:0:s:1:0:2@s fb:1:1:s:0:0:9@s fb:2:0:r:2@s v:0 v:2",
                v(1), v(2), v(3), v(5), v(4), v(5), v(6)
            ));
            // the empty list, a singleton, rebinding to the empty list
            texts.push(format!("n:0{at} f:1:{}{at} fb:0:0:r:1@s fb:1:0:r:0@s fb:1:0:c:1@s fb:0:0:p:0:{}@s fb:0:0:r:1@s", v(1), v(2)));
        }
    }
    if etype == "f64" {
        // element `==` that is not the comparison of the bytes: 0.0 == -0.0 (other bits),
        // NaN != NaN (same bits) — for `==` of distinct lists in both directions, `contains`,
        // `index`; lists built by Rust (clone function present) and by a script (literal,
        // `List.new` + push, a concatenation: no clone function), as left and as right operand
        for at in ["", "@s"] {
            texts.push(format!("f:0:{F_Z}{at} f:1:{F_NZ}{at} =:0:1{at} =:1:0{at} ?:0:{F_NZ}{at} i:1:{F_Z}{at} g:1:0{at} g:0:0{at} v:1{at}"));
            texts.push(format!("f:0:{F_NAN}{at} f:1:{F_NAN}{at} =:0:1{at} =:1:0{at} ?:0:{F_NAN}{at} i:0:{F_NAN}{at} g:0:0{at} v:0{at} it:1{at}"));
            texts.push(format!(
                "f:0:{F_ONE5},{F_Z},{F_NAN2}{at} f:1:{F_ONE5},{F_NZ},{F_NAN2}{at} =:0:1{at} f:2:{F_ONE5},{F_NZ}{at} f:1:{F_ONE5},{F_Z}{at} =:1:2{at} =:2:1{at} i:2:{F_Z}{at} ?:2:{F_NAN}{at} ?:0:{F_NAN2}{at} i:0:{F_NAN2}{at} +:0:1:2{at} i:0:{F_NZ}{at}"
            ));
            texts.push(format!("n:0{at} p:0:{F_NZ}{at} n:1{at} p:1:{F_Z}{at} =:0:1{at} n:2{at} +:2:0:2{at} =:2:1{at} =:1:2{at} p:2:{F_NAN}{at} p:1:{F_NAN}{at} =:2:1{at}"));
        }
        // one side built by a script, the other by Rust, compared by both issuers
        texts.push(format!("f:0:{F_Z}@s f:1:{F_NZ} =:0:1@s =:1:0@s =:0:1 =:1:0 f:0:{F_NAN},{F_Z}@s f:1:{F_NAN},{F_Z} =:0:1@s =:1:0@s =:0:1 =:1:0"));
        texts.push(format!("f:0:{F_Z},{F_Z},{F_Z}@s f:1:{F_NZ},{F_Z},{F_NZ}@s =:0:1@s c:2:1@s =:2:0@s s:2:0:1@s =:0:2@s i:1:{F_Z}@s ?:0:{F_NZ}@s"));
        // the known deviation: a list holding a NaN compared with itself (same handle, an alias)
        for at in ["", "@s"] {
            texts.push(format!("f:0:{F_NAN}{at} c:1:0 =:0:1{at} =:0:0{at} f:2:{F_NAN}{at} =:0:2{at}"));
        }
    }
    if etype == "String" && script::AVAILABLE {
        // join: the empty list, singletons, empty strings leading / trailing / only /
        // interleaved / repeated, elements equal to or containing the separator,
        // multi-byte elements — each list built on the Rust side and by a script
        // (literal + push), joined with every separator of SEPS (one byte, empty,
        // two bytes, multi-byte, equal to an element, multi-byte + ASCII)
        let lists: [&[u64]; 17] = [
            &[], &[0], &[1], &[0, 1], &[1, 0], &[0, 0], &[0, 0, 0], &[1, 0, 2], &[0, 1, 0], &[1, 2],
            &[4, 4], &[0, 0, 1], &[1, 0, 0], &[3, 7], &[2, 1, 6], &[0, 4, 0, 4], &[9, 0, 10, 0, 0, 11],
        ];
        for l in lists {
            for at in ["", "@s"] {
                let mut t = format!("f:0:{}{at}", nats(l));
                for k in 0..SEPS.len() {
                    t.push_str(&format!(" j:0:{k}@s"));
                }
                texts.push(t);
            }
        }
        // join sees what the other handles did: push / swap / concat through an alias, then join
        texts.push("f:0:1,2@s c:1:0 p:1:0 j:0:0@s s:1:0:2 j:0:2@s +:2:0:1@s j:2:0@s j:2:1@s n:1@s j:1:0@s +:1:1:0 j:1:3@s".into());
    }
    texts
        .iter()
        .map(|t| Case::parse(etype, t).unwrap_or_else(|| panic!("bad boundary case {t}")))
        .collect()
}

// ---------------------------------------------------------------- the plan of a run

/// one exhaustive enumeration: every sequence of `len` letters of `alpha`
struct Block {
    etype: &'static str,
    alpha: Vec<Op>,
    /// per letter: handles that must be bound, handle that gets bound, handle that gets unbound
    uses: Vec<(Vec<usize>, Option<usize>, Option<usize>)>,
    len: usize,
    via_mode: u64,
    size: u64,
}

/// all cases of a run, numbered: boundary histories, exhaustive blocks, random histories
struct Space {
    boundary: Vec<Case>,
    blocks: Vec<Block>,
    random: u64,
    via_modes: Vec<u64>,
    exhaustive: Vec<(usize, usize)>,
    total: u64,
}

fn space(tier: &str) -> &'static Space {
    static SPACE: std::sync::OnceLock<Space> = std::sync::OnceLock::new();
    SPACE.get_or_init(|| {
        let script = script::AVAILABLE;
        let via_modes: Vec<u64> = if script { vec![0, 1, 2] } else { vec![0] };
        // (handles, length) enumerations, each over every element type
        let (exhaustive, random): (Vec<(usize, usize)>, u64) = if tier == "thorough" {
            (vec![(3, 1), (3, 2), (3, 3), (2, 4), (3, 4)], 150_000)
        } else if tier == "search" {
            (vec![(3, 1), (3, 2), (3, 3), (2, 4)], 4000)
        } else {
            (vec![(3, 1), (3, 2), (3, 3), (2, 4)], 3000)
        };
        let mut boundary = vec![];
        for et in ETYPES {
            boundary.extend(boundary_cases(et));
        }
        let mut blocks = vec![];
        for &(ns, len) in &exhaustive {
            for et in ETYPES {
                let alpha: Vec<Op> = if et == "String" {
                    string_alphabet(ns)
                } else {
                    alphabet(ns)
                        .into_iter()
                        .map(|o| match et {
                            "Tk0" => zero_values(o),
                            "f64" => f64_values(o),
                            _ => o,
                        })
                        .collect()
                };
                let size = (alpha.len() as u64).pow(len as u32);
                for &vm in &via_modes {
                    // script / alternating enumeration only for the shorter blocks
                    if vm != 0 && size > if tier == "thorough" { 50_000_000 } else { 600_000 } {
                        continue;
                    }
                    let uses = alpha
                        .iter()
                        .map(|o| {
                            let (need, binds) = o.uses();
                            let unbinds = match o {
                                Op::DropH(h) => Some(*h),
                                Op::ItDrop(k) => Some(NSLOTS + *k),
                                _ => None,
                            };
                            (need, binds, unbinds)
                        })
                        .collect();
                    blocks.push(Block { etype: et, alpha: alpha.clone(), uses, len, via_mode: vm, size });
                }
            }
        }
        let total = boundary.len() as u64 + blocks.iter().map(|b| b.size).sum::<u64>() + random;
        Space { boundary, blocks, random, via_modes, exhaustive, total }
    })
}

impl Block {
    /// sequence number `k` (mixed radix): None when it touches an unbound handle
    fn case(&self, mut k: u64) -> Option<Case> {
        let a = self.alpha.len() as u64;
        let mut bound = [false; NSLOTS + NITERS];
        let mut digits = [0usize; 8];
        for i in 0..self.len {
            let d = (k % a) as usize;
            k /= a;
            let (need, binds, unbinds) = &self.uses[d];
            if need.iter().any(|h| !bound[*h]) {
                return None;
            }
            if self.etype == "Tk0" && via_of(self.via_mode, i) == Via::Script && known_tk0_for(&self.alpha[d]) {
                return None;
            }
            // `join` exists on the script side only
            if matches!(self.alpha[d], Op::Join(..) | Op::ForDo(..)) && via_of(self.via_mode, i) != Via::Script {
                return None;
            }
            // … and a Rust-side iterator on the Rust side only
            if matches!(self.alpha[d], Op::ItNew(..) | Op::ItNext(_) | Op::ItDrop(_)) && via_of(self.via_mode, i) != Via::Rust {
                return None;
            }
            if let Some(h) = unbinds {
                bound[*h] = false;
            }
            if let Some(h) = binds {
                bound[*h] = true;
            }
            digits[i] = d;
        }
        let ops = (0..self.len)
            .map(|i| {
                (self.alpha[digits[i]].clone(), via_of(self.via_mode, i))
            })
            .collect();
        let c = Case { etype: self.etype, ops };
        // one model run has either lowered script loops or live iterators
        if c.has_loops() && c.has_iters() {
            return None;
        }
        Some(c)
    }
}

fn via_of(mode: u64, i: usize) -> Via {
    match mode {
        0 => Via::Rust,
        1 => Via::Script,
        _ => {
            if i % 2 == 0 {
                Via::Rust
            } else {
                Via::Script
            }
        }
    }
}

/// Formerly excluded (known finding C15-zst-for-tokens, repaired in the tree by
/// `fix: a zero-sized registered type among the parameters …`: registered types
/// are reference types whatever their size, so a script clone of a zero-sized
/// value calls its clone function): a script `for` over a list of zero-sized
/// tracked elements. Nothing is left out any more — the token balance of
/// `for` / `get` over script-built and Rust-built `List[Tk0]` is checked like
/// every other combination.
fn known_tk0_for(_op: &Op) -> bool {
    false
}

/// `None`: past the end; `Some(None)`: an index whose sequence is not expressible
fn case_at(seed: u64, tier: &str, mut idx: u64) -> Option<Option<Case>> {
    let sp = space(tier);
    if idx < sp.boundary.len() as u64 {
        return Some(Some(sp.boundary[idx as usize].clone()));
    }
    idx -= sp.boundary.len() as u64;
    for b in &sp.blocks {
        if idx < b.size {
            return Some(b.case(idx));
        }
        idx -= b.size;
    }
    if idx < sp.random {
        let et = ETYPES[(idx % ETYPES.len() as u64) as usize];
        let vm = sp.via_modes[((idx / ETYPES.len() as u64) % sp.via_modes.len() as u64) as usize];
        return Some(Some(random_case(et, seed, idx, vm)));
    }
    None
}

fn total_cases(tier: &str) -> u64 {
    space(tier).total
}

// ---------------------------------------------------------------- workers

struct Runner {
    f_u8: Option<script::Funcs<u8>>,
    f_u64: Option<script::Funcs<u64>>,
    f_str: Option<script::Funcs<RotoString>>,
    f_tk0: Option<script::Funcs<Val<Tk0>>>,
    f_tk24: Option<script::Funcs<Val<Tk24>>>,
    f_list: Option<script::Funcs<List<u64>>>,
    f_f64: Option<script::Funcs<f64>>,
}

impl Runner {
    fn new() -> Self {
        Runner { f_u8: None, f_u64: None, f_str: None, f_tk0: None, f_tk24: None, f_list: None, f_f64: None }
    }
    fn run(&mut self, idx: u64, case: &Case, rep: &mut Report) -> (usize, Vec<Rec>, bool) {
        let needs_script = case.ops.iter().any(|(_, v)| *v == Via::Script);
        macro_rules! go {
            ($t:ty, $f:expr) => {{
                if needs_script && $f.is_none() {
                    *$f = Some(script::compile::<$t>());
                }
                let (recs, failed) = run_case_shrunk::<$t>(idx, case, $f, rep);
                (<$t as Elem>::size(), recs, failed)
            }};
        }
        match case.etype {
            "u8" => go!(u8, &mut self.f_u8),
            "u64" => go!(u64, &mut self.f_u64),
            "String" => go!(RotoString, &mut self.f_str),
            "Tk0" => go!(Val<Tk0>, &mut self.f_tk0),
            "Tk24" => go!(Val<Tk24>, &mut self.f_tk24),
            "List" => go!(List<u64>, &mut self.f_list),
            "f64" => go!(f64, &mut self.f_f64),
            other => panic!("element type {other}"),
        }
    }
}

fn class_of(case: &Case, recs: &[Rec], rep: &mut Report) {
    // a class: (element type, operation, who issued it, result shape, aliasing of the
    // handles involved, whether the capacity of some handle changed)
    let mut prev: Option<&Rec> = None;
    for ((op, via), r) in case.ops.iter().zip(recs) {
        let grew = match prev {
            Some(p) => p
                .slots
                .iter()
                .zip(&r.slots)
                .any(|(a, b)| matches!((a, b), (Some(x), Some(y)) if x.1 != y.1)),
            None => false,
        };
        let out = match r.out.as_bytes().first() {
            Some(b'o') if r.out == "o-" => "none",
            Some(b'o') => "some",
            Some(b'b') => {
                if r.out == "b1" { "true" } else { "false" }
            }
            Some(b'v') if r.out == "v" => "empty",
            Some(b'v') => "vals",
            Some(b't') if r.out == "t" => "nostr",
            Some(b't') => "str",
            _ => "-",
        };
        // join: which separator, and where the list has empty strings
        let joined = match op {
            Op::Join(h, k) => {
                let xs: &[u64] = r.slots[*h].as_ref().map(|s| &s.2[..]).unwrap_or(&[]);
                let e = |v: &u64| elem_string(*v).is_empty();
                let shape = if xs.is_empty() {
                    "nil"
                } else if xs.iter().all(e) {
                    "only-empty"
                } else if e(&xs[0]) {
                    "leading-empty"
                } else if e(&xs[xs.len() - 1]) {
                    "trailing-empty"
                } else if xs.iter().any(e) {
                    "inner-empty"
                } else {
                    "no-empty"
                };
                format!("/sep{k}/{shape}")
            }
            _ => String::new(),
        };
        let bound = r.slots.iter().filter(|s| s.is_some()).count();
        let lenb = match op.uses().0.first().and_then(|h| r.slots.get(*h)).and_then(|s| s.as_ref()) {
            Some((l, _, _)) => match *l {
                0 => "0",
                1..=4 => "1-4",
                5..=8 => "5-8",
                9..=64 => "9-64",
                _ => ">64",
            },
            None => "-",
        };
        let v = if *via == Via::Script { "s" } else { "r" };
        rep.class(format!("{}/{}/{v}/{out}/len{lenb}/b{bound}/{}{joined}", case.etype, op.kind(), if grew { "grow" } else { "same" }));
        if !joined.is_empty() {
            rep.hist("join", &joined[1..]);
        }
        rep.hist("op", op.kind());
        prev = Some(r);
    }
    rep.hist("etype", case.etype);
    rep.hist(
        "via",
        match (case.ops.iter().any(|o| o.1 == Via::Rust), case.ops.iter().any(|o| o.1 == Via::Script)) {
            (true, true) => "alternating",
            (false, true) => "script",
            _ => "rust",
        },
    );
    rep.hist(
        "length",
        match case.ops.len() {
            0..=4 => "1-4",
            5..=20 => "5-20",
            21..=100 => "21-100",
            _ => "101-200",
        },
    );
}

/// `worker cases <seed> <tier> <from> <n>`
fn worker_cases(seed: u64, tier: &str, from: u64, n: u64) {
    start_watchdog();
    let mut rep = Report::default();
    let mut runner = Runner::new();
    let mut pending: Vec<Pending> = vec![];
    REPORT_KNOWN_BELOW.store(space(tier).boundary.len() as u64, Ordering::SeqCst);
    for idx in from..from + n {
        let Some(c) = case_at(seed, tier, idx) else { break };
        let Some(case) = c else { continue };
        println!("START {idx}");
        let _ = std::io::stdout().flush();
        let (size, recs, failed) = runner.run(idx, &case, &mut rep);
        rep.evaluations += 1;
        class_of(&case, &recs, &mut rep);
        if failed {
            // the property already fails on the real code here; the model
            // (which satisfies it) necessarily differs — reported once
            continue;
        }
        if idx % 9973 == 0 {
            rep.sample(json!({"case": case.json(), "last": format!("{:?}", recs.last())}));
        }
        pending.push(Pending::new(case, recs, size));
    }
    compare_with_model(&mut pending, &mut rep);
    rep.emit();
}

/// a finished case waiting for the model's answer: the request and, for a
/// history with script loops, how many records each operation has in it
struct Pending(Case, Vec<Rec>, String, Option<Vec<usize>>);

impl Pending {
    fn new(case: Case, recs: Vec<Rec>, size: usize) -> Pending {
        if case.has_loops() {
            let (line, plan) = case.lean_marked(size);
            Pending(case, recs, line, Some(plan))
        } else {
            let line = case.lean(size);
            Pending(case, recs, line, None)
        }
    }
}

fn compare_with_model(pending: &mut Vec<Pending>, rep: &mut Report) {
    if pending.is_empty() {
        return;
    }
    let mut drv = Driver::spawn().expect("spawn rotov-driver");
    // short histories are pipelined in small chunks; a long one has a long
    // answer (every step dumps every handle), so it is asked on its own —
    // otherwise both ends block on full pipes
    let mut answers: Vec<String> = Vec::with_capacity(pending.len());
    let mut chunk: Vec<String> = vec![];
    for p in pending.iter() {
        if p.0.ops.len() <= 6 {
            chunk.push(p.2.clone());
            if chunk.len() == 24 {
                answers.extend(drv.ask_all(&chunk));
                chunk.clear();
            }
        } else {
            answers.extend(drv.ask_all(&chunk));
            chunk.clear();
            answers.push(drv.ask(&p.2));
        }
    }
    answers.extend(drv.ask_all(&chunk));
    for (Pending(case, recs, _, plan), ans) in pending.iter().zip(answers) {
        let model: Option<Vec<Rec>> = match plan {
            Some(plan) => case.read_marked(plan, &ans),
            None => ans.split('|').map(parse_rec).collect(),
        };
        let Some(model) = model else {
            rep.mismatch(&format!("driver answer unreadable: {}", &ans[..ans.len().min(200)]), case.json());
            continue;
        };
        if model.len() != recs.len() {
            rep.mismatch("driver answered a different number of steps", case.json());
            continue;
        }
        for (k, (g, m)) in recs.iter().zip(&model).enumerate() {
            if let Some(what) = model_disagree(g, m) {
                rep.mismatch(
                    &format!("step {k} `{}` ({}): {what}", case.ops[k].0.text(case.ops[k].1), case.etype),
                    json!({"case": case.json(), "step": k}),
                );
                break;
            }
        }
    }
}

/// the strings the element values of a `List[String]` stand for are the same
/// here (`elem_string`) and in the Lean model (`elemStr`), and distinct
fn strings_tie(rep: &mut Report) {
    let mut drv = Driver::spawn().expect("spawn rotov-driver");
    let mut vals: Vec<u64> = (0..64).collect();
    vals.extend([99, 100, 255, 256, 1000, 65535, 4294967296, u64::MAX]);
    let mut seen = std::collections::HashMap::new();
    for v in vals {
        rep.evaluations += 1;
        let here = show_str(&elem_string(v));
        let there = drv.ask(&format!("c15 str {v}"));
        if here != there {
            rep.mismatch(&format!("element value {v} stands for {here} here and for {there} in the model"), json!({"value": v}));
        }
        if let Some(w) = seen.insert(here.clone(), v) {
            rep.mismatch(&format!("element values {w} and {v} stand for the same string {here}"), json!({"value": v}));
        }
        if <RotoString as Elem>::make(v).val() != v {
            rep.mismatch(&format!("element value {v} does not read back"), json!({"value": v}));
        }
    }
}

/// `==` on the `f64` values the histories use is the same relation here (Rust's
/// `f64 == f64`) and in the Lean model (`elemEq` on `2^64 + bits`), for every pair
fn floats_tie(rep: &mut Report) {
    let mut drv = Driver::spawn().expect("spawn rotov-driver");
    let mut vals: Vec<u64> = F64_VALS.to_vec();
    vals.extend([0x7FF0_0000_0000_0001, 0x7FEF_FFFF_FFFF_FFFF, 0xFFFF_FFFF_FFFF_FFFF, 0x7FFF_FFFF_FFFF_FFFF, 0x000F_FFFF_FFFF_FFFF, 0x0010_0000_0000_0000]);
    let mut asks = vec![];
    for a in &vals {
        for b in &vals {
            asks.push((*a, *b, format!("c15 feq {a} {b}")));
        }
    }
    let lines: Vec<String> = asks.iter().map(|x| x.2.clone()).collect();
    let mut answers = vec![];
    for ch in lines.chunks(24) {
        answers.extend(drv.ask_all(&ch.to_vec()));
    }
    for ((a, b, _), there) in asks.iter().zip(answers) {
        rep.evaluations += 1;
        let here = format!("b{}", <f64 as Elem>::same(*a, *b) as u8);
        if here != there {
            rep.mismatch(
                &format!("f64 bits {a:#x} == {b:#x}: {here} here, {there} in the model"),
                json!({"a": a, "b": b}),
            );
        }
    }
}

/// `worker one <etype> <ops…>`: a single given case
fn worker_one(etype: &str, ops: &str) {
    start_watchdog();
    let mut rep = Report::default();
    let Some(case) = Case::parse(etype, ops) else {
        println!("BAD-CASE");
        std::process::exit(2);
    };
    if !case.valid() {
        println!("BAD-CASE not expressible");
        std::process::exit(2);
    }
    println!("START 0");
    let _ = std::io::stdout().flush();
    let mut runner = Runner::new();
    let (size, recs, failed) = runner.run(0, &case, &mut rep);
    rep.evaluations += 1;
    let mut pending = if failed { vec![] } else { vec![Pending::new(case, recs, size)] };
    compare_with_model(&mut pending, &mut rep);
    rep.emit();
}

// ---------------------------------------------------------------- nested lists with mutable inner lists

/// `worker nested`: fixed scenarios in which the elements of a `List<List<u64>>`
/// are themselves shared, growing lists (outside the flat model: checked
/// against values written out here). Includes the typed `==` / `contains` of
/// distinct inner lists — the pinned tree's defect, one level down.
fn worker_nested() {
    start_watchdog();
    let mut rep = Report::default();
    println!("START 0");
    let _ = std::io::stdout().flush();
    OP_STARTED_MS.store(now_ms(), Ordering::SeqCst);
    let mut check = |name: &str, ok: bool, detail: String| {
        rep.evaluations += 1;
        rep.class(format!("nested/{name}"));
        if !ok {
            rep.violation(
                &format!("nested lists: {name}: {detail}"),
                &format!("nested:{name}"),
                json!({"scenario": name}),
            );
        }
    };
    let vv = |o: &List<List<u64>>| -> Vec<Vec<u64>> { o.to_vec().iter().map(|l| l.to_vec()).collect() };
    {
        let inner = List::<u64>::from(vec![1, 2]);
        let outer = List::<List<u64>>::new();
        outer.push(inner.clone());
        inner.push(3);
        check("element-aliases-pushed-list", vv(&outer) == vec![vec![1, 2, 3]], format!("{:?}", vv(&outer)));
        let other = List::<u64>::from(vec![1, 2, 3]);
        check("contains-by-contents", outer.contains(&other), "contains(&[1,2,3]) = false".into());
        check("index-by-contents", outer.index(&other) == Some(0), format!("{:?}", outer.index(&other)));
        check("contains-miss", !outer.contains(&List::from(vec![1, 2])), "contains(&[1,2]) = true".into());
        let outer2 = outer.concat(&outer);
        outer2.get(1).expect("second element").push(4);
        check("concat-shares-inner", inner.to_vec() == vec![1, 2, 3, 4] && vv(&outer2) == vec![vec![1, 2, 3, 4]; 2],
            format!("{:?} {:?}", inner.to_vec(), vv(&outer2)));
        check("eq-different-length", outer != outer2, "[x] == [x, x]".into());
        let o3 = List::<List<u64>>::from(vec![List::from(vec![1, 2, 3, 4])]);
        check("eq-by-contents-recursive", outer == o3 && o3 == outer, "[[1,2,3,4]] != [[1,2,3,4]]".into());
        o3.get(0).expect("element").push(5);
        check("eq-after-inner-push", outer != o3, "still equal after an inner push".into());
        outer.swap(0, 0);
        outer2.swap(0, 1);
        check("swap-keeps-sharing", vv(&outer2) == vec![vec![1, 2, 3, 4]; 2], format!("{:?}", vv(&outer2)));
        drop(outer);
        drop(outer2);
        check("inner-survives-outer", inner.to_vec() == vec![1, 2, 3, 4] && inner.len() == 4, format!("{:?}", inner.to_vec()));
    }
    OP_STARTED_MS.store(0, Ordering::SeqCst);
    if script::AVAILABLE {
        // (the time limit is re-armed inside, after the script has been compiled)
        let r = script::nested_probe();
        for (name, ok, detail) in r {
            check(name, ok, detail);
        }
    }
    OP_STARTED_MS.store(0, Ordering::SeqCst);
    rep.emit();
}

fn nested_text(o: &nested::NOp, script: bool) -> String {
    nested::op_text(o, script)
}

// ---------------------------------------------------------------- parent

fn hang_violation(rep: &mut Report, case: &Case, op_index: Option<usize>, ended: &Ended) {
    let (what, key) = match (ended, op_index) {
        (Ended::Exit(3, _), Some(k)) | (Ended::Timeout, Some(k)) => {
            let (op, via) = &case.ops[k.min(case.ops.len() - 1)];
            let via_s = if *via == Via::Script { "script" } else { "rust" };
            (
                format!(
                    "step {k} `{}` of a {} list did not finish within {OP_LIMIT_MS} ms",
                    op.text(*via),
                    case.etype
                ),
                format!("hang:{}:{via_s}", op.kind()),
            )
        }
        (Ended::Signal(s, _), _) => (format!("the process was killed by signal {s}"), format!("crash:signal{s}")),
        (e, _) => (format!("the worker ended abnormally: {e:?}"), "crash:abnormal".to_string()),
    };
    rep.violation(&what, &key, json!({"case": case.json(), "step": op_index}));
}

fn run_range(seed: u64, tier: &str, from: u64, to: u64, batch: u64, rep: &mut Report) {
    let mut from = from;
    let (s, t) = (seed.to_string(), tier.to_string());
    while from < to {
        let n = batch.min(to - from);
        let (f, c) = (from.to_string(), n.to_string());
        let (ended, out) =
            run_worker_keep_stdout(&["cases", &s, &t, &f, &c], Duration::from_secs(1500));
        if matches!(ended, Ended::Exit(0, _)) {
            if let Some(v) = Report::parse_stdout(&out) {
                rep.merge_json(&v);
            } else {
                rep.mismatch("worker printed no report", json!({"from": from, "n": n}));
            }
            from += n;
            continue;
        }
        // the worker died: which case, which step
        let last = out
            .lines()
            .rev()
            .find_map(|l| l.strip_prefix("START "))
            .and_then(|s| s.trim().parse::<u64>().ok())
            .unwrap_or(from);
        let op_index = out
            .lines()
            .rev()
            .find_map(|l| l.strip_prefix("HANG "))
            .and_then(|s| s.split_whitespace().nth(1)?.parse::<usize>().ok());
        if let Some(Some(case)) = case_at(seed, tier, last) {
            hang_violation(rep, &case, op_index, &ended);
        } else {
            rep.violation("worker died outside a case", "crash:abnormal", json!({"index": last}));
        }
        // redo what came before it in this batch, then go on after it
        if last > from {
            run_range(seed, tier, from, last, batch, rep);
        }
        from = last + 1;
        if rep.impl_violations.len() >= 3 {
            rep.notes.push("a range stopped early after 3 violations (each hang costs the time limit)".into());
            return;
        }
    }
}

fn main() {
    let args: Vec<String> = std::env::args().collect();
    match args.get(1).map(|s| s.as_str()) {
        Some("worker") => match args.get(2).map(|s| s.as_str()) {
            Some("cases") => worker_cases(
                args[3].parse().unwrap(),
                &args[4],
                args[5].parse().unwrap(),
                args[6].parse().unwrap(),
            ),
            Some("one") => worker_one(&args[3], &args[4]),
            Some("nested") => worker_nested(),
            Some("nestedrand") => nested::worker(
                args[3].parse().unwrap(),
                args[4].parse().unwrap(),
                args[5].parse().unwrap(),
                None,
            ),
            Some("nestedone") => nested::worker(0, 0, 1, Some(&args[3])),
            _ => std::process::exit(64),
        },
        Some("run") => {
            let seed: u64 = args.get(2).and_then(|s| s.parse().ok()).unwrap_or(1);
            let tier = args.get(3).cloned().unwrap_or_else(|| "quick".into());
            let total = total_cases(&tier);
            // up to 4 ranges in parallel, each in crash-isolated batches
            let par = 4u64;
            let chunk = total.div_ceil(par);
            let mut handles = vec![];
            for p in 0..par {
                let (tier, lo, hi) = (tier.clone(), p * chunk, ((p + 1) * chunk).min(total));
                handles.push(std::thread::spawn(move || {
                    let mut rep = Report::default();
                    run_range(seed, &tier, lo, hi, 60_000, &mut rep);
                    rep
                }));
            }
            let mut main_rep = Report::default();
            strings_tie(&mut main_rep);
            floats_tie(&mut main_rep);
            // the nested-list runs report into a report of their own, merged AFTER the flat
            // histories: the report keeps 200 violations, and one nested key repeated 199 times
            // must not crowd out the (shorter, flat) failing inputs of the same defect
            let mut rep = Report::default();
            {
                let (ended, out) = run_worker_keep_stdout(&["nested"], Duration::from_secs(120));
                if let Some(v) = Report::parse_stdout(&out) {
                    rep.merge_json(&v);
                }
                if !matches!(ended, Ended::Exit(0, _)) {
                    rep.violation(
                        &format!("nested-list scenarios did not finish: {ended:?}"),
                        "nested:hang-or-crash",
                        json!({"scenario": "all"}),
                    );
                }
            }
            // random histories over nested lists with mutable shared inner lists
            {
                let total_n: u64 = match tier.as_str() {
                    "thorough" => 100_000,
                    "search" => 10_000,
                    _ => 5000,
                };
                let mut from = 0u64;
                let mut crashes = 0;
                while from < total_n && crashes < 3 {
                    let n = 2000.min(total_n - from);
                    let (ended, out) = run_worker_keep_stdout(
                        &["nestedrand", &seed.to_string(), &from.to_string(), &n.to_string()],
                        Duration::from_secs(900),
                    );
                    if matches!(ended, Ended::Exit(0, _)) {
                        if let Some(v) = Report::parse_stdout(&out) {
                            rep.merge_json(&v);
                        }
                        from += n;
                        continue;
                    }
                    crashes += 1;
                    let last = out
                        .lines()
                        .rev()
                        .find_map(|l| l.strip_prefix("START "))
                        .and_then(|s| s.trim().parse::<u64>().ok())
                        .unwrap_or(from);
                    let text: Vec<String> = nested::random_case(seed, last).iter().map(|(o, s)| nested_text(o, *s)).collect();
                    rep.violation(
                        &format!("a nested-list history did not finish: {ended:?}"),
                        "nestedrand:hang-or-crash",
                        json!({"nested_ops": text.join(" "), "index": last}),
                    );
                    from = last + 1;
                }
            }
            let nested_rep = std::mem::replace(&mut rep, main_rep);
            for h in handles {
                let r = h.join().expect("range thread");
                let v = json!({
                    "evaluations": r.evaluations, "classes": r.classes,
                    "impl_violations": r.impl_violations, "model_mismatches": r.model_mismatches,
                    "samples": r.samples, "histograms": r.histograms, "notes": r.notes,
                });
                rep.merge_json(&v);
            }
            {
                // at most 5 instances per key from the nested runs
                let mut seen: std::collections::HashMap<String, usize> = std::collections::HashMap::new();
                let kept: Vec<serde_json::Value> = nested_rep
                    .impl_violations
                    .iter()
                    .filter(|v| {
                        let n = seen.entry(v["key"].as_str().unwrap_or("?").to_string()).or_insert(0);
                        *n += 1;
                        *n <= 5
                    })
                    .cloned()
                    .collect();
                let v = json!({
                    "evaluations": nested_rep.evaluations, "classes": nested_rep.classes,
                    "impl_violations": kept, "model_mismatches": nested_rep.model_mismatches,
                    "samples": nested_rep.samples, "histograms": nested_rep.histograms, "notes": nested_rep.notes,
                });
                rep.merge_json(&v);
            }
            rep.notes.push(format!(
                "case indices 0..{total}: boundary histories, exhaustive blocks {:?} (handles, length) over {} element types, {} random histories of length <= 200; script backend: {}",
                space(&tier).exhaustive,
                ETYPES.len(),
                space(&tier).random,
                script::AVAILABLE
            ));
            rep.emit();
        }
        Some("zstprobe") => script::zst_probe(),
        Some("replay") => {
            let v: serde_json::Value = serde_json::from_str(&args[2]).expect("json");
            let c = v.get("case").unwrap_or(&v);
            if let Some(ops) = c.get("nested_ops").and_then(|o| o.as_str()) {
                let mut rep = Report::default();
                let (ended, out) = run_worker_keep_stdout(&["nestedone", ops], Duration::from_secs(120));
                if let Some(v) = Report::parse_stdout(&out) {
                    rep.merge_json(&v);
                }
                if !matches!(ended, Ended::Exit(0, _)) {
                    rep.violation(
                        &format!("the nested-list history did not finish: {ended:?}"),
                        "nestedrand:hang-or-crash",
                        json!({"nested_ops": ops}),
                    );
                }
                rep.emit();
                return;
            }
            if c.get("scenario").is_some() {
                // a nested-list scenario: run them all again, crash-isolated
                let mut rep = Report::default();
                let (ended, out) = run_worker_keep_stdout(&["nested"], Duration::from_secs(120));
                if let Some(v) = Report::parse_stdout(&out) {
                    rep.merge_json(&v);
                }
                if !matches!(ended, Ended::Exit(0, _)) {
                    rep.violation(
                        &format!("nested-list scenarios did not finish: {ended:?}"),
                        "nested:hang-or-crash",
                        json!({"scenario": "all"}),
                    );
                }
                rep.emit();
                return;
            }
            let etype = c["etype"].as_str().expect("etype").to_string();
            let ops = c["ops"].as_str().expect("ops").to_string();
            let mut rep = Report::default();
            let (ended, out) =
                run_worker_keep_stdout(&["one", &etype, &ops], Duration::from_secs(120));
            if let Some(v) = Report::parse_stdout(&out) {
                rep.merge_json(&v);
            }
            if !matches!(ended, Ended::Exit(0, _)) {
                let op_index = out
                    .lines()
                    .rev()
                    .find_map(|l| l.strip_prefix("HANG "))
                    .and_then(|s| s.split_whitespace().nth(1)?.parse::<usize>().ok());
                match Case::parse(&etype, &ops) {
                    Some(case) => hang_violation(&mut rep, &case, op_index, &ended),
                    None => rep.violation("unreadable case", "crash:abnormal", v.clone()),
                }
            }
            rep.emit();
        }
        _ => {
            eprintln!("usage: c15 run <seed> <quick|thorough> | replay <json> | worker …");
            std::process::exit(64);
        }
    }
}
