//! C08 correspondence: the ordered log of host calls made by one
//! `TypedFunc::call` of the real compiled script against the trace of the Lean
//! order specification `RotoV.TraceSpec` (the documented evaluation order).
//!
//! usage: c08 run <seed> <quick|thorough>
//!        c08 replay <json>          — {"src","sexp","ret","args":[a,b,c]} or {"seed","index"}
//!        c08 show <seed> <index>    — print program `index` of run `seed`
//!        c08 exec <ret> '<source>' a b c  — run a hand-written script once, print the log
//!
//! Per program and argument tuple: the Lean spec yields `(result, trace)`; the
//! real code must produce the same ordered log (function id and argument
//! values of every host call) and the same result. A difference is a
//! violation of the property on the real code; it is minimised and reported
//! with the source, the arguments and both traces.
//!
//! IR-level tie: for every function of every program the structured lowering
//! model (`RotoV.LowerS`, laid out as a CFG by the driver, `c08 mir`) is compared
//! with the real post-DCE MIR (hook `verif_hooks::c08::dump`), instruction by
//! instruction; a difference is a model mismatch (the tie is broken).
//!
//!        c08 mir '<source>'         — print the real MIR text of a script

#[path = "../c08/ast.rs"]
mod ast;
#[path = "../c08/generator.rs"]
mod generator;
#[path = "../c08/host.rs"]
mod host;

use ast::*;
use roto::{FileTree, Package, RotoString, Verdict};
use rotov_harness::driver::Driver;
use rotov_harness::worker::{Ended, run_worker, run_worker_keep_stdout};
use rotov_harness::{Prng, Report};
use serde_json::{Value, json};
use std::collections::BTreeSet;
use std::io::Write as _;
use std::panic::{AssertUnwindSafe, catch_unwind};
use std::time::Duration;

const FUEL: u64 = 4000;

type Args = (i32, i32, bool);

fn compile(src: &str) -> Result<Package<roto::NoCtx>, String> {
    let rt = host::runtime();
    FileTree::test_file("c08.roto", src, 0).compile(&rt).map_err(|e| format!("{e}"))
}

fn compile_guarded(src: &str) -> Result<Result<Package<roto::NoCtx>, String>, String> {
    catch_unwind(AssertUnwindSafe(|| compile(src))).map_err(|e| {
        if let Some(s) = e.downcast_ref::<String>() {
            s.clone()
        } else if let Some(s) = e.downcast_ref::<&str>() {
            s.to_string()
        } else {
            "panic".to_string()
        }
    })
}

/// One call of `main`: the canonical answer line `ok <val> ; ev ev …`
/// (the same format `lean/Driver/C08.lean` prints).
fn call_once(pkg: &mut Package<roto::NoCtx>, ret: T, a: Args) -> Result<String, String> {
    macro_rules! go {
        ($r:ty, $show:expr) => {{
            let f = pkg.get_function::<fn(i32, i32, bool) -> $r>("main").map_err(|e| format!("{e}"))?;
            let _ = host::take_log();
            let out = f.call(a.0, a.1, a.2);
            let log = host::take_log();
            let show: fn($r) -> String = $show;
            let mut s = format!("ok {} ;", show(out));
            for e in log {
                s.push(' ');
                s.push_str(&e);
            }
            s
        }};
    }
    Ok(match ret {
        T::I => go!(i32, |v| v.to_string()),
        T::B => go!(bool, |v| v.to_string()),
        T::U => go!((), |_| "u".to_string()),
        T::S => go!(RotoString, |v| format!("s{}", host::hex(&v.to_string()))),
        T::O => go!(Option<i32>, |v| match v {
            None => "none".to_string(),
            Some(x) => format!("some:{x}"),
        }),
        T::V => go!(Verdict<i32, i32>, |v| match v {
            Verdict::Accept(x) => format!("acc:{x}"),
            Verdict::Reject(x) => format!("rej:{x}"),
        }),
        other => return Err(format!("main cannot return {}", other.name())),
    })
}

/// every third generated program stays inside the fragment of the structured lowering model
fn is_frag(idx: u64) -> bool {
    idx % 3 == 1
}

// ------------------------------------------------- IR-level tie: LowerS vs the real MIR

#[derive(Clone, Debug, PartialEq)]
enum Raw {
    Assign(String),
    Ret(String),
    Jump(usize),
    Switch(String, Vec<(usize, usize)>, Option<usize>),
    Other(String),
}

/// The real MIR of every function (post-DCE) as raw blocks, by name; `drop`s and `x: () = ()` are left out.
fn real_raw(src: &str) -> Result<Vec<(String, usize, Vec<Vec<Raw>>)>, String> {
    use roto::verif_hooks::c08::Ins;
    let rt: &'static roto::Runtime<roto::NoCtx> = Box::leak(Box::new(host::runtime()));
    let fns = roto::verif_hooks::c08::dump(FileTree::test_file("c08.roto", src, 0), rt).map_err(|e| format!("{e}"))?;
    Ok(fns
        .iter()
        .map(|f| {
            let blocks = f
                .blocks
                .iter()
                .map(|b| {
                    b.iter()
                        .filter_map(|i| match i {
                            Ins::Assign { unit_const: true, .. } | Ins::Drop { .. } => None,
                            // the model has one operand form for every operator `desugared_binop` turns into a runtime
                            // call (`append` for strings, `concat` for lists): the function's name is not compared there
                            Ins::Assign { to, value, .. } if value.starts_with("callrt concat ") => Some(Raw::Assign(format!("{to} = callrt append {}", value["callrt concat ".len()..].trim_end()))),
                            Ins::Assign { to, value, .. } => Some(Raw::Assign(format!("{to} = {}", value.trim_end()))),
                            Ins::SetDiscriminant { to, variant } => Some(Raw::Other(format!("setdisc {to} {variant}"))),
                            Ins::Return { var } => Some(Raw::Ret(var.clone())),
                            Ins::Jump { to } => Some(Raw::Jump(*to)),
                            Ins::Switch { examinee, branches, default } => Some(Raw::Switch(examinee.clone(), branches.clone(), *default)),
                        })
                        .collect()
                })
                .collect();
            (f.name.rsplit('.').next().unwrap_or("").to_string(), f.tmp_idx, blocks)
        })
        .collect())
}

/// The model's answer to `c08 mir`: `ok <tmp_idx> | block | block …`.
fn model_raw(ans: &str) -> Result<(usize, Vec<Vec<Raw>>), String> {
    let mut parts = ans.split(" | ");
    let head = parts.next().unwrap_or("");
    let tmp_idx: usize = head.strip_prefix("ok ").and_then(|s| s.trim().parse().ok()).ok_or(format!("bad head: {head}"))?;
    let mut blocks = vec![];
    for b in parts {
        let mut ins = vec![];
        for i in b.split(';').map(|s| s.trim()).filter(|s| !s.is_empty()) {
            let w: Vec<&str> = i.split(' ').collect();
            ins.push(match w[0] {
                "a" => {
                    let text = w[1..].join(" ");
                    if text.ends_with("= const unit") {
                        continue;
                    }
                    Raw::Assign(text.trim_end().to_string())
                }
                "d" => Raw::Other(format!("setdisc {} {}", w[1], w[2])),
                "r" => Raw::Ret(w[1].to_string()),
                "j" => Raw::Jump(w[1].parse().map_err(|_| "jump")?),
                "s" => Raw::Switch(w[1].to_string(), vec![(w[2].parse().map_err(|_| "switch")?, w[3].parse().map_err(|_| "switch")?)], Some(w[4].parse().map_err(|_| "switch")?)),
                // m <var> <default|-> k:l k:l …   (the n-way switch of a match)
                "m" => {
                    let d = if w[2] == "-" { None } else { Some(w[2].parse().map_err(|_| "match default")?) };
                    let mut br = vec![];
                    for p in &w[3..] {
                        let (k, l) = p.split_once(':').ok_or("match branch")?;
                        br.push((k.parse().map_err(|_| "match branch")?, l.parse().map_err(|_| "match branch")?));
                    }
                    Raw::Switch(w[1].to_string(), br, d)
                }
                _ => return Err(format!("instruction not understood: {i}")),
            });
        }
        blocks.push(ins);
    }
    Ok((tmp_idx, blocks))
}

/// Canonical text of a CFG: blocks in depth-first order from the entry (switch branches in
/// order, then the default), renumbered by first visit; each block cut after its first
/// terminator. Equal CFGs up to label names / block order / unreachable code give equal text.
fn canon_cfg(blocks: &[Vec<Raw>]) -> String {
    let mut order: Vec<usize> = vec![];
    let mut id = std::collections::HashMap::new();
    let mut stack = vec![0usize];
    let cut = |b: &Vec<Raw>| -> Vec<Raw> {
        let mut out = vec![];
        for i in b {
            out.push(i.clone());
            if matches!(i, Raw::Ret(_) | Raw::Jump(_) | Raw::Switch(..)) {
                break;
            }
        }
        out
    };
    // the order in which a `match` lists its discriminants is not fixed (the compiler iterates
    // a hash set): branches are compared in ascending key order
    let blocks: Vec<Vec<Raw>> = blocks
        .iter()
        .map(|b| {
            b.iter()
                .map(|i| match i {
                    Raw::Switch(x, br, d) => {
                        let mut br = br.clone();
                        br.sort();
                        Raw::Switch(x.clone(), br, *d)
                    }
                    other => other.clone(),
                })
                .collect()
        })
        .collect();
    let blocks = &blocks[..];
    while let Some(b) = stack.pop() {
        if b >= blocks.len() || id.contains_key(&b) {
            continue;
        }
        id.insert(b, order.len());
        order.push(b);
        let body = cut(&blocks[b]);
        let mut succ = vec![];
        match body.last() {
            Some(Raw::Jump(l)) => succ.push(*l),
            Some(Raw::Switch(_, br, d)) => {
                succ.extend(br.iter().map(|(_, l)| *l));
                succ.extend(d.iter().copied());
            }
            _ => {}
        }
        for s in succ.into_iter().rev() {
            stack.push(s);
        }
    }
    let name = |l: &usize| id.get(l).map(|i| format!("L{i}")).unwrap_or_else(|| "L?".to_string());
    let mut out = String::new();
    for (n, b) in order.iter().enumerate() {
        out.push_str(&format!("L{n}:\n"));
        for i in cut(&blocks[*b]) {
            let line = match i {
                Raw::Assign(t) => t,
                Raw::Other(t) => t,
                Raw::Ret(v) => format!("return {v}"),
                Raw::Jump(l) => format!("jump {}", name(&l)),
                Raw::Switch(x, br, d) => format!(
                    "switch {x} [{}] else {}",
                    br.iter().map(|(k, l)| format!("{k} => {}", name(l))).collect::<Vec<_>>().join(", "),
                    d.as_ref().map(&name).unwrap_or_else(|| "-".to_string())
                ),
            };
            out.push_str("  ");
            out.push_str(&line);
            out.push('\n');
        }
    }
    out
}

/// Rename temporaries `tN` by order of first occurrence in the canonical text.
fn rename_tmps(text: &str) -> String {
    let mut map: std::collections::HashMap<String, usize> = std::collections::HashMap::new();
    let mut out = String::new();
    let bytes: Vec<char> = text.chars().collect();
    let mut i = 0;
    while i < bytes.len() {
        let c = bytes[i];
        let boundary = i == 0 || !(bytes[i - 1].is_alphanumeric() || bytes[i - 1] == '_');
        if c == 't' && boundary && i + 1 < bytes.len() && bytes[i + 1].is_ascii_digit() {
            let mut j = i + 1;
            while j < bytes.len() && bytes[j].is_ascii_digit() {
                j += 1;
            }
            let name: String = bytes[i..j].iter().collect();
            let n = map.len();
            let id = *map.entry(name).or_insert(n);
            out.push_str(&format!("T{id}"));
            i = j;
        } else {
            out.push(c);
            i += 1;
        }
    }
    out
}

/// Compare the structured lowering model with the real MIR of `main`.
/// Ok(true): compared and equal; Ok(false): outside the model's fragment.
fn compare_mir(rep: &mut Report, drv: &mut Driver, src: &str, sx: &str, ident: &Value) -> bool {
    let ans = drv.ask(&format!("c08 mir {}", hex(sx)));
    let per_fn: Vec<&str> = ans.split(" || ").collect();
    if per_fn.iter().all(|a| a.trim() == "outside") {
        // the lowering model is defined on every program that avoids three ill-typed shapes
        // (`lowerProg_defined`); a program the compiler accepted has none of them, so the hypothesis
        // `lowerProg fns = some P` of `lowerS_trace_partial` must hold for every generated program
        rep.hist("mir-model-vs-real", "outside the modelled fragment");
        rep.mismatch("a program the compiler accepts is outside the fragment of the lowering model (`lowerProg` undefined: the hypothesis of lowerS_trace_partial is not met)", json!({"case": ident, "src": src}));
        return false;
    }
    let real = match catch_unwind(AssertUnwindSafe(|| real_raw(src))) {
        Ok(Ok(r)) => r,
        Ok(Err(e)) => {
            rep.mismatch("MIR dump hook failed on a generated program", json!({"case": ident, "src": src, "error": e}));
            return false;
        }
        Err(_) => return false, // the compiler panicked: reported by the behavioural part
    };
    let has_match = src.contains("match ");
    let last = per_fn.len() - 1;
    let mut compared = false;
    for (i, a) in per_fn.iter().enumerate() {
        let name = if i == last { "main".to_string() } else { format!("f{i}") };
        if a.trim() == "outside" {
            rep.hist("mir-model-vs-real", "function outside the modelled fragment");
            rep.mismatch("a function the compiler accepts is outside the fragment of the lowering model (`lowerFn` undefined)", json!({"case": ident, "src": src, "function": name}));
            continue;
        }
        let model = match model_raw(a.trim()) {
            Ok(m) => m,
            Err(e) => {
                rep.mismatch("answer of `c08 mir` not understood", json!({"case": ident, "src": src, "error": e, "answer": a}));
                continue;
            }
        };
        let Some((_, rtmp, rblocks)) = real.iter().find(|(n, _, _)| *n == name) else {
            rep.mismatch("the MIR dump has no item for a function of the program", json!({"case": ident, "src": src, "function": name}));
            continue;
        };
        compared = true;
        let (mut mc, mut rc) = (canon_cfg(&model.1), canon_cfg(rblocks));
        if has_match && (mc != rc || model.0 != *rtmp) {
            // the guard chains of a `match` are lowered in hash-set order: temporaries are numbered
            // differently from run to run; compare up to a renaming of temporaries by first occurrence
            (mc, rc) = (rename_tmps(&mc), rename_tmps(&rc));
            if mc == rc {
                rep.hist("mir-model-vs-real", "same up to the numbering of temporaries (match)");
                continue;
            }
        }
        if mc != rc || (model.0 != *rtmp && !has_match) {
            rep.mismatch(
                "the structured lowering model (Lean LowerS.lowerFn) and the real MIR of a function differ (instructions, order, temporaries or control flow; drops and unit constants ignored)",
                json!({"case": ident, "src": src, "function": name, "model_tmp_idx": model.0, "real_tmp_idx": rtmp, "model": mc, "real": rc}),
            );
            rep.hist("mir-model-vs-real", "DIFFERENT");
        } else {
            rep.hist("mir-model-vs-real", "same");
            rep.hist("mir-blocks", bucket(mc.matches("\nL").count() as u64 + 1));
        }
    }
    compared
}

fn tuple(a: &Args) -> String {
    format!("{},{},{}", a.0, a.1, a.2 as u8)
}

fn spec_answers(drv: &mut Driver, sexp: &str, args: &[Args]) -> Result<Vec<String>, String> {
    let ts: Vec<String> = args.iter().map(tuple).collect();
    let ans = drv.ask(&format!("c08 run {} {FUEL} {}", hex(sexp), ts.join(" ")));
    if ans == "bad-program" || ans == "bad-op" {
        return Err(ans);
    }
    let parts: Vec<String> = ans.split(" | ").map(|s| s.trim_end().to_string()).collect();
    if parts.len() != args.len() {
        return Err(format!("{} answers for {} tuples: {ans}", parts.len(), args.len()));
    }
    Ok(parts)
}

fn events(ans: &str) -> Vec<&str> {
    match ans.split_once(';') {
        Some((_, t)) => t.split(' ').filter(|s| !s.is_empty()).collect(),
        None => vec![],
    }
}

/// What kind of difference: used in the `what` text and the key.
fn describe(spec: &str, real: &str) -> &'static str {
    let (se, re) = (events(spec), events(real));
    if se == re {
        return "same host calls, different result";
    }
    let (mut ss, mut rs) = (se.clone(), re.clone());
    ss.sort();
    rs.sort();
    if ss == rs {
        return "same host calls in a different order";
    }
    let sk: Vec<&str> = se.iter().map(|e| e.split(',').next().unwrap_or("")).collect();
    let rk: Vec<&str> = re.iter().map(|e| e.split(',').next().unwrap_or("")).collect();
    if sk == rk {
        return "same call sites in the same order, different argument values";
    }
    if re.len() > se.len() {
        "host calls the documented order does not make"
    } else if re.len() < se.len() {
        "host calls missing"
    } else {
        "different host calls"
    }
}

fn first_difference(pkg: &mut Package<roto::NoCtx>, ret: T, args: &[Args], spec: &[String]) -> Result<Option<(usize, String)>, String> {
    for (i, (a, s)) in args.iter().zip(spec).enumerate() {
        if !s.starts_with("ok ") {
            continue;
        }
        let real = call_once(pkg, ret, *a)?;
        if real.trim_end() != s.trim_end() {
            return Ok(Some((i, real)));
        }
    }
    Ok(None)
}

fn still_fails(drv: &mut Driver, prog: &Prog, ret: T, a: Args) -> bool {
    let (src, sx) = (source(prog), sexp(prog));
    let Ok(spec) = spec_answers(drv, &sx, &[a]) else { return false };
    if !spec[0].starts_with("ok ") {
        return false;
    }
    match compile_guarded(&src) {
        Ok(Ok(mut pkg)) => matches!(first_difference(&mut pkg, ret, &[a], &spec), Ok(Some(_))),
        _ => false,
    }
}

fn shrink(drv: &mut Driver, prog: &Prog, ret: T, a: Args) -> Prog {
    let mut cur = prog.clone();
    let mut tries = 0;
    for _pass in 0..4 {
        let mut k = 0;
        let mut progress = false;
        while let Some(cand) = edit(&cur, k) {
            tries += 1;
            if tries > 900 {
                return cur;
            }
            if still_fails(drv, &cand, ret, a) {
                cur = cand;
                progress = true;
            } else {
                k += 1;
            }
        }
        if !progress {
            break;
        }
    }
    cur
}

fn violation_key(p: &Prog) -> String {
    let (cons, _, _) = constructs(p);
    let ks: Vec<&str> = cons.keys().map(|s| s.as_str()).filter(|k| !matches!(*k, "lit" | "var")).collect();
    format!("order {}", ks.join(","))
}

fn bucket(n: u64) -> String {
    match n {
        0..=9 => n.to_string(),
        10..=19 => "10-19".into(),
        20..=49 => "20-49".into(),
        50..=99 => "50-99".into(),
        _ => "100+".into(),
    }
}

fn fnv(s: &str) -> u64 {
    let mut h: u64 = 0xcbf29ce484222325;
    for b in s.bytes() {
        h ^= b as u64;
        h = h.wrapping_mul(0x100000001b3);
    }
    h
}

fn check_program(rep: &mut Report, drv: &mut Driver, prog: &Prog, args: &[Args], ident: Value, sample: bool) {
    let (src, sx) = (source(prog), sexp(prog));
    let ret = prog.fns.last().unwrap().ret;
    let (cons, pos, depth) = constructs(prog);
    for (k, n) in &cons {
        for _ in 0..*n {
            rep.hist("constructs", k.clone());
        }
    }
    rep.hist("nesting-depth", depth.min(12).to_string());
    rep.hist("ret-type", ret.name());
    rep.hist("functions", prog.fns.len().to_string());
    rep.hist("program-bytes", format!("{}", src.len() / 200 * 200));
    let spec = match spec_answers(drv, &sx, args) {
        Ok(s) => s,
        Err(e) => {
            rep.mismatch("Lean spec rejects a generated program (generator/printer bug)", json!({"case": ident, "src": src, "error": e}));
            return;
        }
    };
    for (a, s) in args.iter().zip(&spec) {
        rep.evaluations += 1;
        if s.starts_with("stuck") {
            rep.mismatch("Lean spec is stuck on a generated program (ill-typed for the spec)", json!({"case": ident, "src": src, "args": tuple(a), "spec": s}));
            return;
        }
        rep.hist("spec-outcome", if s.starts_with("ok") { "value" } else { "fuel" });
        if s.starts_with("ok") {
            rep.hist("trace-length", bucket(events(s).len() as u64));
        }
    }
    let mut pkg = match compile_guarded(&src) {
        Ok(Ok(p)) => p,
        Ok(Err(e)) => {
            rep.mismatch("generated program does not compile", json!({"case": ident, "src": src, "error": e.chars().take(1500).collect::<String>()}));
            return;
        }
        Err(p) => {
            rep.violation("the compiler panicked on a well-typed program", "compiler-panic", json!({"case": ident, "src": src, "panic": p}));
            return;
        }
    };
    match first_difference(&mut pkg, ret, args, &spec) {
        Err(e) => {
            rep.mismatch("main of a generated program is not obtainable at its declared signature", json!({"case": ident, "src": src, "error": e}));
        }
        Ok(Some((i, real))) => {
            let bad = args[i];
            let what0 = describe(&spec[i], &real);
            // many programs usually show the same defect: minimise the first few of a batch only
            let small = if rep.impl_violations.len() < 4 { shrink(drv, prog, ret, bad) } else { prog.clone() };
            let minimised = rep.impl_violations.len() < 4;
            let (ssrc, ssx) = (source(&small), sexp(&small));
            let sspec = spec_answers(drv, &ssx, &[bad]).map(|v| v[0].clone()).unwrap_or_default();
            let sreal = compile_guarded(&ssrc).ok().and_then(|r| r.ok()).and_then(|mut p| call_once(&mut p, ret, bad).ok()).unwrap_or_default();
            let what = describe(&sspec, &sreal);
            rep.violation(
                &format!("the host calls of one call differ from the documented evaluation order (Lean TraceSpec): {what}"),
                &violation_key(&small),
                json!({
                    "src": ssrc, "sexp": ssx, "ret": ret.name(), "args": [bad.0, bad.1, bad.2],
                    "spec": sspec, "real": sreal, "minimised": minimised,
                    "original": {"case": ident, "src": src, "spec": spec[i], "real": real, "difference": what0},
                }),
            );
            rep.hist("real-vs-spec", "DIFFERENT");
        }
        Ok(None) => {
            rep.hist("real-vs-spec", "agree");
            compare_mir(rep, drv, &src, &sx, &ident);
            let nonempty = spec.iter().any(|s| s.starts_with("ok") && !events(s).is_empty());
            if nonempty {
                rep.class(format!("prog:{:016x}", fnv(&src)));
                for k in pos.keys() {
                    rep.class(format!("pos:{k}"));
                }
                // distinct traces (as call-site sequences) of this program
                let distinct: BTreeSet<&str> = spec.iter().map(|s| s.as_str()).collect();
                rep.hist("distinct-traces-per-program", distinct.len().to_string());
            }
            if sample {
                rep.sample(json!({"case": ident, "src": src, "args": tuple(&args[0]), "spec": spec[0]}));
            }
        }
    }
}

fn replay_one(rep: &mut Report, drv: &mut Driver, v: &Value) {
    let src = v["src"].as_str().unwrap();
    let sx = v["sexp"].as_str().unwrap();
    let ret = T::parse(v["ret"].as_str().unwrap()).expect("ret");
    let a = v["args"].as_array().unwrap();
    let a: Args = (a[0].as_i64().unwrap() as i32, a[1].as_i64().unwrap() as i32, a[2].as_bool().unwrap());
    println!("source:\n{src}");
    let spec = spec_answers(drv, sx, &[a]).expect("spec accepts the program");
    println!("args = {a:?}\nspec = {}", spec[0]);
    rep.evaluations = 1;
    match compile_guarded(src) {
        Ok(Ok(mut pkg)) => {
            std::io::stdout().flush().ok();
            match call_once(&mut pkg, ret, a) {
                Ok(real) => {
                    println!("real = {real}");
                    if spec[0].starts_with("ok ") && real.trim_end() != spec[0].trim_end() {
                        rep.violation(
                            &format!("the host calls of one call differ from the documented evaluation order (Lean TraceSpec): {}", describe(&spec[0], &real)),
                            "replay",
                            v.clone(),
                        );
                    }
                }
                Err(e) => {
                    println!("main not obtainable: {e}");
                    rep.mismatch("replayed main is not obtainable", v.clone());
                }
            }
        }
        Ok(Err(e)) => {
            println!("does not compile: {e}");
            rep.mismatch("replayed program does not compile", v.clone());
        }
        Err(p) => {
            println!("compiler panic: {p}");
            rep.violation("the compiler panicked on a well-typed program", "compiler-panic", v.clone());
        }
    }
}

/// Hand-written cases run first on every run: one per clause of the statement.
/// (source, s-expression, return type, args)
fn corpus() -> Vec<(String, Prog)> {
    let mut out: Vec<(String, Prog)> = corpus_clauses().into_iter().map(|(n, p)| (n.to_string(), p)).collect();
    out.extend(corpus_implicit());
    out.extend(corpus_desugared());
    out.extend(corpus_bare());
    out.extend(corpus_records());
    out.extend(corpus_matches());
    out
}

/// Class representatives for the host calls the compiler inserts IMPLICITLY: they happen at the
/// point of the construct they belong to, interleaved left to right with everything else.
///  * an f-string with k = 2 and k = 3 interpolated parts, every tuple of part kinds out of
///    { a value of the host type `Tok` (its logging `to_string` is called for the part),
///      an effectful call returning a primitive, a block with an effect } — 9 + 27 programs; the
///    first `Tok` part is a variable (the `to_string` call is then the part's only event: the
///    shape `f"{c} then {c.bump()}"`), later ones are calls of `tok`;
///  * the same with a later part that reads the value through a method / leaves the function;
///  * `==` / `!=` on two `Tok`s (the type's logging equality): operands with effects, as an
///    operand of `&&`, as a call argument, next to an explicit `to_string`.
fn corpus_implicit() -> Vec<(String, Prog)> {
    use E::{And, Bin, Block, FStr, Host, If1, Int, Ret, Var};
    let b = |e: E| Box::new(e);
    let em = |k: i32, v: E| Host(H_EMIT, vec![Int(k), v]);
    let tok = |k: i32, v: E| Host(H_TOK, vec![Int(k), v]);
    let main = |ret: T, body: Blk| Prog { fns: vec![Fn_ { params: vec![0, 1, 2], ret, body }], var_tys: vec![T::I, T::I, T::B, T::K, T::S, T::K] };
    let decl = || S::Let(3, tok(90, Var(0)));
    let mut out = vec![];
    let kinds = ["host value", "call", "block"];
    for k in [2usize, 3] {
        for code in 0..3usize.pow(k as u32) {
            let ks: Vec<usize> = (0..k).map(|i| code / 3usize.pow(i as u32) % 3).collect();
            let mut parts = vec![];
            let mut seen_tok = false;
            for (i, kind) in ks.iter().enumerate() {
                let key = 10 * (i as i32 + 1);
                if i > 0 {
                    parts.push(Part::Str(["-", " then "][i - 1].to_string()));
                }
                parts.push(Part::Expr(match kind {
                    0 if !seen_tok => {
                        seen_tok = true;
                        Var(3)
                    }
                    0 => tok(key, Var(1)),
                    1 => em(key, Var(1)),
                    _ => Block(Blk { stmts: vec![S::Do(Host(H_EMIT_U, vec![Int(key)]))], last: Some(b(Bin(Op::Add, b(Var(0)), b(Int(i as i32))))) }),
                }));
            }
            out.push((
                format!("f-string, {k} parts ({}): every part is converted (a host value: by a call of its to_string) before the next part runs", ks.iter().map(|x| kinds[*x]).collect::<Vec<_>>().join(", ")),
                main(T::S, Blk { stmts: vec![decl()], last: Some(b(FStr(parts))) }),
            ));
        }
    }
    // a later part reads the host value through a method: `f"{x3} then {x3.peek(1)}"`
    out.push((
        "f-string: a host value, then a method call on the same value".to_string(),
        main(T::S, Blk { stmts: vec![decl()], last: Some(b(FStr(vec![Part::Expr(Var(3)), Part::Str(" then ".into()), Part::Expr(Host(H_PEEK, vec![Var(3), Int(1)]))]))) }),
    ));
    // a later part assigns the variable an earlier part has shown
    out.push((
        "f-string: a later part assigns the host variable an earlier part has shown".to_string(),
        main(
            T::S,
            Blk {
                stmts: vec![decl()],
                last: Some(b(FStr(vec![
                    Part::Expr(Var(3)),
                    Part::Expr(Block(Blk { stmts: vec![S::Do(E::Assign(3, b(tok(1, Var(1)))))], last: Some(b(em(2, Var(0)))) })),
                    Part::Expr(Var(3)),
                ]))),
            },
        ),
    ));
    // the second part may leave the function: the first part's `to_string` ran, the third part does not
    out.push((
        "f-string: the second part returns after the first part's to_string call".to_string(),
        main(
            T::I,
            Blk {
                stmts: vec![
                    decl(),
                    S::Let(
                        4,
                        FStr(vec![
                            Part::Expr(Var(3)),
                            Part::Expr(Block(Blk { stmts: vec![S::Do(If1(b(Var(2)), Blk { stmts: vec![S::Do(Ret(b(em(1, Int(5)))))], last: None }))], last: Some(b(em(2, Var(1)))) })),
                            Part::Expr(tok(3, Var(1))),
                        ]),
                    ),
                ],
                last: Some(b(em(4, Int(0)))),
            },
        ),
    ));
    // explicit `to_string`, and string `+`
    out.push((
        "explicit to_string as the left operand of +".to_string(),
        main(T::S, Blk { stmts: vec![decl()], last: Some(b(E::Concat(b(Host(H_TO_STRING, vec![Var(3)])), b(Host(H_EMIT_S, vec![Int(1), FStr(vec![Part::Expr(tok(2, Var(1)))])]))))) }),
    ));
    // the equality of the host type
    for op in [Op::Eq, Op::Ne] {
        let sym = op.sym();
        out.push((
            format!("tok(..) {sym} tok(..): operands left to right, then one call of the type's equality"),
            main(T::B, Blk { stmts: vec![], last: Some(b(Bin(op, b(tok(1, Var(0))), b(tok(2, Var(1)))))) }),
        ));
        out.push((
            format!("x {sym} {{ effect; tok(..) }}: the equality is called after the right operand's block"),
            main(T::B, Blk { stmts: vec![decl()], last: Some(b(Bin(op, b(Var(3)), b(Block(Blk { stmts: vec![S::Do(Host(H_EMIT_U, vec![Int(1)]))], last: Some(b(tok(2, Var(1)))) }))))) }),
        ));
        out.push((
            format!("emit_b(..) && (x {sym} tok(..)): the equality is called only when the left operand is true"),
            main(T::B, Blk { stmts: vec![decl()], last: Some(b(And(b(Host(H_EMIT_B, vec![Int(1), Var(2)])), b(Bin(op, b(Var(3)), b(tok(2, Var(1)))))))) }),
        ));
        out.push((
            format!("emit3-style arguments: (x {sym} tok(..)) as an argument is evaluated in its place"),
            main(
                T::I,
                Blk {
                    stmts: vec![decl(), S::Let(5, tok(7, Var(1)))],
                    last: Some(b(Host(H_EMIT3, vec![Int(1), E::Ite(b(Bin(op, b(Var(3)), b(Var(5)))), Blk { stmts: vec![], last: Some(b(em(2, Int(1)))) }, Blk { stmts: vec![], last: Some(b(em(3, Int(0)))) }), em(4, Var(0))]))),
                },
            ),
        ));
    }
    out
}

/// Class representatives for "an operator that desugars to a runtime call" (`l + r` on strings,
/// `Lowerer::desugared_binop`): the LEFT operand is a lazy value — a bare call, a bare variable,
/// a method call on a variable — and the RIGHT operand has effects NESTED inside it (a call in an
/// argument, a parenthesised concatenation, an f-string part, a block that assigns the variable
/// the left operand reads, a method call whose receiver is a call, a block that may return):
/// the left operand is read / called before anything inside the right operand runs. Also the
/// left-nested chain `a + b + c` and a concatenation as a call argument.
fn corpus_desugared() -> Vec<(String, Prog)> {
    use E::{Assign, Block, Concat, FStr, Host, If1, Int, Ret, Var};
    let b = |e: E| Box::new(e);
    let em = |k: i32, v: E| Host(H_EMIT, vec![Int(k), v]);
    let tok = |k: i32, v: E| Host(H_TOK, vec![Int(k), v]);
    let text = |s: &str| FStr(vec![Part::Str(s.to_string())]);
    let es = |k: i32, v: E| Host(H_EMIT_S, vec![Int(k), v]);
    // ids: 0 1 i32, 2 bool (parameters), 3: a Tok, 4: a String
    let main = |body: Blk| Prog { fns: vec![Fn_ { params: vec![0, 1, 2], ret: T::S, body }], var_tys: vec![T::I, T::I, T::B, T::K, T::S, T::K] };
    let decls = || vec![S::Let(3, tok(90, Var(0))), S::Let(4, es(91, text("s")))];
    let lefts: Vec<(&str, E)> = vec![
        ("a bare call", es(1, text("a"))),
        ("a bare variable", Var(4)),
        ("a method call on a variable", Host(H_TO_STRING, vec![Var(3)])),
    ];
    let rights: Vec<(&str, E)> = vec![
        ("a call with a call in its argument", es(2, es(3, text("b")))),
        ("a parenthesised concatenation", Concat(b(es(2, text("b"))), b(es(3, text("c"))))),
        ("an f-string with an effectful part", FStr(vec![Part::Str("<".to_string()), Part::Expr(em(2, Var(1))), Part::Expr(tok(3, Var(0)))])),
        ("a block that assigns the variable and logs", Block(Blk { stmts: vec![S::Do(Assign(4, b(es(2, text("z")))))], last: Some(b(es(3, Var(4)))) })),
        ("a method call whose receiver is a call", Host(H_TO_STRING, vec![tok(2, Var(1))])),
        ("a block that may return", Block(Blk { stmts: vec![S::Do(If1(b(Var(2)), Blk { stmts: vec![S::Do(Ret(b(es(2, text("r")))))], last: None }))], last: Some(b(es(3, text("c")))) })),
    ];
    let mut out = vec![];
    for (ln, l) in &lefts {
        for (rn, r) in &rights {
            out.push((
                format!("string +: the left operand ({ln}) is evaluated before anything inside the right operand ({rn})"),
                main(Blk { stmts: decls(), last: Some(b(Concat(b(l.clone()), b(r.clone())))) }),
            ));
        }
    }
    // the same for `+` on lists (`List.concat`, the other user of `desugared_binop` in the generated
    // language): ids 6: a List[i32], 7: a loop binder; the concatenation is logged by `emit_l(9, ..)`
    {
        use E::{ConcatL, List};
        let el = |k: i32, v: E| Host(H_EMIT_L, vec![Int(k), v]);
        let lmain = |body: Blk| Prog { fns: vec![Fn_ { params: vec![0, 1, 2], ret: T::I, body }], var_tys: vec![T::I, T::I, T::B, T::K, T::S, T::K, T::L, T::I] };
        let ldecl = || S::Let(6, el(91, List(vec![Var(0), Int(5)])));
        let llefts: Vec<(&str, E)> = vec![
            ("a bare call", el(1, List(vec![Var(0)]))),
            ("a bare variable", Var(6)),
            ("a list literal with an effectful element", List(vec![em(1, Var(0)), Int(4)])),
        ];
        let lrights: Vec<(&str, E)> = vec![
            ("a call with a call in its argument", el(2, el(3, List(vec![Var(1)])))),
            ("a parenthesised concatenation", ConcatL(b(el(2, List(vec![Var(1)]))), b(el(3, List(vec![]))))),
            ("a list literal with effectful elements", List(vec![em(2, Var(1)), em(3, Var(0))])),
            ("a block that assigns the variable and logs", Block(Blk { stmts: vec![S::Do(Assign(6, b(el(2, List(vec![Int(7)])))))], last: Some(b(el(3, Var(6)))) })),
            ("a block that may return", Block(Blk { stmts: vec![S::Do(If1(b(Var(2)), Blk { stmts: vec![S::Do(Ret(b(em(2, Int(5)))))], last: None }))], last: Some(b(el(3, List(vec![Var(1)])))) })),
        ];
        for (ln, l) in &llefts {
            for (rn, r) in &lrights {
                out.push((
                    format!("list +: the left operand ({ln}) is evaluated before anything inside the right operand ({rn})"),
                    lmain(Blk { stmts: vec![ldecl(), S::Do(el(9, ConcatL(b(l.clone()), b(r.clone()))))], last: Some(b(Int(0))) }),
                ));
            }
        }
        out.push((
            "list +: a for loop over a concatenation (operands once, left to right, then the body per element)".to_string(),
            lmain(Blk {
                stmts: vec![ldecl(), S::Do(E::For(7, b(ConcatL(b(Var(6)), b(Block(Blk { stmts: vec![S::Do(Assign(6, b(el(1, List(vec![Int(8)])))))], last: Some(b(el(2, List(vec![Var(1), Int(3)])))) })))), Blk { stmts: vec![S::Do(em(3, Var(7)))], last: None }))],
                last: Some(b(Int(0))),
            }),
        ));
    }
    out.push((
        "string +: the chain a + b + c, operands left to right".to_string(),
        main(Blk { stmts: decls(), last: Some(b(Concat(b(Concat(b(es(1, text("a"))), b(es(2, Var(4))))), b(es(3, text("c")))))) }),
    ));
    out.push((
        "string +: a concatenation as a call argument, after an earlier argument's effect".to_string(),
        main(Blk { stmts: decls(), last: Some(b(es(1, Concat(b(Var(4)), b(Block(Blk { stmts: vec![S::Do(Assign(4, b(es(2, text("z")))))], last: Some(b(es(3, es(5, Var(4))))) })))))) }),
    ));
    out
}

/// Class representatives for "a constructor component that is a BARE variable or path is read at
/// its place": the component is a variable / a field path `x.f`, and a LATER component of the same
/// constructor is a block that assigns that variable / that field / the whole record before it
/// logs. Constructors: record literals (named, anonymous, two fields, generic), enum constructor,
/// list literal, host-call arguments, a method's receiver, script-call arguments, f-string parts,
/// operands of a binary operator.
fn corpus_bare() -> Vec<(String, Prog)> {
    use E::{Assign, Bin, Block, Call, Ctor, FStr, Field, Host, Int, List, Match, Record, Var};
    let b = |e: E| Box::new(e);
    let em = |k: i32, v: E| Host(H_EMIT, vec![Int(k), v]);
    let last = |e: E| Blk { stmts: vec![], last: Some(Box::new(e)) };
    // ids: 0 1 2 parameters, 3: a record `R`, 5: the constructed value, 6 7: binders, 8 9: the callee's parameters
    let tys = |t5: T| vec![T::I, T::I, T::B, T::R, T::I, t5, T::I, T::I, T::I, T::I];
    let mut out = vec![];
    // (what, the bare component, the later component that assigns what the bare one names)
    let bares: Vec<(&str, E, E)> = vec![
        ("a variable", Var(0), Block(Blk { stmts: vec![S::Do(Assign(0, b(Int(100))))], last: Some(b(em(1, Var(0)))) })),
        ("a field path; a later component assigns that field", Field(b(Var(3)), 0), Block(Blk { stmts: vec![S::Do(E::AssignF(3, 0, b(Int(100))))], last: Some(b(em(1, Field(b(Var(3)), 0)))) })),
        (
            "a field path; a later component assigns the whole record",
            Field(b(Var(3)), 1),
            Block(Blk { stmts: vec![S::Do(Assign(3, b(Record(RK_RA, vec![(2, Int(7)), (0, Int(8)), (1, Int(9))]))))], last: Some(b(em(1, Field(b(Var(3)), 1)))) }),
        ),
    ];
    for (what, bare, later) in bares {
        let start = || S::Let(3, Record(RK_R, vec![(0, Var(0)), (1, Var(1)), (2, Int(3))]));
        let three = || vec![bare.clone(), later.clone(), bare.clone()];
        let mut push = |name: &str, t5: T, stmts: Vec<S>, fin: E, helper: Option<Fn_>| {
            let mut all = vec![start()];
            all.extend(stmts);
            let mainf = Fn_ { params: vec![0, 1, 2], ret: T::I, body: Blk { stmts: all, last: Some(Box::new(fin)) } };
            let fns = match helper {
                Some(h) => vec![h, mainf],
                None => vec![mainf],
            };
            out.push((format!("{name}: a component is {what}"), Prog { fns, var_tys: tys(t5) }));
        };
        // record literals: the bare component is written first, whatever field it is for
        for (ty, tname, n) in RECORDS.iter().copied() {
            for anon in [false, true] {
                let perm: Vec<usize> = if n == 3 { vec![1, 2, 0] } else { vec![1, 0] };
                let fs: Vec<(usize, E)> = perm.iter().copied().zip(three()).collect();
                let obs = if n == 3 {
                    Bin(Op::Sub, b(Host(H_EMIT3, vec![Int(4), Field(b(Var(5)), 0), Field(b(Var(5)), 1)])), b(Field(b(Var(5)), 2)))
                } else {
                    Host(H_EMIT3, vec![Int(4), Field(b(Var(5)), 0), Field(b(Var(5)), 1)])
                };
                push(&format!("record literal {}{tname}", if anon { "(anonymous) of " } else { "" }), ty, vec![S::Let(5, Record(Rk { ty, anon }, fs))], obs, None);
            }
        }
        push(
            "enum constructor E.B(..)",
            T::I,
            vec![],
            Match(b(Ctor(1, vec![bare.clone(), later.clone()])), false, vec![Arm { pat: Pat::Variant(1, vec![6, 7]), guard: None, body: last(Host(H_EMIT3, vec![Int(4), Var(6), Var(7)])) }, Arm { pat: Pat::Wild, guard: None, body: last(Int(0)) }]),
            None,
        );
        push("list literal", T::L, vec![S::Let(5, Host(H_EMIT_L, vec![Int(4), List(three())]))], Int(0), None);
        push("arguments of a host call", T::I, vec![], Host(H_EMIT3, vec![Int(4), bare.clone(), later.clone()]), None);
        push("receiver of a method call", T::I, vec![], Host(H_MIX, vec![bare.clone(), Int(4), later.clone()]), None);
        push(
            "arguments of a script-function call",
            T::I,
            vec![],
            Call(0, vec![bare.clone(), later.clone()]),
            Some(Fn_ { params: vec![8, 9], ret: T::I, body: last(Host(H_EMIT3, vec![Int(4), Var(8), Var(9)])) }),
        );
        push("f-string parts", T::S, vec![S::Let(5, Host(H_EMIT_S, vec![Int(4), FStr(vec![Part::Expr(bare.clone()), Part::Str("-".into()), Part::Expr(later.clone()), Part::Str("-".into()), Part::Expr(bare.clone())])]))], Int(0), None);
        push("operands of a binary operator", T::I, vec![], Bin(Op::Sub, b(bare.clone()), b(later.clone())), None);
    }
    out
}

/// Class representatives for "only the selected arm runs, guards tried in source order", over
/// the whole small table (variant the pattern names) x (variant of the examinee), for the enum
/// `E` (three variants) and for `i32?`:
///  * one named variant and `_`:            `match v { V_a(..) => .., _ => .. }`
///  * guarded `_` between two variants:      `match v { V_a(..) if g1 => .., _ if g2 => .., V_b(..) if g3 => .., _ => .. }`
/// The examinee's variant is fixed per program; the guards depend on the arguments (all four
/// combinations of g1, g2 occur among the corpus arguments).
fn corpus_matches() -> Vec<(String, Prog)> {
    use E::{Bin, Bool, Ctor, Host, Int, Match, Var};
    let b = |e: E| Box::new(e);
    let em = |k: i32, v: E| Host(H_EMIT, vec![Int(k), v]);
    let emb = |k: i32, v: E| Host(H_EMIT_B, vec![Int(k), v]);
    let last = |e: E| Blk { stmts: vec![], last: Some(Box::new(e)) };
    let mut out = vec![];
    for is_opt in [false, true] {
        let nvar = if is_opt { 2 } else { 3 };
        let arity = |v: usize| if is_opt { [1, 0][v] } else { VARIANTS[v].1 };
        let vname = |v: usize| if is_opt { ["Some", "None"][v] } else { VARIANTS[v].0 };
        let examinee = |v: usize| -> E {
            if is_opt {
                // emit_o(k, n) is Some(n) for even n, None for odd n
                Host(H_EMIT_O, vec![Int(9), Int(if v == 0 { 4 } else { 3 })])
            } else {
                Ctor(v, (0..arity(v)).map(|j| em(90 + j as i32, Var(j))).collect())
            }
        };
        for k in 0..nvar {
            for a in 0..nvar {
                // one named variant and `_`
                let mut tys = vec![T::I, T::I, T::B];
                let binds: Vec<usize> = (0..arity(a)).map(|_| { tys.push(T::I); tys.len() - 1 }).collect();
                let arms = vec![
                    Arm { pat: Pat::Variant(a, binds), guard: None, body: last(em(1, Int(10))) },
                    Arm { pat: Pat::Wild, guard: None, body: last(em(2, Int(20))) },
                ];
                out.push((
                    format!("match on {}: the only pattern names {}, `_` for the rest; the value is {}", if is_opt { "i32?" } else { "E" }, vname(a), vname(k)),
                    Prog { fns: vec![Fn_ { params: vec![0, 1, 2], ret: T::I, body: last(Match(b(examinee(k)), is_opt, arms)) }], var_tys: tys },
                ));
                for c in 0..nvar {
                    if c == a {
                        continue;
                    }
                    // a guarded `_` written between the (guarded) arms of two variants, `_` last
                    let mut tys = vec![T::I, T::I, T::B];
                    let ba: Vec<usize> = (0..arity(a)).map(|_| { tys.push(T::I); tys.len() - 1 }).collect();
                    let bc: Vec<usize> = (0..arity(c)).map(|_| { tys.push(T::I); tys.len() - 1 }).collect();
                    let arms = vec![
                        Arm { pat: Pat::Variant(a, ba), guard: Some(emb(1, Var(2))), body: last(em(2, Int(10))) },
                        Arm { pat: Pat::Wild, guard: Some(emb(3, Bin(Op::Gt, b(Var(1)), b(Int(5))))), body: last(em(4, Int(20))) },
                        Arm { pat: Pat::Variant(c, bc), guard: Some(emb(5, Bool(true))), body: last(em(6, Int(30))) },
                        Arm { pat: Pat::Wild, guard: None, body: last(em(7, Int(40))) },
                    ];
                    out.push((
                        format!("match on {}: {} if g1, _ if g2, {} if g3, _; the value is {}", if is_opt { "i32?" } else { "E" }, vname(a), vname(c), vname(k)),
                        Prog { fns: vec![Fn_ { params: vec![0, 1, 2], ret: T::I, body: last(Match(b(examinee(k)), is_opt, arms)) }], var_tys: tys },
                    ));
                }
            }
        }
    }
    out
}

/// Class representatives for "the order in which something is WRITTEN is not the order in which
/// its type declares it": a literal of every record type — `R` (three fields), `P` (two),
/// the generic `G[T]` (three) and `H[T]` (two) at `T = i32` — in EVERY order of its fields (six /
/// two), with the type's name, anonymous under an annotation, anonymous on the right of an
/// assignment, and (not for the generic ones) anonymous with a type of its own; effects one level
/// down (a later-written field assigns what an earlier-written one read; a field leaves the
/// function).
fn corpus_records() -> Vec<(String, Prog)> {
    use E::{Assign, Bin, Block, Field, Host, If1, Int, Record, Ret, Var};
    let b = |e: E| Box::new(e);
    let em = |k: i32, v: E| Host(H_EMIT, vec![Int(k), v]);
    let main = |body: Blk, extra: Vec<T>| {
        let mut var_tys = vec![T::I, T::I, T::B];
        var_tys.extend(extra);
        Prog { fns: vec![Fn_ { params: vec![0, 1, 2], ret: T::I, body }], var_tys }
    };
    // emit3(4, x3.b, x3.c) - x3.a: every field of the result is observed
    let observe = || Bin(Op::Sub, b(Host(H_EMIT3, vec![Int(4), Field(b(Var(3)), 0), Field(b(Var(3)), 1)])), b(Field(b(Var(3)), 2)));
    // … of a record with two fields: emit3(4, x3.b, x3.c)
    let observe2 = || Host(H_EMIT3, vec![Int(4), Field(b(Var(3)), 0), Field(b(Var(3)), 1)]);
    let order = |perm: &[usize]| perm.iter().map(|i| FIELDS[*i]).collect::<Vec<_>>().join(",");
    let mut out = vec![];
    for (ty, tname, n) in RECORDS.iter().copied() {
        let named = Rk { ty, anon: false };
        let anon = Rk { ty, anon: true };
        let generic = matches!(ty, T::G | T::H);
        let obs = || if n == 3 { observe() } else { observe2() };
        // the expressions of a literal, in written order, cut to the number of fields
        let cut = |perm: &[usize], es: Vec<E>| -> Vec<(usize, E)> { perm.iter().copied().zip(es).collect() };
        for perm in perms_of(n) {
            let perm = &perm[..];
            let lit = |rk: Rk| Record(rk, cut(perm, vec![em(1, Var(0)), em(2, Var(1)), em(3, Int(7))]));
            out.push((
                format!("record literal {tname} {{ {} }}: fields run as written", order(perm)),
                main(Blk { stmts: vec![S::Let(3, lit(named))], last: Some(b(obs())) }, vec![ty]),
            ));
            out.push((
                format!("anonymous record literal {{ {} }} under `let x: {}`: fields run as written", order(perm), ty.roto()),
                main(Blk { stmts: vec![S::Let(3, lit(anon))], last: Some(b(obs())) }, vec![ty]),
            ));
            out.push((
                format!("anonymous record literal {{ {} }} assigned to a variable of type {}: fields run as written", order(perm), ty.roto()),
                main(
                    Blk { stmts: vec![S::Let(3, Record(named, (0..n).map(|i| (i, Int(0))).collect())), S::Do(Assign(3, b(lit(anon))))], last: Some(b(obs())) },
                    vec![ty],
                ),
            ));
            if !generic {
                out.push((
                    format!("anonymous record literal {{ {} }} with a type of its own: fields run as written", order(perm)),
                    main(Blk { stmts: vec![], last: Some(b(Field(b(lit(anon)), perm[1]))) }, vec![]),
                ));
            }
            // a later-written field assigns the variable an earlier-written field has read, and a
            // still later one reads it again
            out.push((
                format!("record literal {tname} {{ {} }}: a later-written field assigns what an earlier one read", order(perm)),
                main(
                    Blk {
                        stmts: vec![S::Let(
                            3,
                            Record(named, cut(perm, vec![Var(0), Block(Blk { stmts: vec![S::Do(Assign(0, b(Int(100))))], last: Some(b(em(1, Var(0)))) }), Bin(Op::Add, b(Var(0)), b(Var(1)))])),
                        )],
                        last: Some(b(obs())),
                    },
                    vec![ty],
                ),
            ));
            // the field written second may leave the function: the first ran, the third does not
            out.push((
                format!("record literal {tname} {{ {} }}: the second field as written returns", order(perm)),
                main(
                    Blk {
                        stmts: vec![S::Let(
                            3,
                            Record(
                                named,
                                cut(
                                    perm,
                                    vec![
                                        em(1, Var(0)),
                                        Block(Blk { stmts: vec![S::Do(If1(b(Var(2)), Blk { stmts: vec![S::Do(Ret(b(em(2, Int(5)))))], last: None }))], last: Some(b(em(3, Var(1)))) }),
                                        em(5, Int(1)),
                                    ],
                                ),
                            ),
                        )],
                        last: Some(b(obs())),
                    },
                    vec![ty],
                ),
            ));
        }
    }
    // the target of a (compound) assignment is a field: `x3.f op= rhs` reads `x3.f` before `rhs`
    // runs, whether `rhs` assigns that field or the whole record, and stores into the record
    // `x3` holds afterwards; `x3.f = rhs` runs `rhs`, then stores
    let start = || S::Let(3, Record(RK_R, vec![(0, Var(0)), (1, Var(1)), (2, Int(3))]));
    let other = || Record(RK_RA, vec![(2, Int(7)), (0, Int(8)), (1, Int(9))]);
    for f in 0..FIELDS.len() {
        let name = FIELDS[f];
        out.push((
            format!("x.{name} += rhs reads x.{name} first: rhs assigns x.{name}"),
            main(
                Blk {
                    stmts: vec![start(), S::Do(E::CAssignF(Op::Add, 3, f, b(Block(Blk { stmts: vec![S::Do(E::AssignF(3, f, b(Int(100))))], last: Some(b(em(1, Int(1)))) }))))],
                    last: Some(b(observe())),
                },
                vec![T::R],
            ),
        ));
        out.push((
            format!("x.{name} - rhs: the field is read before the right operand assigns it"),
            main(
                Blk {
                    stmts: vec![start()],
                    last: Some(b(Bin(Op::Sub, b(Field(b(Var(3)), f)), b(Block(Blk { stmts: vec![S::Do(E::AssignF(3, f, b(Int(100))))], last: Some(b(em(1, Field(b(Var(3)), f)))) }))))),
                },
                vec![T::R],
            ),
        ));
        out.push((
            format!("x.{name} -= rhs reads x.{name} first: rhs assigns x"),
            main(
                Blk {
                    stmts: vec![start(), S::Do(E::CAssignF(Op::Sub, 3, f, b(Block(Blk { stmts: vec![S::Do(Assign(3, b(other())))], last: Some(b(em(1, Var(0)))) }))))],
                    last: Some(b(observe())),
                },
                vec![T::R],
            ),
        ));
        out.push((
            format!("x.{name} = rhs: rhs runs (and may assign x), then the field is stored"),
            main(
                Blk {
                    stmts: vec![
                        start(),
                        S::Do(E::AssignF(3, f, b(Block(Blk { stmts: vec![S::Do(Assign(3, b(other()))), S::Do(E::AssignF(3, f, b(em(1, Int(50)))))], last: Some(b(em(2, Field(b(Var(3)), f)))) })))),
                    ],
                    last: Some(b(observe())),
                },
                vec![T::R],
            ),
        ));
    }
    out
}

fn corpus_clauses() -> Vec<(&'static str, Prog)> {
    use E::{Accept, And, Assign, Bin, Block, Bool, CAssign, Ctor, FStr, Field, For, Host, If1, Int, List, Match, Or, Record, Reject, Ret, Try, Var, While};
    let b = |e: E| Box::new(e);
    let em = |k: i32, v: E| Host(H_EMIT, vec![Int(k), v]);
    let emb = |k: i32, v: E| Host(H_EMIT_B, vec![Int(k), v]);
    let main = |ret: T, body: Blk, extra: Vec<T>| {
        let mut var_tys = vec![T::I, T::I, T::B];
        var_tys.extend(extra);
        Prog { fns: vec![Fn_ { params: vec![0, 1, 2], ret, body }], var_tys }
    };
    let last = |e: E| Blk { stmts: vec![], last: Some(Box::new(e)) };
    vec![
        ("operands left to right", main(T::I, last(Bin(Op::Sub, b(em(1, Var(0))), b(em(2, Var(1))))), vec![])),
        (
            "left operand is read before the right operand's assignment",
            main(T::I, last(Bin(Op::Sub, b(Var(0)), b(Block(Blk { stmts: vec![S::Do(Assign(0, b(Int(100))))], last: Some(b(Int(1))) })))), vec![]),
        ),
        ("receiver first", main(T::I, last(Host(H_MIX, vec![em(1, Var(0)), em(2, Int(5)), em(3, Var(1))])), vec![])),
        ("arguments left to right", main(T::I, last(Host(H_EMIT3, vec![em(1, Int(9)), em(2, Var(0)), em(3, Var(1))])), vec![])),
        ("&& skips", main(T::B, last(And(b(emb(1, Var(2))), b(emb(2, Bool(true))))), vec![])),
        ("|| skips", main(T::B, last(Or(b(emb(1, Var(2))), b(emb(2, Bool(false))))), vec![])),
        (
            "record fields, list elements",
            main(
                T::I,
                Blk {
                    stmts: vec![S::Let(3, Record(RK_R, vec![(0, em(1, Var(0))), (1, em(2, Var(1))), (2, em(6, Int(3)))])), S::Let(4, List(vec![em(3, Int(1)), em(4, Int(2)), em(5, Int(3))]))],
                    last: Some(b(Field(b(Var(3)), 1))),
                },
                vec![T::R, T::L],
            ),
        ),
        (
            "compound assignment reads its target first",
            main(
                T::I,
                Blk { stmts: vec![S::Do(CAssign(Op::Add, 0, b(Block(Blk { stmts: vec![S::Do(Assign(0, b(Int(100))))], last: Some(b(em(1, Int(1)))) }))))], last: Some(b(em(2, Var(0)))) },
                vec![],
            ),
        ),
        (
            "while condition runs once more than the body",
            main(
                T::I,
                Blk {
                    stmts: vec![
                        S::Let(3, Int(0)),
                        S::Do(While(
                            b(emb(1, Bin(Op::Lt, b(Var(3)), b(Int(3))))),
                            Blk { stmts: vec![S::Do(Host(H_EMIT_U, vec![Int(2)])), S::Do(Assign(3, b(Bin(Op::Add, b(Var(3)), b(Int(1))))))], last: None },
                        )),
                    ],
                    last: Some(b(Var(3))),
                },
                vec![T::I],
            ),
        ),
        (
            "nothing after return",
            main(T::I, Blk { stmts: vec![S::Do(If1(b(emb(1, Var(2))), Blk { stmts: vec![S::Do(Ret(b(em(2, Int(7)))))], last: None })), S::Do(Host(H_EMIT_U, vec![Int(3)]))], last: Some(b(em(4, Var(0)))) }, vec![]),
        ),
        (
            "? on None leaves the function",
            main(T::O, Blk { stmts: vec![S::Let(3, Try(b(Host(H_EMIT_O, vec![Int(1), Var(0)]))))], last: Some(b(E::Some(b(em(2, Var(3)))))) }, vec![T::I]),
        ),
        (
            "guards in source order, only the selected arm",
            main(
                T::I,
                last(Match(
                    b(Host(H_EMIT_O, vec![Int(1), Var(0)])),
                    true,
                    vec![
                        Arm { pat: Pat::Variant(0, vec![3]), guard: Some(emb(2, Bin(Op::Gt, b(Var(3)), b(Int(5))))), body: last(em(3, Var(3))) },
                        Arm { pat: Pat::Wild, guard: Some(emb(4, Var(2))), body: last(em(5, Int(0))) },
                        Arm { pat: Pat::Variant(0, vec![4]), guard: None, body: last(em(6, Var(4))) },
                        Arm { pat: Pat::Variant(1, vec![]), guard: None, body: last(em(7, Int(1))) },
                    ],
                )),
                vec![T::I, T::I],
            ),
        ),
        (
            "f-string parts left to right",
            main(T::S, last(FStr(vec![Part::Str("a".into()), Part::Expr(em(1, Var(0))), Part::Str("-".into()), Part::Expr(emb(2, Var(2))), Part::Expr(em(3, Var(1)))])), vec![]),
        ),
        (
            "enum constructor arguments left to right",
            main(
                T::I,
                last(Match(
                    b(Ctor(1, vec![em(1, Var(0)), Block(Blk { stmts: vec![S::Do(Host(H_EMIT_U, vec![Int(2)]))], last: Some(b(em(3, Var(1)))) })])),
                    false,
                    vec![Arm { pat: Pat::Variant(1, vec![3, 4]), guard: None, body: last(Bin(Op::Sub, b(Var(3)), b(Var(4)))) }, Arm { pat: Pat::Wild, guard: None, body: last(Int(0)) }],
                )),
                vec![T::I, T::I],
            ),
        ),
        (
            "accept / reject leave the function",
            main(T::V, Blk { stmts: vec![S::Do(If1(b(emb(1, Var(2))), Blk { stmts: vec![S::Do(Reject(b(em(2, Var(1)))))], last: None }))], last: Some(b(Accept(b(em(3, Var(0)))))) }, vec![]),
        ),
        (
            "for runs the body once per element in order",
            main(T::I, Blk { stmts: vec![S::Let(3, Int(0)), S::Do(For(4, b(List(vec![em(1, Var(0)), em(2, Var(1)), em(3, Int(3))])), Blk { stmts: vec![S::Do(CAssign(Op::Add, 3, b(em(4, Var(4)))))], last: None }))], last: Some(b(Var(3))) }, vec![T::I, T::I]),
        ),
    ]
}

fn corpus_args() -> Vec<Args> {
    vec![(4, 9, true), (7, 2, false), (-1, 0, true), (i32::MAX, 1, false), (0, i32::MIN, true), (6, 6, false), (3, 8, true), (10, -3, false)]
}

fn main() {
    let args: Vec<String> = std::env::args().collect();
    let mut rep = Report::default();
    match args.get(1).map(|s| s.as_str()) {
        Some("run") => {
            let seed: u64 = args.get(2).and_then(|s| s.parse().ok()).unwrap_or(1);
            let thorough = args.get(3).map(|s| s == "thorough").unwrap_or(false);
            let seed_s = seed.to_string();
            // corpus first
            let (ended, out) = run_worker_keep_stdout(&["corpus"], Duration::from_secs(120));
            if let Some(v) = Report::parse_stdout(&out) {
                rep.merge_json(&v);
            }
            if !matches!(ended, Ended::Exit(0, _)) {
                rep.violation("process died or hung while running the hand-written corpus", "crash corpus", json!({"ended": format!("{ended:?}")}));
            }
            let n: u64 = if thorough { 12_000 } else if args.get(3).map(|s| s == "search").unwrap_or(false) { 3_000 } else { 1_500 };
            let (mut from, mut crashes) = (0u64, 0u32);
            while from < n && crashes < 4 {
                let cnt = 50.min(n - from);
                let (f, c) = (from.to_string(), cnt.to_string());
                let (ended, out) = run_worker_keep_stdout(&["progs", &seed_s, &f, &c], Duration::from_secs(if crashes == 0 { 120 } else { 40 }));
                if let Some(v) = Report::parse_stdout(&out) {
                    rep.merge_json(&v);
                }
                if matches!(ended, Ended::Exit(0, _)) {
                    from += cnt;
                    continue;
                }
                crashes += 1;
                let idx = out.lines().rev().find_map(|l| l.strip_prefix("START ")).and_then(|s| s.trim().parse::<u64>().ok()).unwrap_or(from);
                let mut p = Prng::for_case(seed, idx);
                let g = generator::gen_program(&mut p, is_frag(idx));
                rep.violation(
                    "process died or hung (trap/abort/timeout) while compiling or running a generated program",
                    "crash",
                    json!({"seed": seed, "index": idx, "src": source(&g.prog), "ended": format!("{ended:?}")}),
                );
                from = idx + 1;
            }
            if crashes >= 4 {
                rep.notes.push(format!("stopped after {crashes} crashes/hangs at program {from} of {n}"));
            }
            // many programs show the same defect: keep the few smallest minimised ones, one per key
            let total_viol = rep.impl_violations.len();
            let mut vs = std::mem::take(&mut rep.impl_violations);
            vs.sort_by_key(|v| v["input"]["src"].as_str().map(|s| s.len()).unwrap_or(usize::MAX));
            let mut seen = BTreeSet::new();
            for v in vs {
                let key = v["key"].as_str().unwrap_or("").to_string();
                if seen.insert(key) && rep.impl_violations.len() < 6 {
                    rep.impl_violations.push(v);
                }
            }
            if total_viol > rep.impl_violations.len() {
                rep.notes.push(format!("{total_viol} violations found; the {} smallest with distinct keys are reported", rep.impl_violations.len()));
            }
            rep.notes.push(format!("programs generated: {from}; argument tuples per program: 8; corpus programs: {} ({} one per clause of the statement; {} implicit host calls: f-strings with 2 and 3 parts x part kinds (host value with a logging to_string, effectful call, block with effect), the equality of the host type; {} bare variable / path as a constructor component assigned by a later component; {} records: every written order of R, P (two fields), G[T], H[T] x shapes of literal, 3 fields x 4 shapes of reading / assigning a field; {} matches: pattern variant x examinee variant, one named variant + `_`, guarded `_` between two variants; {} desugared operators: string + and list + with a lazy left operand x effects nested in the right operand)", corpus().len(), corpus_clauses().len(), corpus_implicit().len(), corpus_bare().len(), corpus_records().len(), corpus_matches().len(), corpus_desugared().len()));
        }
        Some("worker") => {
            if std::env::var("C08_VERBOSE").is_err() {
                std::panic::set_hook(Box::new(|_| {}));
            }
            let mut drv = Driver::spawn().expect("lean driver");
            match args[2].as_str() {
                "corpus" => {
                    for (i, (name, prog)) in corpus().into_iter().enumerate() {
                        println!("START {i}");
                        std::io::stdout().flush().ok();
                        check_program(&mut rep, &mut drv, &prog, &corpus_args(), json!({"corpus": name}), i % 4 == 0);
                    }
                }
                "progs" => {
                    let seed: u64 = args[3].parse().unwrap();
                    let from: u64 = args[4].parse().unwrap();
                    let n: u64 = args[5].parse().unwrap();
                    for idx in from..from + n {
                        println!("START {idx}");
                        std::io::stdout().flush().ok();
                        let mut p = Prng::for_case(seed, idx);
                        let g = generator::gen_program(&mut p, is_frag(idx));
                        let a = generator::gen_args(&mut p, 8);
                        let before = rep.impl_violations.len() + rep.model_mismatches.len();
                        check_program(&mut rep, &mut drv, &g.prog, &a, json!({"seed": seed, "index": idx}), idx % 61 == 0);
                        if rep.impl_violations.len() + rep.model_mismatches.len() != before {
                            rep.emit();
                            std::io::stdout().flush().ok();
                        }
                    }
                }
                "replay1" => {
                    let v: Value = serde_json::from_str(&args[3]).expect("json");
                    replay_one(&mut rep, &mut drv, &v);
                }
                "regen" => {
                    let seed: u64 = args[3].parse().unwrap();
                    let idx: u64 = args[4].parse().unwrap();
                    let mut p = Prng::for_case(seed, idx);
                    let g = generator::gen_program(&mut p, is_frag(idx));
                    let a = generator::gen_args(&mut p, 8);
                    println!("{}", source(&g.prog));
                    std::io::stdout().flush().ok();
                    check_program(&mut rep, &mut drv, &g.prog, &a, json!({"seed": seed, "index": idx}), false);
                }
                _ => std::process::exit(64),
            }
        }
        Some("replay") => {
            let v: Value = serde_json::from_str(&args[2]).expect("replay json");
            let v = if v.get("case").is_some() && v.get("sexp").is_none() { v["case"].clone() } else { v };
            let ended = if v.get("sexp").is_some() {
                run_worker(&["replay1", &v.to_string()], Duration::from_secs(120))
            } else {
                let s = v["seed"].as_u64().expect("seed").to_string();
                let i = v["index"].as_u64().expect("index").to_string();
                run_worker(&["regen", &s, &i], Duration::from_secs(240))
            };
            match ended {
                Ended::Exit(0, out) => {
                    print!("{}", out.lines().filter(|l| !l.starts_with("HARNESS-REPORT")).collect::<Vec<_>>().join("\n"));
                    println!();
                    if let Some(r) = Report::parse_stdout(&out) {
                        rep.merge_json(&r);
                    }
                }
                other => {
                    println!("worker ended: {other:?}");
                    rep.evaluations = 1;
                    rep.violation("process died or hung while compiling or running the replayed program", "crash", v.clone());
                }
            }
        }
        Some("show") => {
            let seed: u64 = args[2].parse().unwrap();
            let idx: u64 = args[3].parse().unwrap();
            let mut p = Prng::for_case(seed, idx);
            let g = generator::gen_program(&mut p, is_frag(idx));
            let a = generator::gen_args(&mut p, 8);
            println!("{}\n{}\nargs = {:?}", source(&g.prog), sexp(&g.prog), a);
            return;
        }
        Some("mir") => {
            let src = if args[2] == "-" { let mut s = String::new(); std::io::Read::read_to_string(&mut std::io::stdin(), &mut s).unwrap(); s } else { args[2].clone() };
            let rt: &'static roto::Runtime<roto::NoCtx> = Box::leak(Box::new(host::runtime()));
            match roto::verif_hooks::core::lower_to_mir(FileTree::test_file("c08.roto", &src, 0), rt) {
                Ok(m) => println!("{}", m.text()),
                Err(e) => println!("ERROR\n{e}"),
            }
            return;
        }
        Some("exec") => {
            let ret = T::parse(&args[2]).expect("ret type name");
            let a: Args = (args[4].parse().unwrap(), args[5].parse().unwrap(), args[6] == "true" || args[6] == "1");
            match compile(&args[3]) {
                Ok(mut pkg) => println!("{:?}", call_once(&mut pkg, ret, a)),
                Err(e) => println!("ERROR\n{e}"),
            }
            return;
        }
        _ => {
            eprintln!("usage: c08 run <seed> <quick|thorough> | c08 replay <json> | c08 show <seed> <index> | c08 exec <ret> <src> a b c");
            std::process::exit(64);
        }
    }
    rep.emit();
}
