//! C10 crash oracle: well-typed scripts and built-ins cannot kill the host.
//!
//! Every case runs in a worker subprocess; a terminating signal (SIGILL,
//! SIGFPE, SIGABRT, SIGSEGV …), a non-zero exit or a timeout is a violation
//! with the case as replay.  The Lean model (`scalar jit …` for the integer
//! operators, `c10 …` for the built-ins that validate arguments) predicts
//! each outcome first: predicted traps/panics run alone in their own worker,
//! everything else runs in crash-isolated batches.  A predicted-safe case that
//! kills its batch worker is a violation *and* a model mismatch; a predicted
//! trap that returns is a model mismatch; a value that differs from the
//! model's is a model mismatch.
//!
//! usage: c10 run <seed> <quick|thorough>
//!        c10 replay <json>
//!        c10 list                      (registered built-ins, from the hook)
//!        c10 cases <seed> <tier>       (dump the generated built-in cases)

#[path = "../c10/builtins.rs"]
mod builtins;
#[path = "../c10/conc.rs"]
mod conc;

use builtins::{Arg, Case, canon_kind, make_caller_at};
use roto::{FileTree, Runtime};
use rotov_harness::driver::Driver;
use rotov_harness::scalar::*;
use rotov_harness::worker::{Ended, run_batches, run_worker};
use rotov_harness::{Prng, Report};
use serde_json::{Value as J, json};
use std::collections::{BTreeMap, BTreeSet, HashMap};
use std::sync::Mutex;
use std::sync::atomic::{AtomicUsize, Ordering};
use std::time::Duration;

const OPS: [(&str, &str); 5] = [("+", "Add"), ("-", "Sub"), ("*", "Mul"), ("/", "Div"), ("%", "Mod")];

fn arith_src(op: &str, ty: STy) -> String {
    format!("fn main(a: {t}, b: {t}) -> {t} {{ a {op} b }}", t = ty.name())
}

fn jit_request(instr: &str, ty: STy, a: u64, b: u64) -> String {
    let t = ty.name();
    match instr {
        "Div" | "Mod" => format!("scalar jit {instr} {} {t} {a} {t} {b}", ty.signed() as u8),
        _ => format!("scalar jit {instr} {t} {a} {t} {b}"),
    }
}

fn min_bits(ty: STy) -> u64 {
    1u64 << (ty.bits() - 1)
}

/// The operand class that keys a finding: the divisor is zero, or MIN / -1.
fn trap_class(ty: STy, a: u64, b: u64) -> &'static str {
    if b == 0 {
        "div-by-zero"
    } else if ty.signed() && a == min_bits(ty) && b == ty.mask() {
        "min-div-minus-one"
    } else {
        "other-operands"
    }
}

fn operand_class(ty: STy, x: u64) -> &'static str {
    let m = ty.mask();
    if x == 0 {
        "0"
    } else if x == 1 {
        "1"
    } else if ty.signed() && x == m {
        "-1"
    } else if ty.signed() && x == min_bits(ty) {
        "MIN"
    } else if (ty.signed() && x == min_bits(ty) - 1) || (!ty.signed() && x == m) {
        "MAX"
    } else {
        "other"
    }
}

fn sig_name(s: i32) -> String {
    match s {
        4 => "SIGILL".into(),
        6 => "SIGABRT".into(),
        8 => "SIGFPE".into(),
        11 => "SIGSEGV".into(),
        7 => "SIGBUS".into(),
        n => format!("signal {n}"),
    }
}

/// "kills the host process (SIGABRT)" / "never returns (timeout: the call hangs)"
fn kills(how: &str) -> String {
    if how == "timeout" { "never returns (timeout: the call hangs the calling host thread)".to_string() } else { format!("kills the host process ({how})") }
}

fn ended_str(e: &Ended) -> String {
    match e {
        Ended::Exit(c, _) => format!("exit {c}"),
        Ended::Signal(s, _) => sig_name(*s),
        Ended::Timeout => "timeout".into(),
    }
}

fn hex(s: &str) -> String {
    rotov_harness::driver::hex(s)
}
fn unhex(s: &str) -> String {
    let b: Vec<u8> = (0..s.len() / 2).map(|i| u8::from_str_radix(&s[2 * i..2 * i + 2], 16).unwrap()).collect();
    String::from_utf8(b).unwrap()
}

/// Run jobs (`worker` argument vectors) in parallel, each in its own process.
fn run_parallel(jobs: &[Vec<String>], timeout: Duration) -> Vec<Ended> {
    run_parallel_n(jobs, timeout, 8)
}

fn run_parallel_n(jobs: &[Vec<String>], timeout: Duration, max: usize) -> Vec<Ended> {
    let next = AtomicUsize::new(0);
    let out: Mutex<Vec<Option<Ended>>> = Mutex::new(vec![None; jobs.len()]);
    let threads = std::thread::available_parallelism().map(|n| n.get()).unwrap_or(4).min(max);
    std::thread::scope(|s| {
        for _ in 0..threads {
            s.spawn(|| {
                loop {
                    let i = next.fetch_add(1, Ordering::SeqCst);
                    if i >= jobs.len() {
                        break;
                    }
                    let a: Vec<&str> = jobs[i].iter().map(|x| x.as_str()).collect();
                    let e = run_worker(&a, timeout);
                    out.lock().unwrap()[i] = Some(e);
                }
            });
        }
    });
    out.into_inner().unwrap().into_iter().map(|x| x.unwrap()).collect()
}

/// A single case as handed to `worker one <hex json>` and stored in replays.
fn one_job(case: &J) -> Vec<String> {
    vec!["one".into(), hex(&case.to_string())]
}

/// Violations are recorded once per key (the first instance is the replay);
/// further instances are only counted, so that hundreds of instances of a
/// known finding can never crowd an unlisted crash out of the report.
struct Viol {
    seen: BTreeSet<String>,
}
impl Viol {
    fn add(&mut self, rep: &mut Report, what: &str, key: &str, input: J) {
        rep.hist("violations-by-key", key);
        if self.seen.insert(key.to_string()) {
            rep.violation(what, key, input);
        }
    }
}

// ------------------------------------------------------------------ arithmetic

struct ACase {
    op: usize,
    ty: STy,
    a: u64,
    b: u64,
    lean: String,
}

impl ACase {
    fn json(&self) -> J {
        json!({"kind": "arith", "src": arith_src(OPS[self.op].0, self.ty), "op": OPS[self.op].0,
               "ty": self.ty.name(), "a": self.a, "b": self.b})
    }
    fn class(&self, outcome: &str) -> String {
        let oc = match trap_class(self.ty, self.a, self.b) {
            "other-operands" => format!("{}x{}", operand_class(self.ty, self.a), operand_class(self.ty, self.b)),
            c => c.to_string(),
        };
        format!("arith|{}|{}|{}|{}", OPS[self.op].0, self.ty.name(), oc, outcome)
    }
}

fn arith_cases(drv: &mut Driver, prng: &mut Prng, thorough: bool) -> Vec<ACase> {
    let mut cases = vec![];
    for (oi, (_sym, _instr)) in OPS.iter().enumerate() {
        for ty in INTS {
            let bd = ty.boundary();
            for &a in &bd {
                for &b in &bd {
                    cases.push(ACase { op: oi, ty, a, b, lean: String::new() });
                }
            }
            let extra = if thorough { 600 } else { 40 };
            for k in 0..extra {
                let a = ty.random(prng);
                // every third random pair has a zero / -1 divisor
                let b = match k % 6 {
                    0 => 0,
                    3 => ty.mask(),
                    _ => ty.random(prng),
                };
                cases.push(ACase { op: oi, ty, a, b, lean: String::new() });
            }
        }
    }
    let reqs: Vec<String> = cases.iter().map(|c| jit_request(OPS[c.op].1, c.ty, c.a, c.b)).collect();
    let ans = drv.ask_all(&reqs);
    for (c, a) in cases.iter_mut().zip(ans) {
        c.lean = a;
    }
    cases
}

fn arith_part(rep: &mut Report, viol: &mut Viol, drv: &mut Driver, seed: u64, thorough: bool, workdir: &std::path::Path) {
    let mut prng = Prng::for_case(seed, 10_000_000);
    let cases = arith_cases(drv, &mut prng, thorough);
    let mut singles: Vec<&ACase> = vec![];
    let mut batched: Vec<&ACase> = vec![];
    let mut per_group: HashMap<(usize, STy, &'static str), u32> = HashMap::new();
    for c in &cases {
        if c.lean == "trap" {
            // quick tier: a sample of each (operator, type, operand class); thorough: all
            let n = per_group.entry((c.op, c.ty, trap_class(c.ty, c.a, c.b))).or_insert(0);
            *n += 1;
            if thorough || *n <= 24 {
                singles.push(c);
            } else {
                rep.hist("arith-predicted-trap-not-run(quick tier)", format!("{} {}", OPS[c.op].0, c.ty.name()));
            }
        } else if c.lean.starts_with("ok ") {
            batched.push(c);
        } else {
            rep.mismatch("Lean driver gave no verdict for an integer operation", json!({"case": c.json(), "lean": c.lean}));
        }
    }
    // --- predicted traps: one worker each
    let jobs: Vec<Vec<String>> = singles.iter().map(|c| one_job(&c.json())).collect();
    let ended = run_parallel(&jobs, Duration::from_secs(60));
    for (c, e) in singles.iter().zip(ended) {
        rep.evaluations += 1;
        rep.hist("arith-operator", format!("{} {}", OPS[c.op].0, c.ty.name()));
        match &e {
            Ended::Exit(0, out) => {
                rep.class(c.class("returned"));
                rep.hist("arith-outcome", "returned (model predicted a trap)");
                rep.mismatch(
                    "Model/Clif predicts a trap, the compiled code returned a value",
                    json!({"case": c.json(), "lean": c.lean, "real": out.trim()}),
                );
            }
            other => {
                let how = ended_str(other);
                rep.class(c.class(&how));
                rep.hist("arith-outcome", format!("killed: {how}"));
                let mut input = c.json();
                input["ended"] = json!(how);
                viol.add(
                    rep,
                    &format!(
                        "integer `{}` on {} kills the host process ({}): {} with a={} b={}",
                        OPS[c.op].0, c.ty.name(), how, trap_class(c.ty, c.a, c.b), c.a, c.b
                    ),
                    &format!("arith-trap {} {} {}", OPS[c.op].0, c.ty.name(), trap_class(c.ty, c.a, c.b)),
                    input,
                );
            }
        }
    }
    // --- predicted safe: crash-isolated batches
    let list = workdir.join(format!("c10-arith-{}.txt", std::process::id()));
    let mut text = String::new();
    for c in &batched {
        text.push_str(&format!("{} {} {} {} {}\n", c.op, c.ty.name(), c.a, c.b, c.lean));
    }
    std::fs::write(&list, text).expect("write arith list");
    let lp = list.to_string_lossy().to_string();
    let mut crashes = vec![];
    run_batches(&["arith-batch", &lp], batched.len() as u64, 4000, Duration::from_secs(600), rep,
        |_rep: &mut Report, idx: u64, how: &Ended| crashes.push((idx as usize, how.clone())));
    let _ = std::fs::remove_file(&list);
    for (idx, how) in crashes {
        let c = batched[idx];
        let how = ended_str(&how);
        rep.evaluations += 1;
        rep.class(c.class(&how));
        let mut input = c.json();
        input["ended"] = json!(how);
        rep.mismatch("Model/Clif predicts a value, the compiled code killed the process", json!({"case": input, "lean": c.lean}));
        viol.add(
            rep,
            &format!("integer `{}` on {} kills the host process ({how}) with a={} b={}", OPS[c.op].0, c.ty.name(), c.a, c.b),
            &format!("arith-trap {} {} {}", OPS[c.op].0, c.ty.name(), trap_class(c.ty, c.a, c.b)),
            input,
        );
    }
}

fn parse_ty(s: &str) -> STy {
    let mut all: Vec<STy> = INTS.to_vec();
    all.extend(FLOATS);
    all.push(STy::Bool);
    *all.iter().find(|t| t.name() == s).expect("type name")
}

fn compile(src: &str) -> Result<roto::Package<roto::NoCtx>, String> {
    let rt = Runtime::new();
    FileTree::test_file("c10.roto", src, 0).compile(&rt).map_err(|e| format!("{e}"))
}

fn arith_batch_worker(rep: &mut Report, list: &str, from: usize, n: usize) {
    let text = std::fs::read_to_string(list).expect("arith list");
    let lines: Vec<&str> = text.lines().collect();
    let mut cache: HashMap<(usize, STy), Callable> = HashMap::new();
    for k in from..(from + n).min(lines.len()) {
        let w: Vec<&str> = lines[k].splitn(5, ' ').collect();
        let (op, ty, a, b, lean) = (w[0].parse::<usize>().unwrap(), parse_ty(w[1]), w[2].parse::<u64>().unwrap(), w[3].parse::<u64>().unwrap(), w[4]);
        let c = ACase { op, ty, a, b, lean: lean.to_string() };
        if !cache.contains_key(&(op, ty)) {
            let src = arith_src(OPS[op].0, ty);
            let f = compile(&src).and_then(|mut p| get_main(&mut p, ty, 2, ty));
            match f {
                Ok(f) => {
                    cache.insert((op, ty), f);
                }
                Err(e) => {
                    rep.mismatch("generated program does not compile", json!({"src": src, "error": e}));
                    continue;
                }
            }
        }
        println!("START {k}");
        let r = cache[&(op, ty)](&[a, b]);
        rep.evaluations += 1;
        rep.hist("arith-operator", format!("{} {}", OPS[op].0, ty.name()));
        rep.hist("arith-outcome", "returned");
        rep.class(c.class("returned"));
        let lw: Vec<&str> = lean.split(' ').collect();
        let ok = lw.len() == 3 && lw[0] == "ok" && lw[2].parse::<u64>().ok() == Some(r);
        if !ok {
            rep.mismatch(
                "generated codegen arm + CLIF semantics differ from the compiled code's result",
                json!({"case": c.json(), "lean": lean, "real": r}),
            );
        }
        if rep.evaluations % 4001 == 0 {
            rep.sample(json!({"case": c.json(), "result": r}));
        }
    }
}

// -------------------------------------------------------------------- built-ins

fn case_json(c: &Case) -> J {
    json!({"kind": "builtin", "builtin": c.name, "id": c.id, "class": c.class, "src": c.src, "entry": c.entry, "sig": c.sig,
           "args": c.args.iter().map(|a| a.encode()).collect::<Vec<_>>()})
}

fn builtin_key(c: &Case, how: &str) -> String {
    let verb = if how == "timeout" { "builtin-timeout" } else { "builtin-abort" };
    // element-type cases: one key per (built-in, element type) — the list shape is in the replay
    let class = if c.class.starts_with("elem=") { c.class.split(' ').next().unwrap_or(&c.class) } else { &c.class };
    format!("{verb} {} {}", c.name, class)
}

/// `Driver::ask_all` writes a chunk of requests before it reads the answers: the
/// requests of one chunk must fit the pipe (long list arguments), or both sides
/// block.  Batches of at most 16 KB of request text.
fn ask_sized(drv: &mut Driver, reqs: &[String]) -> Vec<String> {
    let mut out = Vec::with_capacity(reqs.len());
    let mut from = 0;
    while from < reqs.len() {
        let mut to = from;
        let mut bytes = 0usize;
        while to < reqs.len() && (to == from || bytes + reqs[to].len() + 1 <= 16 * 1024) && to - from < 256 {
            bytes += reqs[to].len() + 1;
            to += 1;
        }
        out.extend(drv.ask_all(&reqs[from..to]));
        from = to;
    }
    out
}

fn builtin_part(rep: &mut Report, viol: &mut Viol, drv: &mut Driver, seed: u64, thorough: bool, workdir: &std::path::Path) {
    let cases = builtins::cases(seed, thorough);
    // coverage: every registered built-in is exercised by at least one case
    let registered = roto::verif_hooks::c10::builtin_functions(&Runtime::new());
    let mut covered: BTreeMap<String, u64> = BTreeMap::new();
    for c in &cases {
        *covered.entry(c.name.to_string()).or_insert(0) += 1;
        for x in &c.covers {
            *covered.entry(x.to_string()).or_insert(0) += 1;
        }
    }
    for name in &registered {
        if !covered.contains_key(name) {
            rep.mismatch("a registered built-in has no generated case (the oracle's table is out of date)", json!({"builtin": name}));
        }
    }
    rep.notes.push(format!("registered built-ins: {}; exercised: {}", registered.len(), registered.iter().filter(|n| covered.contains_key(*n)).count()));
    // model predictions
    let with_model: Vec<usize> = (0..cases.len()).filter(|i| cases[*i].lean.is_some()).collect();
    let reqs: Vec<String> = with_model.iter().map(|i| cases[*i].lean.clone().unwrap()).collect();
    let answers = ask_sized(drv, &reqs);
    let mut pred: Vec<Option<String>> = vec![None; cases.len()];
    for (i, a) in with_model.iter().zip(answers) {
        if a == "bad-op" {
            rep.mismatch("Lean driver does not know this c10 request", json!({"request": cases[*i].lean}));
        } else {
            pred[*i] = Some(a);
        }
    }
    // predicted to kill the process: `panic` (abort inside the trampoline) or `segv` (call through a null vtable slot)
    let kill = |p: &Option<String>| matches!(p.as_deref(), Some("panic") | Some("segv"));
    let singles: Vec<usize> = (0..cases.len()).filter(|i| kill(&pred[*i]) || cases[*i].solo).collect();
    let batched: Vec<usize> = (0..cases.len()).filter(|i| !kill(&pred[*i]) && !cases[*i].solo).collect();
    // --- predicted panics and solo cases (self-referential arguments): one worker each, short timeout
    let jobs: Vec<Vec<String>> = singles.iter().map(|i| one_job(&case_json(&cases[*i]))).collect();
    let ended = run_parallel(&jobs, Duration::from_secs(20));
    for (i, e) in singles.iter().zip(ended) {
        let c = &cases[*i];
        rep.evaluations += 1;
        rep.hist("builtin", c.name);
        for x in &c.covers {
            rep.hist("builtin", *x);
        }
        rep.hist("builtin-arg-class", format!("{} {}", c.name, c.class));
        match &e {
            Ended::Exit(0, out) if !kill(&pred[*i]) => {
                let r = out.trim().strip_prefix("RESULT ").unwrap_or(out.trim()).to_string();
                rep.hist("builtin-outcome", canon_kind(&r));
                rep.class(format!("builtin|{}|{}|{}", c.name, c.class, canon_kind(&r)));
                if let Some(p) = &pred[*i] {
                    rep.hist("builtin-model-compared", c.name);
                    if *p != r {
                        rep.mismatch(
                            "Model/Builtins (generated bindings + model) differs from the real built-in's result",
                            json!({"case": case_json(c), "request": c.lean, "lean": p, "real": r}),
                        );
                    }
                }
            }
            Ended::Exit(0, out) => {
                rep.class(format!("builtin|{}|{}|returned", c.name, c.class));
                rep.mismatch(
                    "Model/Builtins predicts a panic / a call through a null vtable slot, the real built-in returned",
                    json!({"case": case_json(c), "lean": pred[*i], "real": out.trim()}),
                );
            }
            other => {
                let how = ended_str(other);
                rep.class(format!("builtin|{}|{}|{how}", c.name, c.class));
                rep.hist("builtin-outcome", format!("killed: {how}"));
                let mut input = case_json(c);
                input["ended"] = json!(how);
                viol.add(
                    rep,
                    &format!("built-in {} {} on argument class `{}`", c.name, kills(&how), c.class),
                    &builtin_key(c, &how),
                    input,
                );
            }
        }
    }
    // --- the rest: crash-isolated batches.  Group 0: everything but the element-type cases
    // (batches of 1500, a script that has killed three workers is not run again).  Then one group
    // per element type (`List[<type>].<op>` scripts): one batch, short timeout; after four kills the
    // rest of that type is skipped — the (built-in, element type) keys found so far are the replays,
    // and a broken vtable must cost minutes, not a restart per case.
    let is_elem = |i: usize| cases[i].class.starts_with("elem=");
    let mut groups: Vec<(String, Vec<usize>)> = vec![("".into(), batched.iter().copied().filter(|i| !is_elem(*i)).collect())];
    for i in batched.iter().copied().filter(|i| is_elem(*i)) {
        let ty = cases[i].id.split("].").next().unwrap_or("").to_string() + "].";
        match groups.last_mut() {
            Some((g, v)) if *g == ty => v.push(i),
            _ => groups.push((ty, vec![i])),
        }
    }
    let (seed_s, tier) = (seed.to_string(), if thorough { "thorough" } else { "quick" });
    let mut crashes: Vec<(usize, Ended)> = vec![];
    for (gk, (gname, members)) in groups.iter().enumerate() {
        if members.is_empty() {
            continue;
        }
        let list = workdir.join(format!("c10-builtin-{}-{gk}.txt", std::process::id()));
        let mut text = String::new();
        for i in members {
            text.push_str(&format!("{} {}\n", i, pred[*i].as_deref().unwrap_or("-")));
        }
        std::fs::write(&list, text).expect("write builtin list");
        let lp = list.to_string_lossy().to_string();
        // ids (or `prefix*`) the batch workers read on start and do not run
        let skip = format!("{lp}.skip");
        let _ = std::fs::write(&skip, "");
        let mut per_id: HashMap<String, u32> = HashMap::new();
        let mut kills_in_group = 0u32;
        let (batch, timeout) = if gname.is_empty() { (1500, Duration::from_secs(300)) } else { (members.len() as u64, Duration::from_secs(60)) };
        run_batches(&["builtin-batch", &seed_s, tier, &lp], members.len() as u64, batch, timeout, rep,
            |rep: &mut Report, idx: u64, how: &Ended| {
                crashes.push((members[idx as usize], how.clone()));
                let id = cases[members[idx as usize]].id.clone();
                let n = per_id.entry(id.clone()).or_insert(0);
                *n += 1;
                kills_in_group += 1;
                let entry = if !gname.is_empty() && kills_in_group == 4 {
                    rep.hist("builtin-not-run(element type killed four workers already)", gname.clone());
                    Some(format!("{gname}*"))
                } else if *n == 3 || (!gname.is_empty() && matches!(how, Ended::Timeout)) {
                    Some(id)
                } else {
                    None
                };
                if let Some(e) = entry {
                    use std::io::Write;
                    if let Ok(mut f) = std::fs::OpenOptions::new().append(true).open(&skip) {
                        let _ = writeln!(f, "{e}");
                    }
                }
            });
        let _ = std::fs::remove_file(&list);
        let _ = std::fs::remove_file(&skip);
    }
    for (ci, how) in crashes {
        let c = &cases[ci];
        let how = ended_str(&how);
        rep.evaluations += 1;
        rep.hist("builtin", c.name);
        rep.hist("builtin-outcome", format!("killed: {how}"));
        rep.class(format!("builtin|{}|{}|{how}", c.name, c.class));
        let mut input = case_json(c);
        input["ended"] = json!(how);
        if let Some(p) = &pred[ci] {
            rep.mismatch("Model/Builtins predicts a result, the real built-in killed the process", json!({"case": input, "lean": p}));
        }
        viol.add(
            rep,
            &format!("built-in {} {} on argument class `{}`", c.name, kills(&how), c.class),
            &builtin_key(c, &how),
            input,
        );
    }
}

fn builtin_batch_worker(rep: &mut Report, seed: u64, thorough: bool, list: &str, from: usize, n: usize) {
    let cases = builtins::cases(seed, thorough);
    let text = std::fs::read_to_string(list).expect("builtin list");
    let lines: Vec<&str> = text.lines().collect();
    // one compiled package per script, one caller per (script, entry function)
    let mut pkgs: HashMap<String, Result<roto::Package<roto::NoCtx>, String>> = HashMap::new();
    let mut cache: HashMap<(String, &'static str), Result<builtins::Caller, String>> = HashMap::new();
    let skip: BTreeSet<String> = std::fs::read_to_string(format!("{list}.skip")).unwrap_or_default().lines().map(|l| l.to_string()).collect();
    for k in from..(from + n).min(lines.len()) {
        let (i, expected) = lines[k].split_once(' ').unwrap();
        let c = &cases[i.parse::<usize>().unwrap()];
        if skip.contains(&c.id) || skip.iter().any(|p| p.ends_with('*') && c.id.starts_with(p.trim_end_matches('*'))) {
            rep.hist("builtin-not-run(script killed three workers already)", c.id.clone());
            continue;
        }
        let ck = (c.src.clone(), c.entry);
        if !cache.contains_key(&ck) {
            let pkg = pkgs.entry(c.src.clone()).or_insert_with(|| compile(&c.src));
            let f = match pkg {
                Ok(p) => make_caller_at(p, c.sig, c.entry),
                Err(e) => Err(e.clone()),
            };
            if let Err(e) = &f {
                rep.mismatch("generated script does not compile", json!({"case": case_json(c), "error": e}));
            }
            cache.insert(ck.clone(), f);
        }
        let Ok(f) = &cache[&ck] else { continue };
        println!("START {k}");
        let r = f(&c.args);
        rep.evaluations += 1;
        rep.hist("builtin", c.name);
        for x in &c.covers {
            rep.hist("builtin", *x);
        }
        rep.hist("builtin-arg-class", format!("{} {}", c.name, c.class));
        rep.hist("builtin-outcome", canon_kind(&r));
        rep.class(format!("builtin|{}|{}|{}", c.name, c.class, canon_kind(&r)));
        if expected != "-" {
            rep.hist("builtin-model-compared", c.name);
            if expected != r {
                rep.mismatch(
                    "Model/Builtins (generated bindings + model) differs from the real built-in's result",
                    json!({"case": case_json(c), "request": c.lean, "lean": expected, "real": r}),
                );
            }
        }
        if rep.evaluations % 1009 == 0 {
            rep.sample(json!({"case": case_json(c), "result": r, "model": expected}));
        }
    }
}


// ------------------------------------------------------------------- contention

/// List built-ins while other threads use the same list (see `conc.rs`): each
/// case alone in a worker; abort / signal / timeout = violation, case = replay.
fn conc_part(rep: &mut Report, viol: &mut Viol, thorough: bool) {
    let cases = conc::cases(thorough);
    let jobs: Vec<Vec<String>> = cases.iter().map(|c| one_job(&c.json)).collect();
    let ended = run_parallel_n(&jobs, Duration::from_secs(if thorough { 300 } else { 40 }), 3);
    for (c, e) in cases.iter().zip(ended) {
        rep.evaluations += 1;
        rep.hist("builtin", c.builtin);
        rep.hist("conc-class", c.class.clone());
        match &e {
            Ended::Exit(0, out) if out.trim() == "RESULT ok" => {
                rep.class(format!("conc|{}|{}|returned", c.builtin, c.class));
                rep.hist("conc-outcome", "every call returned");
            }
            Ended::Exit(0, out) => {
                rep.class(format!("conc|{}|{}|wrong-result", c.builtin, c.class));
                rep.hist("conc-outcome", "wrong result");
                rep.mismatch(
                    "a list built-in returned a different result under contention than single-threaded (the lock model says calls are atomic)",
                    json!({"case": c.json, "real": out.trim()}),
                );
            }
            Ended::Exit(3, out) => {
                rep.mismatch("contention case could not be set up", json!({"case": c.json, "error": out.trim()}));
            }
            other => {
                let how = ended_str(other);
                rep.class(format!("conc|{}|{}|{how}", c.builtin, c.class));
                rep.hist("conc-outcome", format!("killed: {how}"));
                let mut input = c.json.clone();
                input["ended"] = json!(how);
                if let Ended::Signal(_, err) = other {
                    let msg: String = err.lines().find(|l| l.contains("panicked")).unwrap_or("").chars().take(300).collect();
                    input["stderr"] = json!(msg);
                }
                let verb = if how == "timeout" { "builtin-timeout" } else { "builtin-abort" };
                viol.add(
                    rep,
                    &format!("built-in {} {} when another thread uses the same list: `{}`", c.builtin, kills(&how), c.class),
                    &format!("{verb} {} {}", c.builtin, if c.json["pair"].as_bool().unwrap_or(false) { "opposite-argument-order" } else { "under-contention" }),
                    input,
                );
            }
        }
    }
}

// ------------------------------------------------------------------ single case

/// Run one case (arith or builtin) in this process; prints `RESULT …`.
fn run_one(case: &J) -> Result<String, String> {
    match case["kind"].as_str() {
        Some("arith") => {
            let ty = parse_ty(case["ty"].as_str().ok_or("ty")?);
            let src = case["src"].as_str().ok_or("src")?;
            let mut pkg = compile(src)?;
            let f = get_main(&mut pkg, ty, 2, ty)?;
            let r = f(&[case["a"].as_u64().ok_or("a")?, case["b"].as_u64().ok_or("b")?]);
            Ok(r.to_string())
        }
        Some("builtin") => {
            let src = case["src"].as_str().ok_or("src")?;
            let sig = case["sig"].as_str().ok_or("sig")?;
            let args: Vec<Arg> = case["args"].as_array().ok_or("args")?.iter()
                .map(|a| Arg::decode(a.as_str().unwrap_or(""))).collect::<Result<_, _>>()?;
            let mut pkg = compile(src)?;
            let f = make_caller_at(&mut pkg, sig, case["entry"].as_str().unwrap_or("main"))?;
            Ok(f(&args))
        }
        Some("conc") => conc::run(case),
        _ => Err("unknown case kind".into()),
    }
}

fn main() {
    let args: Vec<String> = std::env::args().collect();
    let mut rep = Report::default();
    let workdir = std::env::current_exe().ok().and_then(|p| p.parent().map(|p| p.to_path_buf())).unwrap_or_else(|| ".".into());
    match args.get(1).map(|s| s.as_str()) {
        Some("run") => {
            let seed: u64 = args.get(2).and_then(|s| s.parse().ok()).unwrap_or(1);
            let thorough = args.get(3).map(|s| s == "thorough").unwrap_or(false);
            let only = args.get(4).map(|s| s.as_str()).unwrap_or("all");
            let mut drv = Driver::spawn().expect("lean driver");
            let mut viol = Viol { seen: BTreeSet::new() };
            if only != "builtins" && only != "conc" {
                arith_part(&mut rep, &mut viol, &mut drv, seed, thorough, &workdir);
            }
            if only != "arith" && only != "conc" {
                builtin_part(&mut rep, &mut viol, &mut drv, seed, thorough, &workdir);
            }
            if only != "arith" && only != "builtins" {
                conc_part(&mut rep, &mut viol, thorough);
            }
        }
        Some("worker") => match args[2].as_str() {
            "one" => {
                let case: J = serde_json::from_str(&unhex(&args[3])).expect("case json");
                match run_one(&case) {
                    Ok(r) => {
                        println!("RESULT {r}");
                        return;
                    }
                    Err(e) => {
                        println!("ERROR {e}");
                        std::process::exit(3);
                    }
                }
            }
            "arith-batch" => {
                arith_batch_worker(&mut rep, &args[3], args[4].parse().unwrap(), args[5].parse().unwrap());
            }
            "builtin-batch" => {
                builtin_batch_worker(&mut rep, args[3].parse().unwrap(), args[4] == "thorough", &args[5],
                    args[6].parse().unwrap(), args[7].parse().unwrap());
            }
            _ => std::process::exit(64),
        },
        Some("replay") => {
            let v: J = serde_json::from_str(&args[2]).expect("replay json");
            let case = if v.get("case").is_some() { v["case"].clone() } else { v.clone() };
            let job = one_job(&case);
            let a: Vec<&str> = job.iter().map(|x| x.as_str()).collect();
            let e = run_worker(&a, Duration::from_secs(60));
            println!("replay ended: {}", ended_str(&e));
            rep.evaluations = 1;
            match e {
                Ended::Exit(0, out) => println!("{}", out.trim()),
                other => rep.violation(
                    &format!("the case kills the host process ({})", ended_str(&other)),
                    "replay",
                    case,
                ),
            }
        }
        Some("list") => {
            for n in roto::verif_hooks::c10::builtin_functions(&Runtime::new()) {
                println!("{n}");
            }
            return;
        }
        Some("cases") => {
            let seed: u64 = args.get(2).and_then(|s| s.parse().ok()).unwrap_or(1);
            let thorough = args.get(3).map(|s| s == "thorough").unwrap_or(false);
            for c in builtins::cases(seed, thorough) {
                println!("{}", json!({"case": case_json(&c), "lean": c.lean}));
            }
            return;
        }
        _ => {
            eprintln!("usage: c10 run <seed> <quick|thorough> [arith|builtins] | c10 replay <json> | c10 list | c10 cases <seed> <tier>");
            std::process::exit(64);
        }
    }
    rep.emit();
}
